package fleet

import (
	"context"
	"errors"
	"fmt"
	"sort"
	"strings"
	"sync"
	"testing"
	"time"

	"github.com/PowerDNS/lightningstream/config"
	"github.com/PowerDNS/lightningstream/snapshot"
	"github.com/PowerDNS/lightningstream/syncer"
	"github.com/PowerDNS/lmdb-go/lmdb"
	"pgregory.net/rapid"

	"verif/harness/internal/fault"
	"verif/harness/internal/lm"
	"verif/harness/internal/model"
	"verif/harness/internal/vcore"
)

// ---------------------------------------------------------------------------
// C05 Published data is never lost from the bucket
// ---------------------------------------------------------------------------

type C05Op struct {
	Kind    string    `json:"kind"` // app | step | crash | clean | fault | settle | corrupt-own
	Inst    int       `json:"inst"`
	Steps   int       `json:"steps,omitempty"`
	Until   string    `json:"until,omitempty"` // step: run until this yield point is reached (bounded)
	Keep    bool      `json:"keep,omitempty"`  // crash: keep the LMDB (true) or restart with an emptied one
	Changes []SChange `json:"changes,omitempty"`
	DtNs    int64     `json:"dt_ns,omitempty"`
	FKind   string    `json:"fkind,omitempty"` // fault: list | load | store | delete | load-own | load-of (names containing Match)
	Match   string    `json:"match,omitempty"`
	// ListFails (crash): the first that many listings of the restarted instance fail (each failed start-up listing
	// costs the product's fixed one-second pause)
	ListFails int      `json:"list_fails,omitempty"`
	Faults    []string `json:"faults,omitempty"`
	// Held (app): the transaction stays open - holding the LMDB write lock - until the instance's loop is
	// stepped next, and commits 2 ms after the loop was let go
	Held bool `json:"held,omitempty"`
}

type C05Case struct {
	Native        bool    `json:"native"`
	N             int     `json:"n"`
	MustKeep      int64   `json:"must_keep_ns"`
	RemoveOld     int64   `json:"remove_old_ns"`
	Ops           []C05Op `json:"ops"`
	ExcludedEmpty int     `json:"excluded_empty,omitempty"`
	// Force: storage_force_snapshot_interval (0 = off); used by the C10 loop check
	Force int64 `json:"force_ns,omitempty"`
	// Pad: header_extra_padding_block
	Pad bool `json:"pad,omitempty"`
	// OddNames: the configured instance names contain characters that are replaced in file names
	// ("i0.site_x" is stored as "i0-site-x"): everything that compares instance names must agree
	OddNames bool `json:"odd_names,omitempty"`
	// Dup (shadow mode): the third application DBI is a duplicate-keys DBI (MDB_DUPSORT, dupsort_hack on)
	Dup bool `json:"dup,omitempty"`
}

type c05Fleet struct {
	lastAppTxn [8]int64 // per instance: id of its application's most recent write transaction
	// appPuts: per instance, the keys (dbi/key) whose last application operation in the instance's current life
	// (since its last restart with an emptied LMDB) was a put
	appPuts [8]map[string]bool
	c       C05Case
	b       *fault.Bucket
	nodes   []*Node
	now     time.Time
	logPos  int
	// bucket replay
	present map[string]bool
	decoded map[string]map[string]map[string]Ver // blob -> dbi -> key -> version (nil if undecodable)
	joinTS  map[string]uint64                    // "dbi/key" -> best published timestamp
	ownPrev map[string]string                    // instance -> its previous newest decodable snapshot
	stats   struct {
		emptiedRestart, cleanerDeletedNewest, crashes, restarts, mutations int
		soleCopyAtRisk                                                     bool
		// application commits that would have landed between the end of a Lightning Stream write
		// transaction that turned out empty and the following env.Info(): the listed known finding
		// txnid-reuse-after-empty-ls-txn (the commit is taken for LS's own and never uploaded). Excluded
		// by construction - the instance is stepped to its next yield point first - and counted.
		excludedTxnReuse int
		budgetExhausted  int
		held             int
	}
	held map[int]*heldTxn
}

// excludedFindings reports the redirections to the evidence.
func (f *c05Fleet) excludedFindings(o *vcore.Obs) {
	for i := 0; i < f.stats.excludedTxnReuse; i++ {
		o.Excluded("txnid-reuse-after-empty-ls-txn")
	}
}

func (f *c05Fleet) decode(name string, data []byte) map[string]map[string]Ver {
	flat, err := DecodeBlob(data)
	if err != nil {
		return nil
	}
	m := map[string]map[string]Ver{}
	for _, d := range flat.DBIs {
		m[d.Name] = map[string]Ver{}
		for _, e := range d.Entries {
			m[d.Name][string(e.Key)] = Ver{TS: e.TS, Del: e.Flags&1 != 0, Val: e.Value}
		}
	}
	return m
}

func instOf(name string) string {
	ni, err := snapshot.ParseName(name)
	if err != nil {
		return ""
	}
	return ni.InstanceID
}

func (f *c05Fleet) newestPerInstance() map[string]string {
	out := map[string]string{}
	for n := range f.present {
		if f.decoded[n] == nil {
			continue // undecodable blobs are ignored by every reader
		}
		i := instOf(n)
		if i == "" {
			continue
		}
		if n > out[i] {
			out[i] = n
		}
	}
	return out
}

func (f *c05Fleet) join() map[string]uint64 {
	j := map[string]uint64{}
	for _, n := range f.newestPerInstance() {
		for dbi, m := range f.decoded[n] {
			for k, v := range m {
				id := dbi + "/" + k
				if cur, ok := j[id]; !ok || v.TS > cur {
					j[id] = v.TS
				}
			}
		}
	}
	return j
}

// replayLog applies the bucket mutations logged since the last call, checking
// the invariants after every single mutation.
func (f *c05Fleet) replayLog(where string) error {
	log := f.b.Log()
	for _, op := range log[f.logPos:] {
		if !op.Applied || (op.Kind != "store" && op.Kind != "delete") {
			continue
		}
		f.stats.mutations++
		switch op.Kind {
		case "store":
			f.present[op.Name] = true
			if _, ok := f.decoded[op.Name]; !ok {
				f.decoded[op.Name] = f.decode(op.Name, op.Data)
			}
			// own sequence: a new snapshot of an instance dominates its previous newest one
			inst := instOf(op.Name)
			if inst != "" && f.decoded[op.Name] != nil && op.By == inst {
				if prev := f.ownPrev[inst]; prev != "" && prev != op.Name {
					for dbi, m := range f.decoded[prev] {
						for k, v := range m {
							nv, ok := f.decoded[op.Name][dbi][k]
							if !ok {
								return fmt.Errorf("%s: %s uploaded %s, which lacks %s/%x although its own previous snapshot %s has it (%v): an instance must merge its own newest snapshot before uploading", where, inst, op.Name, dbi, k, prev, VerSet{v})
							}
							if nv.TS < v.TS {
								return fmt.Errorf("%s: %s uploaded %s with an older version of %s/%x (%v) than its own previous snapshot %s (%v)", where, inst, op.Name, dbi, k, VerSet{nv}, prev, VerSet{v})
							}
						}
					}
				}
				if op.Name > f.ownPrev[inst] {
					f.ownPrev[inst] = op.Name
				}
			}
		case "delete":
			newest := f.newestPerInstance()
			if newest[instOf(op.Name)] == op.Name {
				f.stats.cleanerDeletedNewest++
			}
			delete(f.present, op.Name)
		}
		j := f.join()
		for id, ts := range f.joinTS {
			nts, ok := j[id]
			if !ok {
				return fmt.Errorf("%s: after %s of %s by %s the newest snapshots in the bucket no longer contain %x (best published version had ts %d): published data was lost", where, op.Kind, op.Name, op.By, id, ts)
			}
			if nts < ts {
				return fmt.Errorf("%s: after %s of %s by %s the best published version of %x went back from ts %d to ts %d", where, op.Kind, op.Name, op.By, id, ts, nts)
			}
		}
		f.joinTS = j
	}
	f.logPos = len(log)
	return nil
}

func (f *c05Fleet) conf(i int) (config.Config, config.LMDB) {
	conf := BaseConfig(fmt.Sprintf("i%d", i))
	conf.StorageRetryCount = 4
	conf.MemoryDecompressedSnapshots = 4
	conf.MemoryDownloadedSnapshots = 4
	conf.Storage.Cleanup = config.Cleanup{Enabled: true, Interval: time.Hour, MustKeepInterval: time.Duration(f.c.MustKeep), RemoveOldInstancesInterval: time.Duration(f.c.RemoveOld)}
	conf.StorageForceSnapshotInterval = time.Duration(f.c.Force)
	return conf, config.LMDB{SchemaTracksChanges: f.c.Native, HeaderExtraPaddingBlock: f.c.Pad, DupSortHack: f.c.Dup && !f.c.Native}
}

func newC05Fleet(c C05Case) (*c05Fleet, error) {
	f := &c05Fleet{c: c, b: fault.NewBucket(), now: time.Now(), present: map[string]bool{}, decoded: map[string]map[string]map[string]Ver{}, joinTS: map[string]uint64{}, ownPrev: map[string]string{}}
	for i := 0; i < c.N; i++ {
		conf, lc := f.conf(i)
		name := conf.Instance // (as it appears in file names, at yield points and in the bucket log)
		if c.OddNames {
			conf.Instance = fmt.Sprintf("i%d.site_x", i)
			name = fmt.Sprintf("i%d-site-x", i)
		}
		nd := NewNode(name, lm.New(64<<20, 24), f.b.Handle(name), conf, lc, syncer.Options{})
		f.nodes = append(f.nodes, nd)
	}
	return f, nil
}

func (f *c05Fleet) close() {
	for i := range f.nodes {
		_ = f.finishHeld(i)
	}
	for _, nd := range f.nodes {
		nd.Stop()
		nd.Forget()
		nd.CloseEnv()
	}
}

// heldTxn is an application write transaction that is still open: it holds the LMDB write lock of its
// instance until released (when that instance's loop is stepped next, 2 ms after the loop was let go).
type heldTxn struct {
	release chan struct{}
	done    chan error
	once    sync.Once
}

func (h *heldTxn) free() { h.once.Do(func() { close(h.release) }) }

// appHold starts an application transaction on instance i that stays open.
func (f *c05Fleet) appHold(i int, changes []SChange) error {
	if err := f.finishHeld(i); err != nil {
		return err
	}
	h := &heldTxn{release: make(chan struct{}), done: make(chan error, 1)}
	holding := make(chan struct{})
	go func() {
		h.done <- f.appCommitHold(i, changes, func() { close(holding); <-h.release })
	}()
	select {
	case <-holding:
	case err := <-h.done:
		return fmt.Errorf("held transaction ended early: %v", err)
	case <-time.After(20 * time.Second):
		h.free()
		return fmt.Errorf("the application could not get the LMDB write lock within 20 s")
	}
	if f.held == nil {
		f.held = map[int]*heldTxn{}
	}
	f.held[i] = h
	f.stats.held++
	return nil
}

// finishHeld lets an open application transaction of instance i commit and waits for it.
func (f *c05Fleet) finishHeld(i int) error {
	h := f.held[i]
	if h == nil {
		return nil
	}
	delete(f.held, i)
	h.free()
	return <-h.done
}

func (f *c05Fleet) appCommit(i int, changes []SChange) error {
	return f.appCommitHold(i, changes, nil)
}

func (f *c05Fleet) appCommitHold(i int, changes []SChange, hold func()) error {
	nd := f.nodes[i]
	return nd.Env.Update(func(txn *lmdb.Txn) error {
		if hold != nil {
			defer hold()
		}
		f.lastAppTxn[i] = int64(txn.ID())
		for _, ch := range changes {
			dbiName := fleetDBIs[ch.DBI%len(fleetDBIs)]
			key := fleetKeys[ch.Key%len(fleetKeys)]
			if f.appPuts[i] == nil {
				f.appPuts[i] = map[string]bool{}
			}
			if ch.Op == "del" || (f.c.Dup && !f.c.Native && ch.DBI%len(fleetDBIs) == 2) {
				delete(f.appPuts[i], dbiName+"/"+string(key))
			} else {
				f.appPuts[i][dbiName+"/"+string(key)] = true
			}
			fl := uint(lmdb.Create)
			isDup := f.c.Dup && !f.c.Native && ch.DBI%len(fleetDBIs) == 2
			if isDup {
				fl |= lmdb.DupSort
			}
			dbi, err := txn.OpenDBI(dbiName, fl)
			if err != nil {
				return err
			}
			del := ch.Op == "del"
			if isDup && !del && len(ch.Val) == 0 {
				ch.Val = model.Bytes("d")
			}
			if f.c.Native {
				// the application stamps the shared clock: later than anything it overwrites
				ts := uint64(time.Now().UnixNano())
				if old, err := txn.Get(dbi, key); err == nil {
					if hh, err := model.ReadHeader(old); err == nil && hh.TS >= ts {
						ts = hh.TS + 1
					}
				}
				fl, val := byte(0), []byte(ch.Val)
				if del {
					fl, val = 1, nil
				}
				if err := txn.Put(dbi, key, model.BuildHeader(ts, uint64(txn.ID()), fl, nil, val), 0); err != nil {
					return err
				}
			} else if del && isDup {
				// all pairs of that key (lmdb-go passes zero-length data, not NULL, to mdb_del: use a cursor)
				cur, err := txn.OpenCursor(dbi)
				if err != nil {
					return err
				}
				if _, _, err := cur.Get(key, nil, lmdb.Set); err == nil {
					err = cur.Del(lmdb.NoDupData)
				} else if lmdb.IsNotFound(err) {
					err = nil
				}
				cur.Close()
				if err != nil {
					return err
				}
			} else if del {
				if err := txn.Del(dbi, key, nil); err != nil && !lmdb.IsNotFound(err) {
					return err
				}
			} else if err := txn.Put(dbi, key, ch.Val, 0); err != nil {
				return err
			}
		}
		return nil
	})
}

func (f *c05Fleet) step(i int, n int, until string) error {
	nd := f.nodes[i]
	for s := 0; s < n; s++ {
		if !nd.parked {
			return nil
		}
		if h := f.held[i]; h != nil {
			// the application's open transaction commits 2 ms after the loop was let go (i.e. while the
			// loop waits for the write lock, if it needs it before its next yield point)
			go func() {
				time.Sleep(2 * time.Millisecond)
				h.free()
			}()
		}
		y, err := nd.Step()
		if herr := f.finishHeld(i); herr != nil && err == nil {
			err = fmt.Errorf("harness: held application transaction: %v", herr)
		}
		if err != nil {
			return err
		}
		if y.Done {
			if y.Err != nil && errors.Is(y.Err, fault.ErrInjected) {
				// a storage operation failed more often than the retry budget allows: Sync gives up with an
				// error, the process exits and its supervisor starts it again (LMDB kept)
				f.stats.budgetExhausted++
				if _, err := nd.Start(); err != nil {
					return fmt.Errorf("restart of %s after Sync gave up (%v): %v", nd.Name, y.Err, err)
				}
				f.stats.restarts++
				return f.replayLog(fmt.Sprintf("%s restarted after giving up", nd.Name))
			}
			return fmt.Errorf("sync loop of %s ended: %v", nd.Name, y.Err)
		}
		if err := f.replayLog(fmt.Sprintf("%s at %s", nd.Name, y.Point)); err != nil {
			return err
		}
		if until != "" && y.Point == until {
			return nil
		}
	}
	return nil
}

// exec executes one generated operation and replays the bucket log under the invariants.
func (f *c05Fleet) exec(oi int, op C05Op) error {
	i := op.Inst % f.c.N
	nd := f.nodes[i]
	where := fmt.Sprintf("step %d (%s i%d)", oi, op.Kind, i)
	if op.Kind != "step" && op.Kind != "settle" && op.Kind != "fault" {
		if err := f.finishHeld(i); err != nil {
			return fmt.Errorf("%s: harness: held application transaction: %v", where, err)
		}
	}
	switch op.Kind {
	case "app":
		if nd.parked && (nd.At.Point == "load.after-txn" || nd.At.Point == "send.after-txn") && uint64(lm.LastTxnID(nd.Env.Env)) < nd.At.N {
			f.stats.excludedTxnReuse++
			if err := f.step(i, 1, ""); err != nil {
				return fmt.Errorf("%s: %w", where, err)
			}
		}
		if op.Held && nd.parked {
			if err := f.appHold(i, op.Changes); err != nil {
				return fmt.Errorf("%s: harness: %v", where, err)
			}
		} else if err := f.appCommit(i, op.Changes); err != nil {
			return fmt.Errorf("%s: harness: %v", where, err)
		}
	case "step":
		if err := f.step(i, op.Steps, op.Until); err != nil {
			return fmt.Errorf("%s: %w", where, err)
		}
	case "settle":
		time.Sleep(3 * time.Millisecond)
	case "crash":
		if !nd.parked {
			return nil
		}
		// is this instance the only holder of some published key?
		newest := f.newestPerInstance()
		if own := newest[nd.Name]; own != "" {
			for dbi, m := range f.decoded[own] {
				for k := range m {
					sole := true
					for inst, n := range newest {
						if inst != nd.Name {
							if _, ok := f.decoded[n][dbi][k]; ok {
								sole = false
							}
						}
					}
					if sole {
						f.stats.soleCopyAtRisk = true
					}
				}
			}
		}
		if err := nd.Crash(); err != nil {
			return fmt.Errorf("%s: %v", where, err)
		}
		f.stats.crashes++
		if !op.Keep {
			nd.Env.Close()
			nd.Env = lm.New(64<<20, 24)
			f.appPuts[i] = nil
			f.stats.emptiedRestart++
		}
		if op.ListFails > 0 {
			var lf []string
			for k := 0; k < op.ListFails; k++ {
				lf = append(lf, fault.Fail)
			}
			nd.H.SetPlan("list", lf)
		}
		if _, err := nd.Start(); err != nil {
			return fmt.Errorf("%s: restart: %v", where, err)
		}
		f.stats.restarts++
	case "clean":
		if nd.S == nil {
			return nil
		}
		f.now = f.now.Add(time.Duration(op.DtNs))
		if rn := time.Now(); rn.After(f.now) {
			f.now = rn
		}
		if !WaitCleanersIdle(20 * time.Second) {
			return fmt.Errorf("%s: harness: a background cleaner run launched at start-up did not finish within 20 s\n%s", where, goroutinesOf("cleaner"))
		}
		_ = nd.S.VerifCleaner().RunOnce(context.Background(), f.now)
	case "fault":
		if op.FKind == "load-own" {
			nd.H.SetPlanFor("load", "__"+nd.Name+"__", op.Faults)
		} else if op.FKind == "load-of" {
			nd.H.SetPlanFor("load", op.Match, op.Faults)
		} else {
			nd.H.SetPlan(op.FKind, op.Faults)
		}
	case "corrupt-own":
		// a damaged upload: the newest snapshot of this instance is replaced by garbage under a newer name
		nm := snapshot.Name(DBName, nd.Name, "GX", time.Now())
		f.b.Put(nm, []byte("garbage, not gzip"))
	}
	if err := f.replayLog(where); err != nil {
		return err
	}
	return nil
}

func checkC05(c C05Case, o *vcore.Obs) error {
	f, err := newC05Fleet(c)
	if err != nil {
		return err
	}
	defer f.close()
	for _, nd := range f.nodes {
		if _, err := nd.Start(); err != nil {
			return err
		}
	}
	for oi, op := range c.Ops {
		if err := f.exec(oi, op); err != nil {
			return err
		}
	}
	for i := range f.nodes {
		if err := f.finishHeld(i); err != nil {
			return fmt.Errorf("harness: held application transaction: %v", err)
		}
	}
	// run everybody for a while so that pending uploads happen, still under the invariants
	for r := 0; r < 3; r++ {
		for i := range f.nodes {
			if err := f.step(i, 30, ""); err != nil {
				return fmt.Errorf("final phase: %w", err)
			}
		}
		time.Sleep(2 * time.Millisecond)
	}
	// C09 inside this fleet: a loop that reports every transaction up to the LMDB's last one as uploaded (the number it
	// passes at its sync.* yield points is "the last transaction we uploaded") has an own snapshot in the bucket that
	// holds an entry for every key its application put in this life
	if err := f.replayLog("end"); err != nil {
		return err
	}
	newest := f.newestPerInstance()
	for i, nd := range f.nodes {
		if !nd.parked || !strings.HasPrefix(nd.At.Point, "sync.") || int64(nd.At.N) != lm.LastTxnID(nd.Env.Env) || f.held[i] != nil {
			continue
		}
		own := newest[nd.Name]
		if own == "" && storesBy(f.b, nd.Name, 0) > 0 {
			continue // (its snapshots were cleaned away as those of a stale instance: C05's clauses cover that)
		}
		for id := range f.appPuts[i] {
			parts := strings.SplitN(id, "/", 2)
			if _, ok := f.decoded[own][parts[0]][parts[1]]; !ok || own == "" {
				return fmt.Errorf("the loop of %s reports everything up to LMDB transaction %d (the last one) as uploaded, but its newest snapshot %q has no entry for %s/%x, which its application put: a committed change was not published (C09)", nd.Name, nd.At.N, own, parts[0], parts[1])
			}
		}
		o.ClassIf(len(f.appPuts[i]) > 0, "synced-loop-checked-against-its-newest-snapshot")
	}
	o.NonTrivial((f.stats.emptiedRestart > 0 && f.stats.soleCopyAtRisk) || f.stats.cleanerDeletedNewest > 0)
	f.excludedFindings(o)
	o.ClassIf(f.stats.budgetExhausted > 0, "sync-gave-up-after-retry-budget-and-was-restarted")
	o.ClassIf(f.stats.held > 0, "app-txn-held-the-write-lock-while-the-loop-ran-on")
	o.ClassIf(f.stats.emptiedRestart > 0, "restart-with-emptied-lmdb")
	o.ClassIf(f.stats.crashes > f.stats.emptiedRestart, "restart-with-kept-lmdb")
	o.ClassIf(f.stats.cleanerDeletedNewest > 0, "cleaner-deleted-a-newest-snapshot")
	o.ClassIf(f.stats.soleCopyAtRisk, "sole-published-copy-at-risk")
	o.ClassIf(c.Native, "native")
	o.ClassIf(!c.Native, "shadow")
	o.ClassIf(c.OddNames, "instance-names-changed-by-sanitising")
	o.ClassIf(c.Dup, "duplicate-keys-dbi")
	o.Class(fmt.Sprintf("bucket-mutations-%d", min(f.stats.mutations/5*5, 30)))
	for i := 0; i < c.ExcludedEmpty; i++ {
		o.Excluded("shadow-empty-value")
	}
	return nil
}

func genC05(t *rapid.T) C05Case {
	var c C05Case
	c.Native = rapid.IntRange(0, 3).Draw(t, "native") > 0
	c.N = rapid.IntRange(2, 3).Draw(t, "n")
	c.MustKeep = rapid.SampledFrom([]int64{0, int64(time.Millisecond), int64(time.Hour)}).Draw(t, "must_keep")
	c.RemoveOld = rapid.SampledFrom([]int64{int64(time.Second), int64(time.Hour), int64(7 * 24 * time.Hour)}).Draw(t, "remove_old")
	c.Pad = rapid.IntRange(0, 3).Draw(t, "pad") == 0
	// periodic forced snapshots: off, always overdue, or falling due in real time while the loop is stepped
	c.Force = rapid.SampledFrom([]int64{0, 0, 0, 1, int64(20 * time.Millisecond)}).Draw(t, "force")
	c.OddNames = rapid.IntRange(0, 3).Draw(t, "odd_names") == 0
	c.Dup = !c.Native && rapid.IntRange(0, 2).Draw(t, "dup") == 0
	lc := LoopCase{Native: c.Native}
	n := rapid.IntRange(4, 25).Draw(t, "nops")
	for k := 0; k < n; k++ {
		op := C05Op{Kind: rapid.SampledFrom([]string{"app", "app", "step", "step", "step", "step", "crash", "clean", "fault", "settle"}).Draw(t, "kind"),
			Inst: rapid.IntRange(0, c.N-1).Draw(t, "inst")}
		switch op.Kind {
		case "app":
			for j := 0; j < rapid.IntRange(1, 2).Draw(t, "nch"); j++ {
				ch := genSChange(t, &lc, 3)
				if c.Dup && rapid.IntRange(0, 2).Draw(t, "dupdbi") == 0 {
					ch.DBI = 2
				}
				op.Changes = append(op.Changes, ch)
			}
			op.Held = rapid.IntRange(0, 3).Draw(t, "held") == 0
		case "step":
			op.Steps = rapid.IntRange(1, 40).Draw(t, "steps")
			if rapid.Bool().Draw(t, "until?") {
				op.Until = rapid.SampledFrom(loopYieldPoints).Draw(t, "until")
			}
		case "crash":
			op.Keep = rapid.Bool().Draw(t, "keep")
		case "clean":
			op.DtNs = rapid.SampledFrom([]int64{0, int64(time.Millisecond), int64(2 * time.Second), int64(2 * time.Hour), int64(8 * 24 * time.Hour)}).Draw(t, "dt")
		case "fault":
			op.FKind = rapid.SampledFrom([]string{"list", "load", "load-own", "store", "delete"}).Draw(t, "fkind")
			nf := rapid.IntRange(1, 3).Draw(t, "nf")
			if op.FKind == "load-own" {
				nf = rapid.SampledFrom([]int{2, 10, 40}).Draw(t, "nf_own") // only downloads of the instance's own snapshots fail
			}
			if op.FKind == "store" && rapid.IntRange(0, 3).Draw(t, "exhaust") == 0 {
				nf = rapid.IntRange(4, 6).Draw(t, "nf_exhaust") // retry budget (4) exhausted: Sync must give up, not pretend
			}
			for j := 0; j < nf; j++ {
				kinds := []string{fault.Fail}
				if op.FKind == "store" || op.FKind == "delete" {
					kinds = append(kinds, fault.AppliedError)
				}
				if op.FKind == "load" || op.FKind == "load-own" {
					kinds = append(kinds, fault.NotExist)
				}
				op.Faults = append(op.Faults, rapid.SampledFrom(kinds).Draw(t, "fk"))
			}
		}
		c.Ops = append(c.Ops, op)
	}
	c.ExcludedEmpty = lc.ExcludedEmpty
	return c
}

func TestC05Bucket(t *testing.T) {
	vcore.Run(t, vcore.Config{Property: "C05", Inflight: true,
		Rule: "2-3 real instances, each running the real sync loop under the yield-point scheduler against one shared bucket: application commits (stamped with the shared clock; a quarter with the write transaction still open, holding the LMDB write lock, when the instance's loop is stepped next), loop steps (n yields or until a named yield point), crash at the current yield point + restart with the LMDB kept or emptied, cleaner runs at generated monotone times (intervals from {0, 1 ms, 1 h} / {1 s, 1 h, 7 d}), List/Load/Store/Delete fault plans incl. 'applied but error returned'; after EVERY bucket mutation the per-key best timestamp over the newest decodable snapshot of every instance must not decrease or vanish, and every upload of an instance must dominate its own previous newest snapshot; " +
			"non-trivial = a restart with emptied LMDB while that instance held the only published copy of some key, or a cleaner deletion of an instance's newest snapshot"},
		genC05, checkC05)
}

// ---- FAULT_ENUM: crash point x {kept, emptied} x {own snapshot downloadable, failing twice, corrupt} ----

type enumC05 struct {
	Native bool   `json:"native"`
	Point  string `json:"point"`
	Keep   bool   `json:"keep"`
	Own    string `json:"own"` // ok | fail2 | corrupt-newest
	// Forced: storage_force_snapshot_interval of 1 ns (a periodic snapshot is always overdue)
	Forced bool `json:"forced,omitempty"`
	// NoApp: the application writes nothing after the restart
	NoApp bool `json:"no_app,omitempty"`
	// Again: the restarted instance is killed a second time (LMDB kept this time) - "at-once": at its first
	// yield point, right after the application's write; "later": ten yields on. The third life then starts
	// with an LMDB that has data, but not the data of its own snapshot.
	Again string `json:"again,omitempty"`
	// AgedOut: remove_old_instances_interval is 1 ns - by the time the instance restarts, every snapshot in the bucket
	// (its own included) is older than the stale-instance interval
	AgedOut bool `json:"aged_out,omitempty"`
	// AppLate: the application's write after the restart comes only after the restarted loop has run for 12 / 30 yields
	// (the peer's snapshot is merged by then, the own one is still being waited for), not before its first step
	AppLate int `json:"app_late,omitempty"`
	// Odd: the instances' configured names are changed by sanitising (the names in the bucket differ from the configured ones)
	Odd bool `json:"odd,omitempty"`
	// ListFails: the first that many listings after the restart fail
	ListFails int `json:"list_fails,omitempty"`
}

func TestC05Enum(t *testing.T) {
	vcore.RunEnum(t, vcore.Config{Property: "C05", Inflight: true,
		Rule: "fault enumeration: instance A publishes key k (only copy), a peer B publishes k2; A is crashed at EVERY yield point (14) while it uploads a second change, restarted with the LMDB {kept, emptied}, with its own newest snapshot {downloadable, failing to load twice, followed by an undecodable newer blob, failing to load eight times while every other listing fails, only the instance's own snapshots failing to load forty times, or reported as not existing twice}; for emptied restarts also a second kill with the LMDB kept, at the first yield point or ten yields later (third life: an LMDB with data but not the data of its own snapshot); the application writes k' right after the restart; for emptied restarts with a failing own download also with remove_old_instances_interval = 1 ns (every snapshot, the own one included, counts as stale at restart); for emptied restarts at every third point also with the first five listings after the restart failing (more than the retry budget of storage operations); for emptied restarts with a failing own download also with instance names that sanitising changes, and with the application's write only 12 / 30 yields after the restart (the peer's snapshot merged, the own one still awaited); for emptied restarts additionally with storage_force_snapshot_interval = 1 ns (a periodic snapshot always overdue) x {the application writes k', writes nothing}; both loops run on; invariants as in TestC05Bucket after every bucket mutation; non-trivial = emptied restart"},
		func(yield func(enumC05) bool) {
			for _, native := range []bool{true, false} {
				for pi, p := range loopYieldPoints {
					for _, keep := range []bool{true, false} {
						for _, own := range []string{"ok", "fail2", "corrupt-newest", "slow+listfail", "own-slow", "own-notexist"} {
							if (own == "own-slow" || own == "own-notexist") && keep {
								continue
							}
							if !yield(enumC05{Native: native, Point: p, Keep: keep, Own: own}) {
								return
							}
							if !keep {
								for _, noApp := range []bool{false, true} {
									if !yield(enumC05{Native: native, Point: p, Keep: keep, Own: own, Forced: true, NoApp: noApp}) {
										return
									}
								}
							}
							if !keep && (own == "fail2" || own == "own-slow") {
								if !yield(enumC05{Native: native, Point: p, Keep: keep, Own: own, AgedOut: true}) {
									return
								}
							}
							if !keep && own == "ok" && pi%3 == 0 {
								// the start-up listing fails more often in a row than the retry budget for storage operations (4)
								if !yield(enumC05{Native: native, Point: p, Keep: keep, Own: own, ListFails: 5}) {
									return
								}
							}
							if !keep && (own == "fail2" || own == "own-slow" || own == "own-notexist") {
								if !yield(enumC05{Native: native, Point: p, Keep: keep, Own: own, Odd: true}) {
									return
								}
							}
							if !keep && (own == "fail2" || own == "own-slow" || own == "own-notexist" || own == "slow+listfail") {
								for _, late := range []int{12, 30} {
									if !yield(enumC05{Native: native, Point: p, Keep: keep, Own: own, AppLate: late}) {
										return
									}
								}
							}
							if !keep && (own == "ok" || own == "fail2") {
								for _, again := range []string{"at-once", "later"} {
									if !yield(enumC05{Native: native, Point: p, Keep: keep, Own: own, Again: again}) {
										return
									}
								}
							}
						}
					}
				}
			}
		},
		func(e enumC05, o *vcore.Obs) error {
			c := C05Case{Native: e.Native, N: 2, MustKeep: 0, RemoveOld: int64(time.Hour)}
			if e.Forced {
				c.Force = 1
			}
			if e.AgedOut {
				c.RemoveOld = 1
			}
			c.OddNames = e.Odd
			put := func(k int, v string) []SChange { return []SChange{{DBI: 0, Key: k, Op: "put", Val: model.Bytes(v)}} }
			c.Ops = []C05Op{
				{Kind: "app", Inst: 0, Changes: put(0, "k-only-on-A")},
				{Kind: "app", Inst: 1, Changes: put(1, "k2-on-B")},
				{Kind: "step", Inst: 0, Steps: 40, Until: "sync.before-sleep"},
				{Kind: "step", Inst: 1, Steps: 40, Until: "sync.before-sleep"},
				{Kind: "settle"},
				{Kind: "step", Inst: 0, Steps: 40, Until: "sync.before-sleep"}, // A merges B's snapshot
				{Kind: "app", Inst: 0, Changes: put(2, "second-change")},
				{Kind: "step", Inst: 0, Steps: 60, Until: e.Point},
			}
			switch e.Own {
			case "fail2":
				c.Ops = append(c.Ops, C05Op{Kind: "fault", Inst: 0, FKind: "load", Faults: []string{fault.Fail, fault.Fail}})
			case "corrupt-newest":
				c.Ops = append(c.Ops, C05Op{Kind: "corrupt-own", Inst: 0})
			case "own-notexist":
				// the instance's own snapshot is listed but "does not exist" at the first two download attempts
				// (an eventually consistent bucket): transient, it is there at the third
				c.Ops = append(c.Ops, C05Op{Kind: "fault", Inst: 0, FKind: "load-own", Faults: []string{fault.NotExist, fault.NotExist}})
			case "own-slow":
				// only the downloads of the instance's OWN snapshots fail, forty times in a row (everything else,
				// e.g. the peer's snapshot, arrives at once): the instance waits for its own data for a long time
				// while it already has merged somebody else's
				var ldf []string
				for i := 0; i < 40; i++ {
					ldf = append(ldf, fault.Fail)
				}
				c.Ops = append(c.Ops, C05Op{Kind: "fault", Inst: 0, FKind: "load-own", Faults: ldf})
			case "slow+listfail":
				// the own snapshot needs many attempts, and meanwhile every other listing fails (whichever of them
				// is the start-up one: that one is retried): a failed listing says nothing about what exists
				var lf, ldf []string
				for i := 0; i < 8; i++ {
					ldf = append(ldf, fault.Fail)
					lf = append(lf, []string{fault.OK, fault.Fail}[i%2])
				}
				c.Ops = append(c.Ops, C05Op{Kind: "fault", Inst: 0, FKind: "load", Faults: ldf}, C05Op{Kind: "fault", Inst: 0, FKind: "list", Faults: lf})
			}
			c.Ops = append(c.Ops, C05Op{Kind: "crash", Inst: 0, Keep: e.Keep, ListFails: e.ListFails})
			if e.AppLate > 0 {
				c.Ops = append(c.Ops, C05Op{Kind: "step", Inst: 0, Steps: e.AppLate})
			}
			if !e.NoApp {
				c.Ops = append(c.Ops, C05Op{Kind: "app", Inst: 0, Changes: put(3, "written-after-restart")})
			}
			switch e.Again {
			case "at-once":
				c.Ops = append(c.Ops, C05Op{Kind: "crash", Inst: 0, Keep: true})
			case "later":
				c.Ops = append(c.Ops, C05Op{Kind: "step", Inst: 0, Steps: 10}, C05Op{Kind: "crash", Inst: 0, Keep: true})
			}
			c.Ops = append(c.Ops,
				C05Op{Kind: "step", Inst: 0, Steps: 80},
				C05Op{Kind: "settle"},
				C05Op{Kind: "step", Inst: 1, Steps: 40},
				C05Op{Kind: "step", Inst: 0, Steps: 80},
				C05Op{Kind: "clean", Inst: 1, DtNs: int64(2 * time.Hour)},
				C05Op{Kind: "step", Inst: 0, Steps: 40},
			)
			err := checkC05(c, o)
			o.NonTrivial(!e.Keep)
			return err
		})
}

var _ = sort.Strings
var _ = strings.HasPrefix

// ---- FAULT_ENUM: a stale instance's last snapshot vs. the cleaner of the instance that merged it ----

type enumC05Clean struct {
	Native      bool   `json:"native"`
	Point       string `json:"point"`
	Keep        bool   `json:"keep"`
	StoreFaults int    `json:"store_faults"`
}

func TestC05CleanerEnum(t *testing.T) {
	vcore.RunEnum(t, vcore.Config{Property: "C05", Inflight: true,
		Rule: "fault enumeration: B publishes the only copy of k and then stays silent; A merges it, gets a local change and proceeds to upload; at EVERY yield point (14) of A's loop A's cleaner runs 8 days later (B is stale), then A crashes and restarts {kept, emptied}, with {0, 2, 4 = retry budget exhausted: Sync gives up and is restarted} failing Store calls before; B's last snapshot may only disappear once A's upload containing k is in the bucket; invariants after every bucket mutation; non-trivial = the cleaner ran while the upload was in flight (send.* points)"},
		func(yield func(enumC05Clean) bool) {
			for _, native := range []bool{true, false} {
				for _, p := range loopYieldPoints {
					for _, keep := range []bool{true, false} {
						for _, sf := range []int{0, 2, 4} {
							if !yield(enumC05Clean{Native: native, Point: p, Keep: keep, StoreFaults: sf}) {
								return
							}
						}
					}
				}
			}
		},
		func(e enumC05Clean, o *vcore.Obs) error {
			c := C05Case{Native: e.Native, N: 2, MustKeep: 0, RemoveOld: int64(time.Hour)}
			put := func(k int, v string) []SChange { return []SChange{{DBI: 0, Key: k, Op: "put", Val: model.Bytes(v)}} }
			c.Ops = []C05Op{
				{Kind: "app", Inst: 1, Changes: put(1, "only-copy-on-B")},
				{Kind: "step", Inst: 1, Steps: 40, Until: "sync.before-sleep"},
				{Kind: "settle"},
				{Kind: "step", Inst: 0, Steps: 40, Until: "sync.before-sleep"}, // A merges B's snapshot
				{Kind: "clean", Inst: 0, DtNs: 0},                              // A's cleaner sees B's snapshot for the first time
				{Kind: "app", Inst: 0, Changes: put(0, "local-change-on-A")},
			}
			if e.StoreFaults > 0 {
				var fs []string
				for i := 0; i < e.StoreFaults; i++ {
					fs = append(fs, fault.Fail)
				}
				c.Ops = append(c.Ops, C05Op{Kind: "fault", Inst: 0, FKind: "store", Faults: fs})
			}
			c.Ops = append(c.Ops,
				C05Op{Kind: "step", Inst: 0, Steps: 60, Until: e.Point},
				C05Op{Kind: "clean", Inst: 0, DtNs: int64(8 * 24 * time.Hour)},
				C05Op{Kind: "crash", Inst: 0, Keep: e.Keep},
				C05Op{Kind: "step", Inst: 0, Steps: 80},
				C05Op{Kind: "settle"},
				C05Op{Kind: "step", Inst: 0, Steps: 80},
				C05Op{Kind: "clean", Inst: 0, DtNs: int64(8 * 24 * time.Hour)},
				C05Op{Kind: "step", Inst: 0, Steps: 40},
			)
			err := checkC05(c, o)
			o.NonTrivial(strings.HasPrefix(e.Point, "send."))
			return err
		})
}

// ---- FAULT_ENUM: a stale instance's NEWEST snapshot was never merged (only its predecessor was, later) ----

type enumC05Stale struct {
	Native bool   `json:"native"`
	APoint string `json:"a_point"` // where A's loop stands while B publishes twice
	Upload bool   `json:"upload"`  // A gets a local change and uploads after the merge
}

func TestC05StaleEnum(t *testing.T) {
	vcore.RunEnum(t, vcore.Config{Property: "C05", Inflight: true,
		Rule: "fault enumeration: B publishes S1 (only copy of k1); A's receiver downloads it while A's loop stands at {sync.before-next, sync.before-sleep, sync.before-info}; B publishes S2 (only copy of k2), whose download by A fails from then on, and goes silent; A merges S1 - later than S2 was made -, {gets a local change and uploads, or not}; A's cleaner runs 8 days later (B is stale, keep interval 0): S2 was never merged by A, so k2 must still be in the bucket; invariants after every bucket mutation; non-trivial = A uploaded after the merge"},
		func(yield func(enumC05Stale) bool) {
			for _, native := range []bool{true, false} {
				for _, p := range []string{"sync.before-next", "sync.before-sleep", "sync.before-info"} {
					for _, up := range []bool{true, false} {
						if !yield(enumC05Stale{Native: native, APoint: p, Upload: up}) {
							return
						}
					}
				}
			}
		},
		func(e enumC05Stale, o *vcore.Obs) error {
			c := C05Case{Native: e.Native, N: 2, MustKeep: 0, RemoveOld: int64(time.Hour)}
			put := func(k int, v string) []SChange { return []SChange{{DBI: 0, Key: k, Op: "put", Val: model.Bytes(v)}} }
			fails := make([]string, 200000)
			for i := range fails {
				fails[i] = fault.Fail
			}
			c.Ops = []C05Op{
				{Kind: "step", Inst: 0, Steps: 12, Until: e.APoint},
				{Kind: "app", Inst: 1, Changes: put(1, "only-in-S1")},
				{Kind: "step", Inst: 1, Steps: 40, Until: "sync.before-sleep"},
				{Kind: "settle"}, {Kind: "settle"}, {Kind: "settle"}, // A's receiver lists and downloads S1
				{Kind: "fault", Inst: 0, FKind: "load-of", Match: "__i1__", Faults: fails},
				{Kind: "app", Inst: 1, Changes: put(2, "only-in-S2")},
				{Kind: "step", Inst: 1, Steps: 40, Until: "sync.before-sleep"},
				{Kind: "settle"}, {Kind: "settle"},
				{Kind: "step", Inst: 0, Steps: 30, Until: "sync.after-load"}, // A merges S1 now
				{Kind: "clean", Inst: 0, DtNs: 0},
			}
			if e.Upload {
				c.Ops = append(c.Ops, C05Op{Kind: "app", Inst: 0, Changes: put(0, "local-change-on-A")})
			}
			c.Ops = append(c.Ops,
				C05Op{Kind: "step", Inst: 0, Steps: 40, Until: "sync.before-sleep"},
				C05Op{Kind: "step", Inst: 0, Steps: 40, Until: "sync.before-sleep"},
				C05Op{Kind: "clean", Inst: 0, DtNs: int64(8 * 24 * time.Hour)},
				C05Op{Kind: "step", Inst: 0, Steps: 20},
				C05Op{Kind: "clean", Inst: 0, DtNs: int64(8 * 24 * time.Hour)},
			)
			err := checkC05(c, o)
			o.NonTrivial(e.Upload)
			return err
		})
}

// ---- FAULT_ENUM: a failing Delete of a superseded snapshot must not put the instance's newest one at risk ----

type enumC05Del struct {
	Native bool `json:"native"`
	Faults int  `json:"faults"` // failing Delete calls in the second cleaner run
	Merged bool `json:"merged"` // the cleaner's instance has merged the peer's snapshots (and uploaded) before
}

func TestC05DeleteFaultEnum(t *testing.T) {
	vcore.RunEnum(t, vcore.Config{Property: "C05", Inflight: true,
		Rule: "fault enumeration: B publishes twice (the second snapshot holds the only copy of k2); A's cleaner (keep interval 10 min) runs when it first sees them, 11 minutes later with its first {1,2} Delete calls failing, and twice more a minute apart - i.e. within the keep interval of the failed deletion; B's newest snapshot must survive every run (invariants after every bucket mutation); {A merged B's data and uploaded before, or not} x {native, shadow}; non-trivial = a Delete failed"},
		func(yield func(enumC05Del) bool) {
			for _, native := range []bool{true, false} {
				for _, f := range []int{1, 2} {
					for _, m := range []bool{false, true} {
						if !yield(enumC05Del{Native: native, Faults: f, Merged: m}) {
							return
						}
					}
				}
			}
		},
		func(e enumC05Del, o *vcore.Obs) error {
			c := C05Case{Native: e.Native, N: 2, MustKeep: int64(10 * time.Minute), RemoveOld: int64(7 * 24 * time.Hour)}
			put := func(k int, v string) []SChange { return []SChange{{DBI: 0, Key: k, Op: "put", Val: model.Bytes(v)}} }
			c.Ops = []C05Op{
				{Kind: "app", Inst: 1, Changes: put(1, "in-both")},
				{Kind: "step", Inst: 1, Steps: 40, Until: "sync.before-sleep"},
				{Kind: "app", Inst: 1, Changes: put(2, "only-in-the-newest")},
				{Kind: "step", Inst: 1, Steps: 40, Until: "sync.before-sleep"},
				{Kind: "settle"}, {Kind: "settle"},
			}
			if e.Merged {
				c.Ops = append(c.Ops,
					C05Op{Kind: "step", Inst: 0, Steps: 60, Until: "sync.before-sleep"},
					C05Op{Kind: "app", Inst: 0, Changes: put(0, "local")},
					C05Op{Kind: "step", Inst: 0, Steps: 60, Until: "sync.before-sleep"})
			}
			var fs []string
			for i := 0; i < e.Faults; i++ {
				fs = append(fs, fault.Fail)
			}
			c.Ops = append(c.Ops,
				C05Op{Kind: "clean", Inst: 0, DtNs: 0},
				C05Op{Kind: "fault", Inst: 0, FKind: "delete", Faults: fs},
				C05Op{Kind: "clean", Inst: 0, DtNs: int64(11 * time.Minute)},
				C05Op{Kind: "clean", Inst: 0, DtNs: int64(time.Minute)},
				C05Op{Kind: "clean", Inst: 0, DtNs: int64(time.Minute)},
				C05Op{Kind: "clean", Inst: 0, DtNs: int64(11 * time.Minute)},
			)
			err := checkC05(c, o)
			o.NonTrivial(true)
			return err
		})
}

package fleet

import (
	"context"
	"fmt"
	"testing"
	"time"

	"github.com/PowerDNS/lightningstream/config"
	"github.com/PowerDNS/lightningstream/snapshot"
	"github.com/PowerDNS/lightningstream/syncer"
	"github.com/PowerDNS/lmdb-go/lmdb"

	"verif/harness/internal/fault"
	"verif/harness/internal/lm"
	"verif/harness/internal/model"
	"verif/harness/internal/vcore"
)

// ---------------------------------------------------------------------------
// C08 "cannot block an instance", for the one place a hostile blob sits in the
// way of the instance itself: every blob stored under the instance's OWN name is
// undecodable (a damaged old upload, or a planted one). The real Sync runs
// freely (not under the scheduler; the application does not write while it
// runs): it must get past those blobs and publish its local data.
// ---------------------------------------------------------------------------

type enumOwnCorrupt struct {
	Native bool `json:"native"`
	Kind   int  `json:"kind"`  // 1: no gzip stream; 2: that and a gzip stream whose protobuf is damaged; 3: gzip cut in the middle; 4: empty object
	Peers  int  `json:"peers"` // valid snapshots of that many peers are in the bucket as well
	Odd    bool `json:"odd"`   // the configured instance name is changed by sanitising
}

func checkOwnCorrupt(e enumOwnCorrupt, o *vcore.Obs) error {
	env := lm.New(64<<20, 24)
	b := fault.NewBucket()
	inst, stored := "ownc", "ownc"
	if e.Odd {
		inst, stored = "own.c_1", "own-c-1"
	}
	conf := BaseConfig(inst)
	lc := config.LMDB{SchemaTracksChanges: e.Native}
	err := env.Update(func(txn *lmdb.Txn) error {
		dbi, err := txn.OpenDBI(fleetDBIs[0], lmdb.Create)
		if err != nil {
			return err
		}
		val := []byte("local-data")
		if e.Native {
			val = model.BuildHeader(uint64(time.Now().UnixNano()), uint64(txn.ID()), 0, nil, val)
		}
		return txn.Put(dbi, fleetKeys[0], val, 0)
	})
	if err != nil {
		return fmt.Errorf("harness: %v", err)
	}
	old := time.Date(2020, 1, 1, 0, 0, 0, 0, time.UTC)
	switch e.Kind {
	case 1:
		b.Put(snapshot.Name(DBName, stored, "GX", old), []byte("damaged upload: not a gzip stream"))
	case 2:
		b.Put(snapshot.Name(DBName, stored, "GX", old), []byte("damaged upload: not a gzip stream"))
		b.Put(snapshot.Name(DBName, stored, "GX", old.Add(time.Hour)), gzBytes([]byte{0x22, 100, 1, 2, 3}))
	case 3:
		whole := gzBytes([]byte("0123456789012345678901234567890123456789012345678901234567890123456789"))
		b.Put(snapshot.Name(DBName, stored, "GX", old), whole[:len(whole)/2])
	default:
		b.Put(snapshot.Name(DBName, stored, "GX", old), nil)
	}
	for p := 0; p < e.Peers; p++ {
		ts := uint64(1_000_000_000_000_000_005 + p)
		if e.Native {
			ts = uint64(15 + p)
		}
		b.Put(snapshot.Name(DBName, fmt.Sprintf("peer%d", p), "GX", old.Add(time.Duration(p+2)*time.Hour)),
			peerBlob(e.Native, []SPeer{{DBI: 0, Key: 1 + p, TS: ts, Val: model.Bytes("from-peer")}}))
	}
	s, err := syncer.New(DBName, env.Env, b.Handle(inst), conf, lc, syncer.Options{})
	if err != nil {
		return fmt.Errorf("harness: %v", err)
	}
	ctx, cancel := context.WithCancel(context.Background())
	done := make(chan error, 1)
	go func() { done <- s.Sync(ctx) }()
	published := func() bool {
		own := ""
		for _, n := range b.Names() {
			if instOf(n) == stored && n > own {
				own = n
			}
		}
		data, ok := b.Get(own)
		if !ok {
			return false
		}
		flat, derr := DecodeBlob(data)
		if derr != nil {
			return false
		}
		for _, d := range flat.DBIs {
			if d.Name == fleetDBIs[0] {
				for _, en := range d.Entries {
					if string(en.Key) == string(fleetKeys[0]) && string(en.Value) == "local-data" {
						return true
					}
				}
			}
		}
		return false
	}
	ok := WaitFor(10*time.Second, published)
	cancel()
	ended := false
	var serr error
	select {
	case serr = <-done:
		ended = true
	case <-time.After(30 * time.Second):
	}
	if ended {
		env.Close()
	} // (otherwise the LMDB is leaked rather than closed under a running Sync)
	if !ok {
		return fmt.Errorf("instance %q has local data; every blob stored under its own name is undecodable (kind %d), %d peer snapshot(s): within 10 s of running Sync (1 ms polling, no storage faults) it has not published its data - the damaged blobs block the instance (Sync ended: %v, %v)", inst, e.Kind, e.Peers, ended, serr)
	}
	o.NonTrivial(e.Peers > 0)
	o.Class(fmt.Sprintf("damage-kind-%d", e.Kind))
	o.ClassIf(e.Odd, "instance-name-changed-by-sanitising")
	return nil
}

func TestC08OwnCorrupt(t *testing.T) {
	vcore.RunEnum(t, vcore.Config{Property: "C08", Inflight: true,
		Rule: "enumeration with the real Sync running freely: an instance with local data whose only blobs under its OWN name are undecodable (4 kinds of damage: no gzip stream; that plus a gzip stream with a damaged protobuf; a gzip stream cut in the middle; an empty object) x {native, shadow} x {0, 1, 3 valid peer snapshots} x {plain, sanitised instance name}: within 10 s (counted only while the process gets processor time) the instance has published a snapshot that carries its local data; non-trivial = peer snapshots present"},
		func(yield func(enumOwnCorrupt) bool) {
			for _, native := range []bool{true, false} {
				for kind := 1; kind <= 4; kind++ {
					for _, peers := range []int{0, 1, 3} {
						for _, odd := range []bool{false, true} {
							if !yield(enumOwnCorrupt{Native: native, Kind: kind, Peers: peers, Odd: odd}) {
								return
							}
						}
					}
				}
			}
		}, checkOwnCorrupt)
}

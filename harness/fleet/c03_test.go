package fleet

import (
	"bytes"
	"fmt"
	"os"
	"sort"
	"strings"
	"sync"
	"testing"
	"time"

	"github.com/PowerDNS/lightningstream/config"
	"github.com/PowerDNS/lightningstream/snapshot"
	"github.com/PowerDNS/lightningstream/syncer"
	"github.com/PowerDNS/lightningstream/syncer/hooks"
	"github.com/PowerDNS/lmdb-go/lmdb"
	"pgregory.net/rapid"

	"verif/harness/internal/fault"
	"verif/harness/internal/lm"
	"verif/harness/internal/model"
	"verif/harness/internal/vcore"
)

// ---------------------------------------------------------------------------
// C03 A committed local application write is never destroyed by syncing
// C09 Every committed local change gets published
// (one scheduler run over the real sync loop feeds both oracles)
// ---------------------------------------------------------------------------

type SChange struct {
	DBI int         `json:"dbi"`
	Key int         `json:"key"`
	Op  string      `json:"op"` // put | del
	Val model.Bytes `json:"val,omitempty"`
	TS  uint64      `json:"ts,omitempty"` // native: drawn timestamp (made strictly monotone per key)
}

type SPeer struct {
	DBI int         `json:"dbi"`
	Key int         `json:"key"`
	TS  uint64      `json:"ts"`
	Del bool        `json:"del,omitempty"`
	Val model.Bytes `json:"val,omitempty"`
}

type SAct struct {
	Kind    string    `json:"kind"`          // app | deliver | storefault | none
	At      string    `json:"at,omitempty"`  // fire at this yield point ("" = the next yield)
	Occ     int       `json:"occ,omitempty"` // ... at its Occ-th occurrence from now (0 = first)
	Changes []SChange `json:"changes,omitempty"`
	Peer    []SPeer   `json:"peer,omitempty"`
	N       int       `json:"n,omitempty"`
	// Held (app): the application's write transaction is OPEN (holding the LMDB write lock) when the loop is
	// released from this yield point, and commits a moment later: whatever the loop reads before it gets the
	// lock itself (env.Info, earlier transaction ids) is stale by the time its own transaction starts.
	Held bool `json:"held,omitempty"`
	// BetweenHeld (deliver, shadow mode): the entries for keys written by the last held application
	// transaction carry a time 1 ms after that transaction started to hold the lock (the transaction
	// committed at least 1 ms later still): the application's write must win against them
	BetweenHeld bool `json:"between_held,omitempty"`
	// Queued (app): the application's transaction is started while the loop RUNS - by the goroutine that writes
	// the LogK-th log line of this instance after the loop was released from this yield point. If Lightning
	// Stream holds the write lock at that moment (most of its log statements sit inside its transactions) the
	// application waits in the queue for the lock and commits as soon as it is free; the loop's goroutine is then
	// held up for a few milliseconds at each of its following log statements, so that the commit lands at the
	// first moment at which Lightning Stream does not hold the lock - e.g. between two of its own transactions.
	Queued bool `json:"queued,omitempty"`
	LogK   int  `json:"log_k,omitempty"`
}

type LoopCase struct {
	Native      bool      `json:"native"`
	Start       []SChange `json:"start,omitempty"`         // data present before the syncer starts
	PeerAtStart []SPeer   `json:"peer_at_start,omitempty"` // a peer snapshot already in the bucket at start-up
	Plan        []SAct    `json:"plan"`
	AllowF9     bool      `json:"allow_f9,omitempty"`     // known-finding reproduction only
	ReceiveOnly bool      `json:"receive_only,omitempty"` // instance runs with Options.ReceiveOnly (C03 only: nothing is uploaded)
	// Sweeper: the tomb sweeper is configured (370 days retention; its first pass is an hour away, so it never
	// runs). Every generated peer timestamp is then older than the stale-marker cutoff: a peer's deletion
	// marker must still only ever act as a version in last-writer-wins, never delete a newer local write.
	Sweeper bool `json:"sweeper,omitempty"`
	// Force: storage_force_snapshot_interval is so short that every loop iteration uploads, whether
	// or not anything changed locally (the "is there a local change" question is then asked by code paths
	// that otherwise never run). C09's "without needing the forced snapshot" is moot in such a case;
	// the C03 oracle applies unchanged.
	Force bool `json:"force,omitempty"`
	// SweeperRuns: the tomb sweeper really runs, every millisecond, with a retention of a hundred years
	// (nothing ever expires, no marker is ever stale): its write transactions are all empty, i.e. never
	// recorded by LMDB - Lightning Stream's own transactions of that kind must not be confused with the
	// application's.
	SweeperRuns bool `json:"sweeper_runs,omitempty"`
	// Pad: header_extra_padding_block (values written by merges carry an 8-byte extension block)
	Pad bool `json:"pad,omitempty"`
	// OwnAtStart: the instance has run before - a previous life uploaded its start data and was stopped -
	// so its own snapshot is in the bucket at start-up and has to be loaded before anything is uploaded;
	// its download fails a few times first, which stretches the "waiting for the own snapshot" phase.
	// Peer snapshots are only delivered once that phase is over.
	OwnAtStart    bool `json:"own_at_start,omitempty"`
	ExcludedEmpty int  `json:"excluded_empty,omitempty"`
	// OwnCorruptOnly: the only blob under the instance's own name is undecodable (an old, damaged upload): once it has
	// been found undecodable the instance goes on - merges its peers and publishes its own data
	// (1: one blob that is no gzip stream; 2: two blobs - no gzip stream, and a gzip stream holding a DBI field whose
	// declared length exceeds the message; 3: a gzip stream cut in the middle; 4: an empty object)
	// NOT used by any registered check: when the damaged blobs are dismissed depends on free-running goroutines
	// (downloader, receiver), which makes the harness's idle detection and its known-finding exclusion unsound for
	// these cases (DESIGN.md 8.4).
	OwnCorruptOnly int `json:"own_corrupt_only,omitempty"`
	// OnlyTxnIDs (C14's use of this harness): only the header-transaction-id oracle decides; what the
	// content oracles (C03/C09) would report is left to the checks of those properties
	OnlyTxnIDs bool `json:"only_txn_ids,omitempty"`
}

// The first nMainPoints are points of the main loop; "send.in-read-txn" is not a named yield point of the
// product but Hooks.BeforeRead, i.e. inside the dump transaction of an upload - in native mode that is a
// read transaction, during which the application can commit (in shadow mode it holds the write lock: the
// point is not offered there).
var loopYieldPoints = []string{"sync.iter", "sync.before-next", "sync.before-load", "load.after-txn", "sync.after-load",
	"sync.before-info", "sync.before-send", "send.in-read-txn", "send.after-txn", "send.before-store", "send.after-store", "sync.after-send", "sync.before-sleep",
	"sync.listed", "sync.before-initial-send"}

const nMainPoints = 13

type loopStats struct {
	appAt         map[string]int
	appBetween    bool // an application commit fell between two LS transactions (not at sync.iter / before-sleep)
	mergeAfter    bool // a merge followed such a commit
	excludedF9    int
	betweenHeld   int  // peer entries stamped between the start and the commit of a held application transaction
	held          int  // application transactions that held the write lock while the loop ran on
	queued        int  // application transactions started at a log line of the running loop
	queuedWaited  int  // ... that had to wait for the write lock beyond that log line
	queuedAfterLS int  // ... that committed right after a Lightning Stream transaction (before the next yield point)
	queuedNoLine  int  // ... whose log line never came (ordinary commit at the next yield)
	aborted       bool // case ended early (known finding reached through a queued commit)
	txnIDChecked  int  // entries whose header transaction id was checked after Lightning Stream (re)wrote them
	lsEmptyApp    int
	idleReached   bool
	stores        int
	fallbacks     int
}

type peerSnap struct {
	name string
	ents []SPeer // as published
	// model: the same entries with the timestamps the reference model uses for them (the model's clock for
	// capture passes is a sequence number, not the wall clock)
	model []SPeer
}

func peerBlob(native bool, ents []SPeer) []byte {
	byDBI := map[int][]SPeer{}
	var order []int
	for _, e := range ents {
		if _, ok := byDBI[e.DBI%len(fleetDBIs)]; !ok {
			order = append(order, e.DBI%len(fleetDBIs))
		}
		byDBI[e.DBI%len(fleetDBIs)] = append(byDBI[e.DBI%len(fleetDBIs)], e)
	}
	sort.Ints(order)
	m := model.Snap{FormatVersion: 3, CompatVersion: 1, Meta: model.Meta{InstanceID: "peer", DatabaseName: DBName}}
	for _, di := range order {
		d := model.DBI{Name: fleetDBIs[di]}
		seen := map[string]bool{}
		for _, e := range byDBI[di] {
			k := fleetKeys[e.Key%len(fleetKeys)]
			if seen[string(k)] {
				continue
			}
			seen[string(k)] = true
			fl := uint32(0)
			val := []byte(e.Val)
			if e.Del {
				fl, val = 1, nil
			}
			d.Entries = append(d.Entries, model.KV{Key: k, Val: model.ValOf(val), TS: e.TS, Flags: fl})
		}
		sort.Slice(d.Entries, func(i, j int) bool { return bytes.Compare(d.Entries[i].Key, d.Entries[j].Key) < 0 })
		m.DBIs = append(m.DBIs, d)
	}
	pb, _ := m.ToGogo().Marshal()
	return gzBytes(pb)
}

const shadowLocalTS = uint64(1) << 62 // model timestamp of a steady-state local change in shadow mode ("now")

func runLoopCase(c LoopCase, o *vcore.Obs) (*loopStats, error) {
	st := &loopStats{appAt: map[string]int{}}
	env := lm.New(64<<20, 24)
	var ndForClose *Node
	defer func() {
		if ndForClose != nil {
			ndForClose.CloseEnv()
		} else {
			env.Close()
		}
	}()
	b := fault.NewBucket()
	conf := BaseConfig("a")
	conf.StorageRetryCount = 4
	// memory limits are C16's business: leave room for the update being merged, one waiting and one downloading
	conf.MemoryDecompressedSnapshots = 4
	conf.MemoryDownloadedSnapshots = 4
	if c.Force {
		conf.StorageForceSnapshotInterval = time.Microsecond
	}
	if c.SweeperRuns && !c.Sweeper {
		conf.Sweeper = config.Sweeper{Enabled: true, RetentionDays: 36500, Interval: time.Millisecond, FirstInterval: time.Millisecond, LockDuration: time.Millisecond, ReleaseDuration: time.Millisecond}
	}
	if c.Sweeper {
		conf.Sweeper = config.Sweeper{Enabled: true, RetentionDays: 370, Interval: time.Hour, FirstInterval: time.Hour, LockDuration: time.Millisecond, ReleaseDuration: time.Millisecond}
	}
	lc := config.LMDB{SchemaTracksChanges: c.Native, HeaderExtraPaddingBlock: c.Pad}
	h := b.Handle("a")
	hk := hooks.New()
	if c.Native {
		hk.BeforeRead = func(hooks.BeforeReadParams) error {
			YieldAt("a", "send.in-read-txn", 0)
			return nil
		}
	}
	nd := NewNode("a", env, h, conf, lc, syncer.Options{ReceiveOnly: c.ReceiveOnly, Hooks: hk})
	ndForClose = nd
	defer nd.Forget()
	defer func() {
		nd.Stop()
		if c.SweeperRuns {
			// the sweeper goroutine notices the cancellation on its own time: the LMDB must not be closed
			// under its feet (closing an environment that is in use crashes in C code)
			for i := 0; i < 5000 && goroutinesOf("sweeper.(*Sweeper)") != ""; i++ {
				time.Sleep(time.Millisecond)
			}
		}
	}()

	// ---- model
	// shadow mode: the reference mirror (application view + versions Lightning Stream must hold)
	mir := model.NewMirror()
	touchedKeys := map[string]bool{} // keys the application ever wrote (shadow mode)
	nowSeq := uint64(0)
	// (model stamps of capture passes are even; an odd one lies between two passes, see putPeer)
	nextNow := func() uint64 { nowSeq += 2; return 2_000_000_000_000_000_000 + nowSeq }
	local := map[string]map[string]Ver{}     // native mode: last application commit per key
	merged := map[string]map[string]VerSet{} // peer versions merged so far
	addMerged := func(ents []SPeer) {
		dup := map[string]bool{}
		for _, e := range ents {
			dbi := fleetDBIs[e.DBI%len(fleetDBIs)]
			k := string(fleetKeys[e.Key%len(fleetKeys)])
			if dup[dbi+"/"+k] {
				continue // the snapshot builder keeps the first entry per key
			}
			dup[dbi+"/"+k] = true
			if merged[dbi] == nil {
				merged[dbi] = map[string]VerSet{}
			}
			if c.Sweeper && e.Del {
				// every generated peer timestamp is older than the stale-marker cutoff: such a marker is not
				// created for a key the instance has no entry for (by design, C04); for a key it has an entry
				// for (live or marker) it is an ordinary version
				if _, has := local[dbi][k]; !has && len(merged[dbi][k]) == 0 {
					continue
				}
			}
			vs := merged[dbi][k]
			v := Ver{TS: e.TS, Del: e.Del, Val: e.Val}
			if v.Del {
				v.Val = nil
			}
			vs.Add(v)
			merged[dbi][k] = vs
		}
	}
	appRecorded := false // LMDB recorded at least one application transaction
	var commitInner func(changes []SChange, startup bool, hold func(), later *[]func()) error
	commit := func(changes []SChange, startup bool) error {
		before := lm.LastTxnID(env.Env)
		err := commitInner(changes, startup, nil, nil)
		if lm.LastTxnID(env.Env) != before {
			appRecorded = true
		}
		return err
	}
	queuedTxn, queuedDirty := uint64(0), false // the transaction of a queued application commit (set by its goroutine)
	appTxnID := uint64(0)                      // id of the application's most recent write transaction
	appFloor := uint64(0)                      // ... of the most recent one that certainly dirtied a page (LMDB recorded it)
	appWrote := map[string]bool{}              // dbi/key written by the application since the last transaction-id check
	commitInner = func(changes []SChange, startup bool, hold func(), later *[]func()) error {
		dirty := false
		// model updates: at once, or - for a transaction that commits while the loop runs - collected and applied by
		// the main goroutine once it knows where the commit fell
		apply := func(f func()) {
			if later != nil {
				*later = append(*later, f)
			} else {
				f()
			}
		}
		myTxn := uint64(0)
		err := env.Update(func(txn *lmdb.Txn) error {
			myTxn = uint64(txn.ID())
			if later == nil {
				appTxnID = myTxn
			}
			if hold != nil {
				defer hold()
			}
			for _, ch := range changes {
				dbiName := fleetDBIs[ch.DBI%len(fleetDBIs)]
				key := fleetKeys[ch.Key%len(fleetKeys)]
				dbi, err := txn.OpenDBI(dbiName, lmdb.Create)
				if err != nil {
					return err
				}
				apply(func() {
					if local[dbiName] == nil {
						local[dbiName] = map[string]Ver{}
					}
					appWrote[dbiName+"/"+string(key)] = true
				})
				del := ch.Op == "del"
				if c.Native {
					ts := ch.TS
					if old, err := txn.Get(dbi, key); err == nil {
						if hh, err := model.ReadHeader(old); err == nil && hh.TS >= ts {
							ts = hh.TS + 1
						}
					}
					if ts%10 == 5 {
						ts++ // remote stamps end in 5: a local stamp never equals one (ties are C01/C02)
					}
					fl, val := byte(0), []byte(ch.Val)
					if del {
						fl, val = 1, nil
					}
					if err := txn.Put(dbi, key, model.BuildHeader(ts, uint64(txn.ID()), fl, nil, val), 0); err != nil {
						return err
					}
					dirty = true
					apply(func() { local[dbiName][string(key)] = Ver{TS: ts, Del: del, Val: val} })
				} else {
					if del {
						err := txn.Del(dbi, key, nil)
						if err != nil && !lmdb.IsNotFound(err) {
							return err
						}
						if err == nil {
							dirty = true
						}
						apply(func() {
							mir.AppCreate(dbiName, "plain")
							mir.AppDel(dbiName, key)
						})
					} else {
						if err := txn.Put(dbi, key, ch.Val, 0); err != nil {
							return err
						}
						dirty = true
						val := ch.Val
						apply(func() { mir.AppPut(dbiName, "plain", key, val) })
					}
					apply(func() { touchedKeys[dbiName+"/"+string(key)] = true })
				}
			}
			return nil
		})
		if later != nil {
			queuedTxn, queuedDirty = myTxn, err == nil && dirty
			return err
		}
		if err == nil && dirty {
			appFloor = appTxnID
		}
		return err
	}
	expected := func(dbi, k string) (VerSet, bool) {
		var vs VerSet
		if l, ok := local[dbi][k]; ok {
			vs.Add(l)
		}
		for _, v := range merged[dbi][k] {
			vs.Add(v)
		}
		if len(vs) == 0 {
			return nil, false
		}
		return vs.ArgMax(), true
	}
	checkVisible := func(where string) error {
		dump, err := lm.DumpEnv(env.Env)
		if err != nil {
			return err
		}
		if !c.Native {
			for _, d := range dump.DBIs {
				if strings.HasPrefix(d.Name, syncer.SyncDBIPrefix) {
					continue
				}
				md := mir.DBIs[d.Name]
				for _, e := range d.Entries {
					var want []byte
					ok := false
					if md != nil {
						want, ok = md.Main[string(e.Key)]
					}
					if !ok {
						return fmt.Errorf("%s: application sees %s/%x = %q, but by last-writer-wins over its own commits and the merged remote versions the key must be absent", where, d.Name, e.Key, e.Val)
					}
					if !bytes.Equal(want, e.Val) {
						return fmt.Errorf("%s: application sees %s/%x = %q, expected %q (its own last commit or a remote version that wins last-writer-wins)", where, d.Name, e.Key, e.Val, want)
					}
				}
			}
			for name, md := range mir.DBIs {
				got := map[string]bool{}
				if d := dump.DBI(name); d != nil {
					for _, e := range d.Entries {
						got[string(e.Key)] = true
					}
				}
				for k, v := range md.Main {
					if !got[k] {
						return fmt.Errorf("%s: %s/%x = %q (the application's own commit or a merged winner) has disappeared from the application's DBI", where, name, k, v)
					}
				}
			}
			return nil
		}
		seen := map[string]bool{}
		for _, d := range dump.DBIs {
			if strings.HasPrefix(d.Name, syncer.SyncDBIPrefix) {
				continue
			}
			for _, e := range d.Entries {
				id := d.Name + "/" + string(e.Key)
				seen[id] = true
				exp, ok := expected(d.Name, string(e.Key))
				if !ok {
					return fmt.Errorf("%s: %s/%x exists although neither the application nor a merged snapshot wrote it", where, d.Name, e.Key)
				}
				var got Ver
				if c.Native {
					hh, err := model.ReadHeader(e.Val)
					if err != nil {
						return fmt.Errorf("%s: %s/%x: %v", where, d.Name, e.Key, err)
					}
					got = Ver{TS: hh.TS, Del: hh.Flags&1 != 0, Val: hh.AppVal}
					if !exp.Has(got) {
						return fmt.Errorf("%s: %s/%x holds %vbut the application committed %v and merged remote versions are %v: the last-writer-wins winner must be one of %v",
							where, d.Name, e.Key, VerSet{got}, verOrNone(local[d.Name][string(e.Key)], local[d.Name], string(e.Key)), merged[d.Name][string(e.Key)], exp)
					}
				} else {
					okv := false
					for _, x := range exp {
						if !x.Del && bytes.Equal(x.Val, e.Val) {
							okv = true
						}
					}
					if !okv {
						return fmt.Errorf("%s: application sees %s/%x = %q, expected one of %v(application committed %v)", where, d.Name, e.Key, e.Val, exp, verOrNone(local[d.Name][string(e.Key)], local[d.Name], string(e.Key)))
					}
				}
			}
		}
		// keys that must be visible
		for dbi, m := range local {
			for k := range m {
				exp, _ := expected(dbi, k)
				mustLive := true
				for _, x := range exp {
					if x.Del {
						mustLive = false
					}
				}
				if c.Native {
					mustLive = true // markers are entries too
				}
				if mustLive && !seen[dbi+"/"+k] {
					return fmt.Errorf("%s: %s/%x committed by the application as %v has disappeared (merged remote versions: %v)", where, dbi, k, VerSet{m[k]}, merged[dbi][k])
				}
			}
		}
		return nil
	}

	// C14 inside the loop: every entry Lightning Stream writes or rewrites (native: the application's DBIs;
	// shadow mode: the shadow DBIs) carries the id of the LMDB transaction that wrote it - i.e. an id
	// above the last one recorded at the previous yield, above the application's own transaction if that
	// came in between, and not above the last one recorded now.
	var prevRaw map[string][]byte
	prevLast := uint64(0)
	checkTxnIDs := func(where string) error {
		dump, err := lm.DumpEnv(env.Env)
		if err != nil {
			return err
		}
		cur := map[string][]byte{}
		for _, d := range dump.DBIs {
			isPriv := strings.HasPrefix(d.Name, syncer.SyncDBIPrefix)
			if (c.Native && isPriv) || (!c.Native && !strings.HasPrefix(d.Name, syncer.SyncDBIShadowPrefix)) {
				continue
			}
			for _, e := range d.Entries {
				cur[d.Name+"/"+string(e.Key)] = e.Val
			}
		}
		if prevRaw != nil && !c.AllowF9 {
			lo := prevLast
			if appFloor > lo {
				lo = appFloor
			}
			for id, raw := range cur {
				if old, ok := prevRaw[id]; ok && bytes.Equal(old, raw) {
					continue
				}
				hh, err := model.ReadHeader(raw)
				if err != nil {
					continue // reported by the content oracle
				}
				if c.Native && appWrote[id] && hh.TxnID == appTxnID {
					continue // the application's own write
				}
				st.txnIDChecked++
				if hh.TxnID <= lo || hh.TxnID > uint64(dump.LastTxnID) {
					return fmt.Errorf("%s: C14: entry %x was (re)written by Lightning Stream since the previous yield and its header carries transaction id %d, but the transaction that wrote it has an id in (%d, %d] (last recorded id at the previous yield %d, application's last transaction %d)",
						where, id, hh.TxnID, lo, dump.LastTxnID, prevLast, appFloor)
				}
			}
		}
		prevRaw, prevLast = cur, uint64(dump.LastTxnID)
		appWrote = map[string]bool{}
		return nil
	}

	if len(c.Start) > 0 {
		if err := commit(c.Start, true); err != nil {
			return st, fmt.Errorf("harness: start data: %v", err)
		}
	}
	peerSeq := 0
	peerClock := time.Date(2026, 3, 1, 0, 0, 0, 0, time.UTC)
	// shadow mode: the last application transaction that was held open while the loop ran on - when it
	// started to hold the lock (wall clock, and position in the model's sequence of capture passes), and
	// which keys it wrote
	var heldStart time.Time
	heldSeq := uint64(0)
	heldKeys := map[string]bool{}
	putPeer := func(ents []SPeer, betweenHeld bool) *peerSnap {
		peerSeq++
		peerClock = peerClock.Add(time.Second)
		mod := ents
		if !c.Native {
			// shadow mode: remote stamps are unique per snapshot (ties are decided by C01/C02, not here)
			cp := append([]SPeer(nil), ents...)
			mod = append([]SPeer(nil), ents...)
			for i := range cp {
				id := fleetDBIs[cp[i].DBI%len(fleetDBIs)] + "/" + string(fleetKeys[cp[i].Key%len(fleetKeys)])
				if betweenHeld && !heldStart.IsZero() && heldKeys[id] {
					// a peer wrote this key 1 ms after the application's transaction had started to hold the write
					// lock, i.e. at least 1 ms BEFORE that transaction committed (it held the lock for 2 ms): later
					// than every capture pass before that transaction, earlier than every pass that can see it
					cp[i].TS = uint64(heldStart.Add(time.Millisecond).UnixNano())
					mod[i].TS = 2_000_000_000_000_000_000 + heldSeq + 1
					st.betweenHeld++
					continue
				}
				cp[i].TS = 1_000_000_000_000_000_000 + uint64(peerSeq)*100 + cp[i].TS%100
				mod[i].TS = cp[i].TS
			}
			ents = cp
		}
		name := snapshot.Name(DBName, "peer", "GX", peerClock)
		b.Put(name, peerBlob(c.Native, ents))
		return &peerSnap{name: name, ents: ents, model: mod}
	}
	var pending, loading *peerSnap
	if len(c.PeerAtStart) > 0 {
		pending = putPeer(c.PeerAtStart, false)
	}

	ownPhase := false // the second life is still waiting for its own snapshot
	if c.OwnAtStart && len(c.Start) > 0 && !c.ReceiveOnly && len(c.PeerAtStart) == 0 {
		y0, err := nd.Start()
		if err != nil {
			return st, err
		}
		for i := 0; i < 400 && !y0.Done && y0.Point != "sync.before-sleep"; i++ {
			if y0, err = nd.Step(); err != nil {
				return st, err
			}
		}
		if y0.Done || y0.Point != "sync.before-sleep" {
			return st, fmt.Errorf("harness: previous life did not reach the end of its first iteration (%s)", y0.Point)
		}
		if !c.Native {
			mir.Capture(1, 0) // its start-up pass (data found at start is stamped in the past)
		}
		nd.Stop()
		h.SetPlan("load", []string{fault.Fail, fault.Fail, fault.Fail})
		ownPhase = true
	}
	if c.OwnCorruptOnly > 0 && len(c.Start) > 0 && !c.OwnAtStart {
		old := time.Date(2020, 1, 1, 0, 0, 0, 0, time.UTC)
		switch c.OwnCorruptOnly {
		case 1:
			b.Put(snapshot.Name(DBName, "a", "GX", old), []byte("damaged upload: not a gzip stream"))
		case 2:
			b.Put(snapshot.Name(DBName, "a", "GX", old), []byte("damaged upload: not a gzip stream"))
			// field 4 (databases), wire type 2, declared length 100, 3 bytes follow
			b.Put(snapshot.Name(DBName, "a", "GX", old.Add(time.Hour)), gzBytes([]byte{0x22, 100, 1, 2, 3}))
		case 3:
			whole := gzBytes([]byte("0123456789012345678901234567890123456789012345678901234567890123456789"))
			b.Put(snapshot.Name(DBName, "a", "GX", old), whole[:len(whole)/2])
		default:
			b.Put(snapshot.Name(DBName, "a", "GX", old), nil)
		}
	}
	dlBase, _ := nd.Downloads()
	if ownPhase {
		dlBase++ // the own snapshot will be downloaded as well
	}
	y, err := nd.Start()
	if err != nil {
		return st, err
	}
	plan := append([]SAct(nil), c.Plan...)
	occ := 0
	waitIters, fallbacks := 0, 0
	quiet, iterDirty := 0, false
	ownWaited := false
	iterations := 0
	storesAtIter := 0
	countStores := func() int {
		n := 0
		for _, op := range b.Log() {
			if op.Kind == "store" && op.By == "a" && op.Applied {
				n++
			}
		}
		return n
	}
	lastAppBetween := false
	startupCaptured := false
	var heldDone chan error
	finishHeld := func() error {
		if heldDone == nil {
			return nil
		}
		err := <-heldDone
		heldDone = nil
		if appFloor == appTxnID {
			appRecorded = true
		}
		return err
	}
	defer finishHeld() // (the environment must not be closed under an open transaction)
	// a queued application commit (SAct.Queued): started by the goroutine that writes a log line of the instance
	type queuedApp struct {
		mu                        sync.Mutex
		changes                   []SChange
		k, seen                   int
		started, finished, closed bool
		done                      chan error
		later                     []func()
		err                       error
		privBefore                string // the private DBIs when the loop was released (shadow mode)
	}
	var q *queuedApp
	defer func() {
		if q != nil {
			SetLogGate("a", nil)
			q.mu.Lock()
			q.closed = true
			started, finished := q.started, q.finished
			q.mu.Unlock()
			if started && !finished {
				<-q.done // (the environment must not be closed under an open transaction)
			}
		}
	}()
	privDump := func() string {
		dump, err := lm.DumpEnv(env.Env)
		if err != nil {
			return "?"
		}
		var sb strings.Builder
		for _, d := range dump.DBIs {
			if strings.HasPrefix(d.Name, syncer.SyncDBIPrefix) {
				fmt.Fprintf(&sb, "%s:", d.Name)
				for _, e := range d.Entries {
					fmt.Fprintf(&sb, "%x=%x,", e.Key, e.Val)
				}
			}
		}
		return sb.String()
	}
	var afterModel []func() // model updates of a queued commit that fell AFTER the LS transaction of this yield
	var afterTxn func()     // ... its transaction-id bookkeeping (after the header check of this yield)
	for steps := 0; steps < 4000; steps++ {
		if y.Done {
			return st, fmt.Errorf("sync loop ended unexpectedly at %s: %v", y.Point, y.Err)
		}
		if !c.Native && !startupCaptured && y.Point != "sync.listed" {
			startupCaptured = true
			if len(c.Start) > 0 {
				mir.Capture(1, 0) // start-up pass: data found at start gets a stamp in the past (documented)
			}
		}
		where := fmt.Sprintf("at yield %s (step %d)", y.Point, steps)
		if os.Getenv("VERIF_TRACE") != "" {
			fmt.Printf("TRACE step=%d yield=%s n=%d lastTxn=%d plan=%d quiet=%d stores=%d\n", steps, y.Point, y.N, lm.LastTxnID(env.Env), len(plan), quiet, countStores())
		}
		// bookkeeping of merges
		switch y.Point {
		case "sync.before-load":
			loading, pending = pending, nil
		case "load.after-txn":
			if os.Getenv("VERIF_TRACE") != "" && loading != nil {
				fmt.Printf("TRACE merging %v heldStart=%d\n", loading.ents, heldStart.UnixNano())
				if dump, err := lm.DumpEnv(env.Env); err == nil {
					for _, d := range dump.DBIs {
						for _, e := range d.Entries {
							if hh, err := model.ReadHeader(e.Val); err == nil && strings.HasPrefix(d.Name, "_sync") {
								fmt.Printf("TRACE   %s/%x ts=%d fl=%d val=%q\n", d.Name, e.Key, hh.TS, hh.Flags, hh.AppVal)
							}
						}
					}
				}
			}
			ownPhase = false // (the first load of a second life is the one of its own snapshot)
			if !c.Native {
				mir.Capture(nextNow(), 0) // LoadOnce captures application changes first (no-op if there are none)
			}
			if loading != nil {
				addMerged(loading.model)
				if !c.Native {
					mergeIntoMirror(mir, loading.model, c.Sweeper)
				}
				if lastAppBetween {
					st.mergeAfter = true
				}
			}
			if !c.Native {
				mir.Project()
			}
		case "send.after-txn":
			if !c.Native {
				mir.Capture(nextNow(), 0)
			}
		case "sync.iter":
			if ownPhase && !ownWaited {
				// the download of the own snapshot is done by a free-running goroutine: give it processor time before
				// iterations of the (stepped) loop are counted against the idle limit
				ownWaited = true
				WaitFor(20*time.Second, func() bool { d, _ := nd.Downloads(); return d >= dlBase })
			}
			if iterations > 0 {
				if !iterDirty && !ownPhase && (c.Force || countStores() == storesAtIter) {
					quiet++
				} else {
					quiet = 0
				}
			}
			iterations++
			iterDirty = false
			storesAtIter = countStores()
		}
		for _, f := range afterModel {
			f() // the queued application commit landed after the LS transaction whose effects were just modelled
		}
		afterModel = nil
		// C03: the application-visible content is what last-writer-wins prescribes
		if err := checkVisible(where); err != nil {
			if !c.OnlyTxnIDs {
				return st, err
			}
			// (a C03 matter; the transaction-id oracle does not depend on the content model)
		}
		if err := checkTxnIDs(where); err != nil {
			return st, err
		}
		if afterTxn != nil {
			afterTxn()
			afterTxn = nil
		}
		// next act?
		if len(plan) > 0 {
			a := plan[0]
			fire := a.At == "" || a.At == y.Point
			if fire && a.At != "" && occ < a.Occ {
				occ++
				fire = false
			}
			if a.Kind == "deliver" && (iterations == 0 || ownPhase) {
				fire = false // the receiver only polls once the main loop runs; own snapshot first
			}
			if a.Kind == "app" && c.OwnAtStart && y.Point == "sync.listed" {
				// before the start-up pass of a SECOND life a commit counts as "changed while the syncer was
				// down" and competes with what the first life stamped in the past too (documented as treated
				// differently): not part of the steady-state domain, the commit waits for the next yield
				fire = false
			}
			if !fire && y.Point == "sync.iter" {
				waitIters++
				if waitIters > 3 {
					// the named point does not occur in this situation: fire at the next yield instead
					a.At = ""
					plan[0] = a
					fallbacks++
				}
			}
			if fire {
				lsEmpty := false
				if y.Point == "load.after-txn" || y.Point == "send.after-txn" {
					lsEmpty = uint64(lm.LastTxnID(env.Env)) < y.N
				}
				if a.Kind == "app" && lsEmpty && !c.AllowF9 {
					// known finding txnid-reuse-after-empty-ls-txn: excluded by construction, retried at the next yield
					st.excludedF9++
					a.At = ""
					plan[0] = a
				} else {
					plan = plan[1:]
					occ = 0
					waitIters = 0
					quiet = 0
					iterDirty = true
					switch a.Kind {
					case "app":
						// a commit before the start-up capture pass (which only runs when the LMDB had data at
						// start) is stamped like data changed while the syncer was down (documented: treated
						// differently from steady state)
						isMain := false
						for _, mp := range loopYieldPoints[:nMainPoints] {
							isMain = isMain || mp == y.Point
						}
						if a.Queued && heldDone == nil && iterations > 0 && isMain && !ownPhase && y.Point != "send.in-read-txn" {
							q = &queuedApp{changes: a.Changes, k: a.LogK, done: make(chan error, 1)}
							if !c.Native {
								q.privBefore = privDump()
							}
							qq := q
							SetLogGate("a", func(string) {
								qq.mu.Lock()
								defer qq.mu.Unlock()
								switch {
								case qq.closed:
								case !qq.started:
									if qq.seen < qq.k {
										qq.seen++
										return
									}
									qq.started = true
									go func() { qq.done <- commitInner(qq.changes, false, nil, &qq.later) }()
									select {
									case qq.err = <-qq.done:
										qq.finished = true
									case <-time.After(time.Millisecond):
									}
								case !qq.finished:
									// the application waits for the write lock: give it the chance to get it here
									select {
									case qq.err = <-qq.done:
										qq.finished = true
									case <-time.After(3 * time.Millisecond):
									}
								}
							})
						} else if a.Held {
							holding, release := make(chan struct{}), make(chan struct{})
							done := make(chan error, 1)
							changes := a.Changes
							go func() {
								done <- commitInner(changes, false, func() { close(holding); <-release }, nil)
							}()
							select {
							case <-holding:
							case <-time.After(20 * time.Second):
								close(release)
								return st, fmt.Errorf("harness: %s: the application could not get the LMDB write lock within 20 s", where)
							}
							heldStart = time.Now()
							heldSeq = nowSeq
							heldKeys = map[string]bool{}
							for _, ch := range changes {
								heldKeys[fleetDBIs[ch.DBI%len(fleetDBIs)]+"/"+string(fleetKeys[ch.Key%len(fleetKeys)])] = true
							}
							go func() { time.Sleep(2 * time.Millisecond); close(release) }()
							heldDone = done
							st.held++
						} else if err := commit(a.Changes, y.Point == "sync.listed" && len(c.Start) > 0); err != nil {
							return st, fmt.Errorf("harness: app commit: %v", err)
						}
						iterDirty = true
						st.appAt[y.Point]++
						if lsEmpty {
							st.lsEmptyApp++
						}
						if y.Point != "sync.iter" && y.Point != "sync.before-sleep" {
							st.appBetween = true
							lastAppBetween = true
						}
						if heldDone == nil && q == nil {
							if err := checkVisible(where + " after the application's own commit"); err != nil {
								return st, fmt.Errorf("harness/model disagreement: %v", err)
							}
						}
					case "deliver":
						// every published peer snapshot is downloaded exactly once (each is published only after
						// the previous one was fetched): wait until the receiver has caught up with all of them
						// Successful downloads must reach: those before this life + the own snapshot of a second
						// life + every peer snapshot published. Each one is fetched exactly once PROVIDED the next
						// one is only published after the previous one was fetched (the receiver skips a snapshot
						// that is superseded before its download started) - so wait for the previous ones first.
						waitDl := func(target int) bool {
							return WaitFor(20*time.Second, func() bool {
								done, _ := nd.Downloads()
								return done >= target
							})
						}
						if !waitDl(dlBase + peerSeq) {
							return st, fmt.Errorf("%s: the peer snapshots published so far were not all downloaded within 20 s\n%s", where, goroutinesOf("lightningstream/syncer/receiver"))
						}
						pending = putPeer(a.Peer, a.BetweenHeld)
						okDl := waitDl(dlBase + peerSeq)
						if !okDl {
							return st, fmt.Errorf("%s: peer snapshot %s was not downloaded within 20 s\n%s", where, pending.name, goroutinesOf("lightningstream/syncer/receiver"))
						}
						iterDirty = true
					case "storefault":
						var f []string
						for i := 0; i < a.N; i++ {
							f = append(f, fault.Fail)
						}
						h.SetPlan("store", f)
					}
				}
			}
		} else if quiet >= 2 {
			st.idleReached = true
			break
		} else if iterations > 40+len(c.Plan) {
			return st, fmt.Errorf("sync loop does not become idle: %d iterations after the last application write it still uploads or merges (stores so far %d)", iterations, countStores())
		}
		y, err = nd.Step()
		if herr := finishHeld(); herr != nil {
			return st, fmt.Errorf("harness: held app commit: %v", herr)
		}
		if q != nil {
			SetLogGate("a", nil)
			q.mu.Lock() // (waits for a gate call that is still in progress)
			q.closed = true
			started, finished := q.started, q.finished
			q.mu.Unlock()
			qq := q
			q = nil
			if !started {
				// the log line never came before the next yield point: an ordinary commit at that point
				plan = append([]SAct{{Kind: "app", Changes: qq.changes}}, plan...)
				st.queuedNoLine++
			} else {
				if !finished {
					select {
					case qq.err = <-qq.done:
					case <-time.After(20 * time.Second):
						return st, fmt.Errorf("harness: the queued application transaction did not get the write lock within 20 s (loop at %s)", y.Point)
					}
				}
				if qq.err != nil {
					return st, fmt.Errorf("harness: queued app commit: %v", qq.err)
				}
				st.queued++
				if !finished {
					st.queuedWaited++
				}
				qTxn, qDirty := queuedTxn, queuedDirty
				txnBook := func() {
					appTxnID = qTxn
					if qDirty {
						appFloor = qTxn
						appRecorded = true
					}
				}
				after := false
				if err == nil && !y.Done {
					switch {
					case y.Point == "load.after-txn" || (y.Point == "send.after-txn" && !c.Native):
						// Lightning Stream's write transaction had the id y.N
						switch {
						case qTxn > y.N:
							after = true
						case qTxn == y.N && qDirty:
							// same id as LS's transaction: either that transaction wrote nothing and the application's
							// commit followed it (the listed known finding: excluded, counted), or - if LS did write -
							// something is off and the oracles decide with the commit placed after it
							lsWrote := false
							if !c.Native {
								lsWrote = privDump() != qq.privBefore
							} else if dump, derr := lm.DumpEnv(env.Env); derr == nil {
								mine := map[string]bool{}
								for _, ch := range qq.changes {
									mine[fleetDBIs[ch.DBI%len(fleetDBIs)]+"/"+string(fleetKeys[ch.Key%len(fleetKeys)])] = true
								}
								for _, d := range dump.DBIs {
									for _, e := range d.Entries {
										if hh, herr := model.ReadHeader(e.Val); herr == nil && hh.TxnID == y.N && !mine[d.Name+"/"+string(e.Key)] {
											lsWrote = true
										}
									}
								}
							}
							if !lsWrote && !c.AllowF9 {
								st.excludedF9++
								st.aborted = true
								return st, nil
							}
							after = true
						}
					case y.Point == "send.after-txn" && c.Native:
						after = qTxn > y.N // (the upload's read transaction saw everything up to y.N)
					}
				}
				if after {
					afterModel, afterTxn = qq.later, txnBook
					st.queuedAfterLS++
				} else {
					for _, f := range qq.later {
						f()
					}
					txnBook()
				}
			}
		}
		if err != nil {
			return st, err
		}
	}
	if !st.idleReached {
		return st, fmt.Errorf("harness: step budget exhausted before the loop became idle (plan left: %d)", len(plan))
	}
	st.stores = countStores()
	st.fallbacks = fallbacks
	if c.OnlyTxnIDs {
		return st, nil
	}
	if c.ReceiveOnly {
		if st.stores != 0 {
			return st, fmt.Errorf("receive-only instance stored %d snapshots", st.stores)
		}
		return st, nil // nothing is published in receive-only mode: only the C03 oracle applies
	}
	// C09: the newest own snapshot reflects every application commit
	own := ""
	for _, n := range b.Names() {
		if strings.HasPrefix(n, DBName+"__a__") && n > own {
			own = n
		}
	}
	if !c.Native {
		if len(touchedKeys) == 0 || !appRecorded {
			return st, nil // the application never changed anything (e.g. only deleted keys that did not exist)
		}
		if own == "" {
			return st, fmt.Errorf("loop is idle, the application has committed data, but this instance never uploaded a snapshot")
		}
		data, _ := b.Get(own)
		flat, err := DecodeBlob(data)
		if err != nil {
			return st, err
		}
		snap := map[string]map[string]Ver{}
		for _, d := range flat.DBIs {
			snap[d.Name] = map[string]Ver{}
			for _, e := range d.Entries {
				snap[d.Name][string(e.Key)] = Ver{TS: e.TS, Del: e.Flags&1 != 0, Val: e.Value}
			}
		}
		for id := range touchedKeys {
			parts := strings.SplitN(id, "/", 2)
			dbi, k := parts[0], parts[1]
			md := mir.DBIs[dbi]
			if sv, ok := md.Shadow[k]; ok && sv.TS >= 1_000_000_000_000_000_000 && (sv.TS < 2_000_000_000_000_000_000 || sv.TS%2 == 1) {
				// the key currently holds a merged remote version that won against the application's
				// write: the own snapshot may still carry the application's version (remote data is not
				// re-published by design)
				continue
			}
			appVal, present := md.Main[k]
			got, ok := snap[dbi][k]
			switch {
			case present && (!ok || got.Del || !bytes.Equal(got.Val, appVal)):
				return st, fmt.Errorf("loop is idle but the newest own snapshot %s carries %v(present=%v) for %s/%x while the application's data is %q: a committed change was not published", own, VerSet{got}, ok, dbi, k, appVal)
			case !present && ok && !got.Del:
				return st, fmt.Errorf("loop is idle but the newest own snapshot %s still carries live %q for %s/%x, which is absent from the application's data: a committed deletion was not published", own, got.Val, dbi, k)
			}
		}
		return st, nil
	}
	anyLocal := false
	for _, m := range local {
		if len(m) > 0 {
			anyLocal = true
		}
	}
	if anyLocal {
		if own == "" {
			return st, fmt.Errorf("loop is idle, the application has committed data, but this instance never uploaded a snapshot")
		}
		data, _ := b.Get(own)
		flat, err := DecodeBlob(data)
		if err != nil {
			return st, err
		}
		snap := map[string]map[string]Ver{}
		for _, d := range flat.DBIs {
			snap[d.Name] = map[string]Ver{}
			for _, e := range d.Entries {
				snap[d.Name][string(e.Key)] = Ver{TS: e.TS, Del: e.Flags&1 != 0, Val: e.Value}
			}
		}
		for dbi, m := range local {
			for k, l := range m {
				// acceptable: the application's version itself, or a merged remote version newer than it
				// (the snapshot need not yet contain remote versions merged after it was taken)
				exp := VerSet{l}
				for _, mv := range merged[dbi][k] {
					if mv.TS > l.TS {
						exp = append(exp, mv)
					}
				}
				got, ok := snap[dbi][k]
				if !ok && !c.Native && l.Del {
					// shadow mode: a key created and deleted between two captures never becomes visible to
					// Lightning Stream; no entry at all is as good as a marker (markers are C04/C11)
					continue
				}
				if !ok {
					return st, fmt.Errorf("loop is idle but the newest own snapshot %s has no entry for %s/%x, committed by the application as %v", own, dbi, k, VerSet{l})
				}
				if c.Native {
					if !exp.Has(got) {
						return st, fmt.Errorf("loop is idle but the newest own snapshot %s carries %vfor %s/%x; the application committed %v(expected one of %v)", own, VerSet{got}, dbi, k, VerSet{l}, exp)
					}
				} else {
					okv := false
					for _, x := range exp {
						if x.Del == got.Del && bytes.Equal(x.Val, got.Val) {
							okv = true
						}
					}
					if !okv {
						return st, fmt.Errorf("loop is idle but the newest own snapshot %s carries %vfor %s/%x; the application's current state is %v(expected one of %v)", own, VerSet{got}, dbi, k, VerSet{l}, exp)
					}
				}
			}
		}
	}
	return st, nil
}

func verOrNone(v Ver, m map[string]Ver, k string) string {
	if _, ok := m[k]; !ok {
		return "nothing "
	}
	return VerSet{v}.String()
}

func classifyLoop(c LoopCase, st *loopStats, o *vcore.Obs) {
	for p, n := range st.appAt {
		for i := 0; i < n; i++ {
			o.Class("app-commit-at-" + p)
		}
	}
	for i := 0; i < st.excludedF9; i++ {
		o.Excluded("txnid-reuse-after-empty-ls-txn")
	}
	for i := 0; i < c.ExcludedEmpty; i++ {
		o.Excluded("shadow-empty-value")
	}
	o.ClassIf(c.Native, "native")
	o.ClassIf(!c.Native, "shadow")
	o.ClassIf(c.ReceiveOnly, "receive-only")
	o.ClassIf(st.lsEmptyApp > 0, "app-commit-after-empty-ls-txn")
	o.ClassIf(st.fallbacks > 0, "trigger-point-did-not-occur-fired-at-next-yield")
	o.ClassIf(st.held > 0, "app-txn-held-the-write-lock-while-the-loop-ran-on")
	o.ClassIf(st.queued > 0, "app-txn-started-at-a-log-line-of-the-running-loop")
	o.ClassIf(st.queuedWaited > 0, "app-txn-queued-for-the-write-lock-behind-an-ls-transaction")
	o.ClassIf(st.queuedAfterLS > 0, "app-commit-right-after-an-ls-transaction-before-the-next-yield")
	o.ClassIf(st.queuedNoLine > 0, "queued-commit-fell-back-to-the-next-yield")
	o.ClassIf(st.aborted, "case-ended-at-the-known-finding")
	o.ClassIf(st.betweenHeld > 0, "peer-version-stamped-between-lock-wait-and-commit-of-the-held-txn")
	o.ClassIf(st.txnIDChecked > 0, "header-txn-id-of-ls-written-entries-checked")
}

func checkLoopCase(c LoopCase, o *vcore.Obs) error {
	st, err := runLoopCase(c, o)
	classifyLoop(c, st, o)
	if err != nil {
		return err
	}
	o.NonTrivial(st.appBetween && st.mergeAfter)
	return nil
}

func genSChange(t *rapid.T, c *LoopCase, nkeys int) SChange {
	ch := SChange{DBI: rapid.SampledFrom([]int{0, 0, 0, 1}).Draw(t, "dbi"), Key: rapid.IntRange(0, nkeys-1).Draw(t, "key"),
		Op: rapid.SampledFrom([]string{"put", "put", "del"}).Draw(t, "op")}
	if ch.Op == "put" {
		// ("1" is a suffix of "v1", "v1" of "cfg-v1": an overwrite by a value that is a tail of the stored bytes)
		ch.Val = rapid.SampledFrom([]model.Bytes{[]byte("v1"), []byte("v2"), []byte("w"), {}, []byte("1"), []byte("cfg-v1")}).Draw(t, "val")
		if len(ch.Val) == 0 && !c.Native {
			c.ExcludedEmpty++
			ch.Val = model.Bytes("e")
		}
	}
	if c.Native {
		ch.TS = uint64(rapid.IntRange(1, 6).Draw(t, "ts")) * 10
	}
	return ch
}

func genSPeer(t *rapid.T, c *LoopCase, nkeys int) []SPeer {
	n := rapid.IntRange(0, 4).Draw(t, "npeer")
	var out []SPeer
	for i := 0; i < n; i++ {
		e := SPeer{DBI: rapid.SampledFrom([]int{0, 0, 0, 1, 2}).Draw(t, "pdbi"), Key: rapid.IntRange(0, nkeys).Draw(t, "pkey"),
			Del: rapid.IntRange(0, 3).Draw(t, "pdel") == 0}
		if c.Native {
			e.TS = uint64(rapid.IntRange(0, 7).Draw(t, "pts"))*10 + 5 // never ties with local stamps (multiples of 10, +1 steps)
		} else {
			e.TS = 1_000_000_000_000_000_000 + uint64(rapid.IntRange(0, 50).Draw(t, "page")) // (made unique per snapshot when published)
		}
		if !e.Del {
			e.Val = rapid.SampledFrom([]model.Bytes{[]byte("p1"), []byte("p2"), []byte("q")}).Draw(t, "pval")
		}
		out = append(out, e)
	}
	return out
}

func genLoopCase(t *rapid.T) LoopCase {
	var c LoopCase
	c.Native = rapid.Bool().Draw(t, "native")
	c.ReceiveOnly = rapid.IntRange(0, 5).Draw(t, "receive_only") == 0
	c.Sweeper = rapid.IntRange(0, 3).Draw(t, "sweeper") == 0
	c.Force = rapid.IntRange(0, 5).Draw(t, "force") == 0
	c.SweeperRuns = !c.Sweeper && rapid.IntRange(0, 4).Draw(t, "sweeper_runs") == 0
	c.OwnAtStart = rapid.IntRange(0, 4).Draw(t, "own_at_start") == 0
	c.Pad = rapid.IntRange(0, 3).Draw(t, "pad") == 0

	nkeys := rapid.IntRange(1, 3).Draw(t, "nkeys")
	if rapid.IntRange(0, 2).Draw(t, "start?") > 0 {
		for i := 0; i < rapid.IntRange(1, 3).Draw(t, "nstart"); i++ {
			ch := genSChange(t, &c, nkeys)
			ch.Op = "put"
			if len(ch.Val) == 0 {
				ch.Val = model.Bytes("s")
			}
			c.Start = append(c.Start, ch)
		}
	}
	if rapid.IntRange(0, 3).Draw(t, "peer_at_start") == 0 {
		c.PeerAtStart = genSPeer(t, &c, nkeys)
	}
	n := rapid.IntRange(1, 10).Draw(t, "nacts")
	for i := 0; i < n; i++ {
		a := SAct{Kind: rapid.SampledFrom([]string{"app", "app", "app", "deliver", "deliver", "storefault"}).Draw(t, "akind")}
		if rapid.IntRange(0, 3).Draw(t, "at?") > 0 {
			a.At = rapid.SampledFrom(loopYieldPoints[:nMainPoints]).Draw(t, "at")
			a.Occ = rapid.SampledFrom([]int{0, 0, 0, 1}).Draw(t, "occ")
		}
		switch a.Kind {
		case "app":
			for j := 0; j < rapid.IntRange(1, 3).Draw(t, "nch"); j++ {
				a.Changes = append(a.Changes, genSChange(t, &c, nkeys))
			}
			a.Held = rapid.IntRange(0, 2).Draw(t, "held") == 0
			if !a.Held && rapid.IntRange(0, 2).Draw(t, "queued") == 0 {
				a.Queued = true
				a.LogK = rapid.IntRange(0, 12).Draw(t, "log_k")
			}
		case "deliver":
			a.Peer = genSPeer(t, &c, nkeys)
			a.BetweenHeld = !c.Native && rapid.IntRange(0, 2).Draw(t, "between_held") == 0
		case "storefault":
			a.N = rapid.IntRange(1, 3).Draw(t, "nfail")
		}
		c.Plan = append(c.Plan, a)
	}
	return c
}

func TestC03Loop(t *testing.T) {
	vcore.Run(t, vcore.Config{Property: "C03", Inflight: true,
		Rule: "real sync loop of one instance under the yield-point scheduler, a peer that publishes generated snapshots (native: timestamps interleaved with local ones, never equal; shadow: far in the past), native and shadow mode; a generated plan fires application commits (insert/overwrite/delete/new DBI/multi-key), peer deliveries and Store faults (< retry budget) at named yield points (12 points incl. between the end of an LMDB transaction and the following env.Info) or at the next yield, a third of the commits with the write transaction still open when the loop is released (it commits 2 ms later, while the loop waits for the lock), a fifth started by whoever writes the k-th log line of the running loop (queueing for the write lock behind Lightning Stream's transaction where that line is written inside one, and committing the moment the lock is free); after EVERY yield the application-visible content must be the last-writer-wins winner of the application's last commit and the merged remote versions (C03); when the loop has been idle for two iterations the newest own snapshot must carry every application commit (C09); " +
			"non-trivial = an application commit at a yield point other than sync.iter/before-sleep, followed by a merge"},
		genLoopCase, checkLoopCase)
}

// ---- FAULT_ENUM: every yield point x kind of change x mode x {LS txn empty, non-empty} ----

type enumLoop struct {
	Native   bool   `json:"native"`
	Point    string `json:"point"`
	Kind     string `json:"kind"`      // insert | overwrite | delete | newdbi | multi
	PeerNoop bool   `json:"peer_noop"` // the delivered peer snapshot changes nothing
	// LocalFirst: another application commit precedes (at the end of the previous iteration), so that
	// the iteration in which the commit under test falls also captures/uploads (all 12 points occur)
	LocalFirst  bool `json:"local_first"`
	ReceiveOnly bool `json:"receive_only,omitempty"`
	// NoopFirst: the preceding application commit rewrites a key with the value it already has: LMDB
	// records a transaction, so the next merge sees "local changes", but in shadow mode its capture pass
	// finds nothing to capture (with a no-op peer snapshot the whole merge transaction stays empty)
	NoopFirst   bool `json:"noop_first,omitempty"`
	Sweeper     bool `json:"sweeper,omitempty"`
	Force       bool `json:"force,omitempty"`
	SweeperRuns bool `json:"sweeper_runs,omitempty"`
	OwnAtStart  bool `json:"own_at_start,omitempty"`
	// Held: the application's transaction is open (holds the write lock) when the loop leaves the point
	Held bool `json:"held,omitempty"`
	// Queued: the application's transaction is started by whoever writes the LogK-th log line after the loop left
	// the point (and waits for the write lock if Lightning Stream holds it then)
	Queued bool `json:"queued,omitempty"`
	LogK   int  `json:"log_k,omitempty"`
	// EmptyStart: the instance starts with an EMPTY LMDB and no peer ever publishes; the application inserts one
	// key (published) and the change under test - a deletion - removes it again: the LMDB holds no live data then
	EmptyStart bool `json:"empty_start,omitempty"`
	// NewDBIFirst: all local data lives in the SECOND DBI (by name); the later peer snapshot brings a DBI that does not
	// exist locally and sorts first, plus an OLDER version of the key the application overwrites
	NewDBIFirst bool `json:"new_dbi_first,omitempty"`
	// OwnCorruptOnly: the only blob stored under the instance's own name is undecodable
	OwnCorruptOnly int `json:"own_corrupt_only,omitempty"`
}

func (e enumLoop) toCase() LoopCase {
	c := LoopCase{Native: e.Native, ReceiveOnly: e.ReceiveOnly, Sweeper: e.Sweeper, Force: e.Force, SweeperRuns: e.SweeperRuns, OwnAtStart: e.OwnAtStart, OwnCorruptOnly: e.OwnCorruptOnly}
	if e.NewDBIFirst {
		ts := uint64(0)
		if e.Native {
			ts = 20
		}
		peerTS := func(n uint64) uint64 {
			if e.Native {
				return n
			}
			return 1_000_000_000_000_000_000 + n
		}
		c.Start = []SChange{{DBI: 1, Key: 0, Op: "put", Val: model.Bytes("v0"), TS: ts}, {DBI: 1, Key: 1, Op: "put", Val: model.Bytes("v0"), TS: ts}}
		c.Plan = []SAct{
			{Kind: "deliver", At: "sync.before-sleep", Peer: []SPeer{{DBI: 1, Key: 2, TS: peerTS(15), Val: model.Bytes("p")}}},
			{Kind: "app", At: e.Point, Changes: []SChange{{DBI: 1, Key: 0, Op: "put", Val: model.Bytes("v1"), TS: 30}}, Held: e.Held},
			{Kind: "deliver", At: "sync.before-sleep", Peer: []SPeer{
				{DBI: 0, Key: 4, TS: peerTS(25), Val: model.Bytes("in-a-new-dbi")},
				{DBI: 1, Key: 0, TS: peerTS(25), Val: model.Bytes("stale")},
				{DBI: 1, Key: 3, TS: peerTS(25), Val: model.Bytes("late")}}},
		}
		return c
	}
	if e.EmptyStart {
		ts := uint64(0)
		if e.Native {
			ts = 20
		}
		c.Plan = []SAct{
			{Kind: "app", Changes: []SChange{{DBI: 0, Key: 1, Op: "put", Val: model.Bytes("only"), TS: ts}}},
			{Kind: "app", At: "sync.before-sleep", Occ: 1, Changes: []SChange{{DBI: 0, Key: 1, Op: "put", Val: model.Bytes("only2"), TS: ts + 5}}},
			{Kind: "app", At: e.Point, Occ: 1, Changes: []SChange{{DBI: 0, Key: 1, Op: "del", TS: 30}}, Held: e.Held},
		}
		return c
	}
	ts := uint64(0)
	if e.Native {
		ts = 20
	}
	c.Start = []SChange{{DBI: 0, Key: 0, Op: "put", Val: model.Bytes("v0"), TS: ts}, {DBI: 0, Key: 1, Op: "put", Val: model.Bytes("v0"), TS: ts}}
	peerTS := func(n uint64) uint64 {
		if e.Native {
			return n
		}
		return 1_000_000_000_000_000_000 + n
	}
	peer := []SPeer{{DBI: 0, Key: 2, TS: peerTS(15), Val: model.Bytes("p")}}
	if e.PeerNoop {
		peer = nil // an empty snapshot: nothing to merge
	}
	var ch []SChange
	switch e.Kind {
	case "insert":
		ch = []SChange{{DBI: 0, Key: 3, Op: "put", Val: model.Bytes("new"), TS: 30}}
	case "overwrite":
		ch = []SChange{{DBI: 0, Key: 0, Op: "put", Val: model.Bytes("v1"), TS: 30}}
	case "suffix":
		// the new value is a tail of the value it replaces ("v0" -> "0")
		ch = []SChange{{DBI: 0, Key: 0, Op: "put", Val: model.Bytes("0"), TS: 30}}
	case "delete":
		ch = []SChange{{DBI: 0, Key: 1, Op: "del", TS: 30}}
	case "newdbi":
		ch = []SChange{{DBI: 1, Key: 0, Op: "put", Val: model.Bytes("other"), TS: 30}}
	case "multi":
		ch = []SChange{{DBI: 0, Key: 0, Op: "put", Val: model.Bytes("m"), TS: 30}, {DBI: 1, Key: 1, Op: "put", Val: model.Bytes("m"), TS: 30}, {DBI: 0, Key: 1, Op: "del", TS: 30}}
	}
	c.Plan = []SAct{{Kind: "deliver", At: "sync.before-sleep", Peer: peer}}
	if e.LocalFirst {
		c.Plan = append(c.Plan, SAct{Kind: "app", Changes: []SChange{{DBI: 0, Key: 5, Op: "put", Val: model.Bytes("first"), TS: 20}}})
	}
	if e.NoopFirst {
		c.Plan = append(c.Plan, SAct{Kind: "app", Changes: []SChange{{DBI: 0, Key: 0, Op: "put", Val: model.Bytes("v0"), TS: 20}}})
	}
	late := []SPeer{{DBI: 0, Key: 4, TS: peerTS(25), Val: model.Bytes("late")}}
	if e.Sweeper {
		// markers far older than the retention, for keys the application holds newer versions of
		late = append(late, SPeer{DBI: 0, Key: 0, TS: peerTS(5), Del: true}, SPeer{DBI: 0, Key: 3, TS: peerTS(5), Del: true}, SPeer{DBI: 1, Key: 0, TS: peerTS(5), Del: true})
	}
	lateAct := SAct{Kind: "deliver", At: "sync.before-sleep", Peer: late}
	if e.Held && !e.Native {
		// ... and versions of the keys the held transaction wrote, stamped between its start and its commit
		for _, x := range ch {
			lateAct.Peer = append(lateAct.Peer, SPeer{DBI: x.DBI, Key: x.Key, TS: peerTS(30), Val: model.Bytes("between")})
		}
		lateAct.BetweenHeld = true
	}
	c.Plan = append(c.Plan,
		SAct{Kind: "app", At: e.Point, Changes: ch, Held: e.Held, Queued: e.Queued, LogK: e.LogK},
		lateAct)
	return c
}

func TestC03Enum(t *testing.T) {
	points := loopYieldPoints[:nMainPoints]
	vcore.RunEnum(t, vcore.Config{Property: "C03", Inflight: true,
		Rule: "fault enumeration over a fixed scenario (instance starts with two keys, a peer snapshot is merged, the application commits once, a later peer snapshot is merged, loop runs until idle): EVERY yield point (12 named ones + the inside of the upload's read transaction in native mode) x kind of application change {insert, overwrite, delete, new DBI, multi-key} x {native, shadow} x {peer snapshot is a no-op, or not} x {another application commit precedes so that the iteration also captures and uploads, or not} - this covers Lightning Stream write transactions that turn out empty and ones that do not; plus the same commit in a second life that still waits for its own snapshot (download failing three times), next to a tomb sweeper that runs every millisecond without ever finding anything, with a forced snapshot in every iteration, with the tomb sweeper configured and stale peer markers for the keys it touches, after a same-value rewrite (a recorded application transaction with nothing to capture), on a receive-only instance, with the application's write transaction still open (holding the LMDB write lock) when the loop leaves the point, committing 2 ms later, and with the application's transaction started at the k-th log line (k in {0,1,2,3,5,8}) after the loop left the point, i.e. queued for the write lock behind an LS transaction in progress; C03 oracle after every yield, header transaction ids of everything Lightning Stream wrote since the previous yield (C14), C09 oracle when idle; commits that match the listed known finding (transaction id reuse after an empty LS transaction) are deferred to the next yield and counted; " +
			"non-trivial = the commit fell between two LS transactions of one loop iteration"},
		func(yield func(enumLoop) bool) {
			for _, native := range []bool{true, false} {
				for _, p := range points {
					for _, k := range []string{"insert", "overwrite", "delete", "newdbi", "multi"} {
						for _, noop := range []bool{false, true} {
							for _, lf := range []bool{false, true} {
								if !yield(enumLoop{Native: native, Point: p, Kind: k, PeerNoop: noop, LocalFirst: lf}) {
									return
								}
							}
						}
						// after a commit that rewrote a key with its current value (transaction recorded, nothing to capture)
						for _, noop := range []bool{false, true} {
							if !yield(enumLoop{Native: native, Point: p, Kind: k, PeerNoop: noop, NoopFirst: true}) {
								return
							}
						}
						// with the tomb sweeper configured: the second peer snapshot then also carries a (stale) marker
						if !yield(enumLoop{Native: native, Point: p, Kind: k, PeerNoop: false, LocalFirst: true, Sweeper: true}) {
							return
						}
						// second life: the own snapshot of a previous life has to be loaded first (its download fails thrice)
						if !yield(enumLoop{Native: native, Point: p, Kind: k, PeerNoop: false, LocalFirst: false, OwnAtStart: true}) {
							return
						}
						// with a tomb sweeper that runs all the time and never finds anything to remove
						if !yield(enumLoop{Native: native, Point: p, Kind: k, PeerNoop: true, LocalFirst: false, SweeperRuns: true}) {
							return
						}
						// with forced snapshots in every iteration
						if !yield(enumLoop{Native: native, Point: p, Kind: k, PeerNoop: false, LocalFirst: false, Force: true}) {
							return
						}
						// the application's transaction is still open when the loop leaves the point, and commits while
						// the loop waits for the write lock (or, where it needs none, a moment later)
						for _, lf := range []bool{false, true} {
							if !yield(enumLoop{Native: native, Point: p, Kind: k, PeerNoop: false, LocalFirst: lf, Held: true}) {
								return
							}
						}
						// the same commit on a receive-only instance (captures, merges, never uploads)
						if !yield(enumLoop{Native: native, Point: p, Kind: k, PeerNoop: false, LocalFirst: true, ReceiveOnly: true}) {
							return
						}
						// an overwrite by a value that is a suffix of the stored one
						if k == "overwrite" {
							for _, lf := range []bool{false, true} {
								if !yield(enumLoop{Native: native, Point: p, Kind: "suffix", PeerNoop: false, LocalFirst: lf}) {
									return
								}
							}
						}
						// the later peer snapshot creates a DBI that sorts before the one holding the application's newer version
						if k == "overwrite" {
							for _, held := range []bool{false, true} {
								if !yield(enumLoop{Native: native, Point: p, Kind: k, NewDBIFirst: true, Held: held}) {
									return
								}
							}
						}
						// an instance that started empty and has no peers: the application deletes the only key it ever wrote
						if k == "delete" {
							for _, held := range []bool{false, true} {
								if !yield(enumLoop{Native: native, Point: p, Kind: k, EmptyStart: true, Held: held}) {
									return
								}
							}
						}
						// the application's transaction starts while the loop runs, at the n-th log line after the point: where
						// Lightning Stream holds the write lock at that line, it queues up and commits right behind LS's transaction
						if k == "overwrite" || k == "multi" {
							for _, lk := range []int{0, 1, 2, 3, 5, 8} {
								if !yield(enumLoop{Native: native, Point: p, Kind: k, PeerNoop: false, LocalFirst: true, Queued: true, LogK: lk}) {
									return
								}
							}
						}
					}
				}
			}
		},
		func(e enumLoop, o *vcore.Obs) error {
			c := e.toCase()
			st, err := runLoopCase(c, o)
			classifyLoop(c, st, o)
			if err != nil {
				return err
			}
			o.NonTrivial(st.appBetween)
			return nil
		})
}

// Known finding: an application commit right after an LS write transaction that turned out empty
// reuses that transaction's id and is taken for Lightning Stream's own.
func TestKnownC03(t *testing.T) {
	run := func(id string, c LoopCase) {
		c.AllowF9 = true
		vcore.Known(t, "C03", id, c, func(c LoopCase, o *vcore.Obs) error {
			_, err := runLoopCase(c, o)
			return err
		})
	}
	// (a) after a merge that changed nothing (LoadOnce), native and shadow
	for _, native := range []bool{true, false} {
		mode := "shadow"
		if native {
			mode = "native"
		}
		run("txnid-reuse-after-empty-ls-txn/load.after-txn/"+mode,
			enumLoop{Native: native, Point: "load.after-txn", Kind: "overwrite", PeerNoop: true}.toCase())
	}
	// (b) after the capture pass of an upload that found nothing to capture (shadow mode SendOnce):
	// the initial upload at start-up follows the start-up capture, so its own capture is empty
	c := LoopCase{Native: false,
		Start: []SChange{{DBI: 0, Key: 0, Op: "put", Val: model.Bytes("v0")}},
		Plan: []SAct{{Kind: "app", At: "send.after-txn", Changes: []SChange{{DBI: 0, Key: 0, Op: "put", Val: model.Bytes("v1")}}},
			{Kind: "deliver", At: "sync.before-sleep", Peer: nil}}}
	run("txnid-reuse-after-empty-ls-txn/send.after-txn/shadow", c)
}

func mergeIntoMirror(mir *model.Mirror, ents []SPeer, sweeper bool) {
	dup := map[string]bool{}
	for _, e := range ents {
		dbi := fleetDBIs[e.DBI%len(fleetDBIs)]
		k := fleetKeys[e.Key%len(fleetKeys)]
		if dup[dbi+"/"+string(k)] {
			continue
		}
		dup[dbi+"/"+string(k)] = true
		if sweeper && e.Del && e.TS < 2_000_000_000_000_000_000 {
			// stale marker (see addMerged): not created where the shadow DBI has no entry for the key
			// (entries stamped "between" a held transaction carry the current time: not stale)
			if d := mir.DBIs[dbi]; d == nil {
				continue
			} else if _, has := d.Shadow[string(k)]; !has {
				continue
			}
		}
		mir.MergeRemote(dbi, "plain", k, model.SVer{TS: e.TS, Del: e.Del, Val: e.Val}, 0)
	}
}

// ---- C14 inside the real loop: the header transaction id of everything Lightning Stream writes ----

func checkC14Loop(c LoopCase, o *vcore.Obs) error {
	c.OnlyTxnIDs = true
	st, err := runLoopCase(c, o)
	classifyLoop(c, st, o)
	o.NonTrivial(st.txnIDChecked > 0 && st.held > 0)
	if err != nil && !strings.Contains(err.Error(), ": C14: ") {
		o.Class("other-oracle-or-harness-stopped-the-case")
		return nil // not this property's business (C03/C09/C10 run the same cases with their oracles)
	}
	return err
}

func TestC14Loop(t *testing.T) {
	vcore.Run(t, vcore.Config{Property: "C14", Inflight: true,
		Rule: "the cases of TestC03Loop (real sync loop under the yield-point scheduler, peer snapshots, application commits at named yield points, a third of them with the write transaction still open when the loop is released) with ONLY the header oracle: after every yield, each entry Lightning Stream wrote or rewrote since the previous yield (native: application DBIs; shadow mode: shadow DBIs) carries a transaction id above the last id recorded at the previous yield, above the id of an application transaction that committed in between, and not above the last recorded id now - i.e. the id of the transaction that wrote it, also when that transaction had to wait for the write lock; non-trivial = at least one such entry was checked in a case with a held application transaction"},
		genLoopCase, checkC14Loop)
}

func TestC14LoopEnum(t *testing.T) {
	points := loopYieldPoints[:nMainPoints]
	vcore.RunEnum(t, vcore.Config{Property: "C14", Inflight: true,
		Rule: "enumeration: the fixed scenario of TestC03Enum with the application's transaction held open at EVERY yield point x kind of change x {native, shadow} x {another commit precedes or not}; header oracle of TestC14Loop only; non-trivial = entries written by Lightning Stream were checked"},
		func(yield func(enumLoop) bool) {
			for _, native := range []bool{true, false} {
				for _, p := range points {
					for _, k := range []string{"insert", "overwrite", "delete", "newdbi", "multi"} {
						for _, lf := range []bool{false, true} {
							if !yield(enumLoop{Native: native, Point: p, Kind: k, LocalFirst: lf, Held: true}) {
								return
							}
						}
					}
				}
			}
		},
		func(e enumLoop, o *vcore.Obs) error {
			return checkC14Loop(e.toCase(), o)
		})
}

// ---- C04 inside the real loop: an application's deletion is never undone by syncing ----

func TestC04LoopEnum(t *testing.T) {
	points := loopYieldPoints[:nMainPoints]
	vcore.RunEnum(t, vcore.Config{Property: "C04", Inflight: true,
		Rule: "enumeration: the fixed scenario of TestC03Enum with the application DELETING a key (alone, or together with other changes) at EVERY yield point x {native, shadow} x {plain, another commit precedes, second life that still waits for its own snapshot, transaction held open while the loop runs on, peer snapshot that changes nothing, tomb sweeper configured with stale peer markers}: after every yield the deleted key is absent from the application's view (shadow mode) / held as a deletion marker (native), and when the loop is idle the newest own snapshot carries the deletion; non-trivial = the deletion fell between two LS transactions of one iteration"},
		func(yield func(enumLoop) bool) {
			for _, native := range []bool{true, false} {
				for _, p := range points {
					for _, k := range []string{"delete", "multi"} {
						for _, e := range []enumLoop{
							{},
							{LocalFirst: true},
							{OwnAtStart: true},
							{Held: true},
							{PeerNoop: true},
							{LocalFirst: true, Sweeper: true},
						} {
							e.Native, e.Point, e.Kind = native, p, k
							if !yield(e) {
								return
							}
						}
					}
				}
			}
		},
		func(e enumLoop, o *vcore.Obs) error {
			c := e.toCase()
			st, err := runLoopCase(c, o)
			classifyLoop(c, st, o)
			if err != nil {
				return err
			}
			o.NonTrivial(st.appBetween)
			return nil
		})
}

package fleet

import (
	"fmt"
	"strings"
	"testing"
	"time"

	"github.com/PowerDNS/lightningstream/config"
	"github.com/PowerDNS/lightningstream/snapshot"
	"github.com/PowerDNS/lightningstream/syncer"
	"github.com/PowerDNS/lmdb-go/lmdb"
	"pgregory.net/rapid"

	"verif/harness/internal/fault"
	"verif/harness/internal/lm"
	"verif/harness/internal/model"
	"verif/harness/internal/vcore"
)

// ---------------------------------------------------------------------------
// C10 for large fleets: many peers publish at once (after a pause, or when an
// instance joins a fleet): one real instance, under the scheduler, has more
// snapshots waiting than it merges in a row. It merges them all and, having no
// local change, uploads nothing.
// ---------------------------------------------------------------------------

type C10Burst struct {
	Native bool `json:"native"`
	Peers  int  `json:"peers"`  // snapshots of that many different instances are waiting at once
	Rounds int  `json:"rounds"` // bursts
	// NewsAt: which of the waiting snapshots carry data the instance does not have yet (bit i = peer i); the
	// others repeat what it has
	NewsAt uint32 `json:"news_at"`
	Start  bool   `json:"start"` // the instance has data (and therefore an own snapshot) before the first burst
	Pad    bool   `json:"pad,omitempty"`
}

func checkC10Burst(c C10Burst, o *vcore.Obs) error {
	env := lm.New(64<<20, 24)
	defer env.Close()
	b := fault.NewBucket()
	conf := BaseConfig("a")
	conf.MemoryDecompressedSnapshots = c.Peers + 2
	conf.MemoryDownloadedSnapshots = c.Peers + 2
	nd := NewNode("a", env, b.Handle("a"), conf, config.LMDB{SchemaTracksChanges: c.Native, HeaderExtraPaddingBlock: c.Pad}, syncer.Options{})
	defer nd.Forget()
	defer nd.Stop()
	if c.Start {
		err := env.Update(func(txn *lmdb.Txn) error {
			dbi, err := txn.OpenDBI("d0", lmdb.Create)
			if err != nil {
				return err
			}
			val := []byte("local")
			if c.Native {
				val = model.BuildHeader(uint64(time.Now().UnixNano()), uint64(txn.ID()), 0, nil, val)
			}
			return txn.Put(dbi, []byte("local-key"), val, 0)
		})
		if err != nil {
			return err
		}
	}
	ownStores := func() int {
		n := 0
		for _, op := range b.Log() {
			if op.Kind == "store" && op.By == "a" && op.Applied {
				n++
			}
		}
		return n
	}
	y, err := nd.Start()
	if err != nil {
		return err
	}
	// runIdle steps the loop until three consecutive iterations neither stored nor merged anything
	runIdle := func(what string) error {
		quiet, loadsInIter, storesAt := 0, 0, ownStores()
		for steps := 0; steps < 6000; steps++ {
			if y.Done {
				return fmt.Errorf("%s: sync loop ended: %v", what, y.Err)
			}
			switch y.Point {
			case "load.after-txn":
				loadsInIter++
			case "sync.iter":
				if loadsInIter == 0 && ownStores() == storesAt {
					quiet++
				} else {
					quiet = 0
				}
				loadsInIter, storesAt = 0, ownStores()
				if quiet >= 3 {
					return nil
				}
			}
			if y, err = nd.Step(); err != nil {
				return err
			}
		}
		return fmt.Errorf("%s: the loop does not become idle (uploads so far %d)", what, ownStores())
	}
	if err := runIdle("start-up"); err != nil {
		return err
	}
	clock := time.Now().Add(time.Second)
	published := 0
	dl0, _ := nd.Downloads()
	seq := 0
	for r := 0; r < c.Rounds; r++ {
		before := ownStores()
		// the loop is parked at sync.iter: all peers publish, and everything is downloaded before it runs on
		for p := 0; p < c.Peers; p++ {
			seq++
			inst := fmt.Sprintf("peer%02d", p)
			m := model.Snap{FormatVersion: 3, CompatVersion: 1, Meta: model.Meta{InstanceID: inst, DatabaseName: DBName}}
			d := model.DBI{Name: "d0"}
			ts := uint64(time.Now().UnixNano())
			if !c.Native {
				ts -= uint64(time.Hour) // (older than any local detection stamp; irrelevant for keys only the peer has)
			}
			key := []byte(fmt.Sprintf("k-%s", inst))
			val := []byte("same")
			if c.NewsAt&(1<<uint(p)) != 0 {
				val = []byte(fmt.Sprintf("news-%d", seq)) // a newer version every round
			} else if r > 0 {
				ts = 1_600_000_000_000_000_000 // an older version than the one merged in the first burst: nothing new
			}
			d.Entries = append(d.Entries, model.KV{Key: key, Val: model.ValOf(val), TS: ts})
			m.DBIs = append(m.DBIs, d)
			pb, _ := m.ToGogo().Marshal()
			clock = clock.Add(time.Millisecond)
			b.Put(snapshot.Name(DBName, inst, "GX", clock), gzBytes(pb))
			published++
		}
		deadline := time.Now().Add(20 * time.Second)
		for {
			if done, _ := nd.Downloads(); done-dl0 >= published {
				break
			}
			if time.Now().After(deadline) {
				return fmt.Errorf("round %d: the %d published snapshots were not all downloaded within 20 s\n%s", r, c.Peers, goroutinesOf("lightningstream/syncer/receiver"))
			}
			time.Sleep(200 * time.Microsecond)
		}
		if err := runIdle(fmt.Sprintf("round %d", r)); err != nil {
			return err
		}
		if n := ownStores() - before; n != 0 {
			var names []string
			for _, op := range b.Log() {
				if op.Kind == "store" && op.By == "a" && op.Applied {
					names = append(names, op.Name)
				}
			}
			return fmt.Errorf("round %d: %d peers published at once; the instance merged them and then uploaded %d snapshot(s) although its application wrote nothing (an instance uploads only after a local change): %s", r, c.Peers, n, strings.Join(names, " "))
		}
		// everything published is merged
		dump, err := lm.DumpEnv(env.Env)
		if err != nil {
			return err
		}
		d := dump.DBI("d0")
		for p := 0; p < c.Peers; p++ {
			key := fmt.Sprintf("k-peer%02d", p)
			found := false
			if d != nil {
				for _, e := range d.Entries {
					if string(e.Key) == key {
						found = true
					}
				}
			}
			if !found {
				return fmt.Errorf("round %d: key %s published by a peer is missing after the loop became idle", r, key)
			}
		}
	}
	o.NonTrivial(c.Peers > 10)
	o.ClassIf(c.Peers > 10, "more-waiting-snapshots-than-merged-in-a-row")
	o.ClassIf(c.Native, "native")
	o.ClassIf(!c.Native, "shadow")
	o.ClassIf(!c.Start, "empty-instance-joins")
	return nil
}

func TestC10Burst(t *testing.T) {
	vcore.Run(t, vcore.Config{Property: "C10", Inflight: true,
		Rule: "one real instance under the yield-point scheduler (native / shadow, with or without data of its own) parked at the start of an iteration while 1-16 peers publish a snapshot each (a generated subset carries a version it does not have yet, the rest repeat old ones), all downloaded before it runs on; 1-3 such bursts; after each burst the loop becomes idle, every published key is merged, and the instance has uploaded NOTHING (no local change); non-trivial = more than 10 snapshots waiting at once (more than the loop merges in a row)"},
		func(t *rapid.T) C10Burst {
			return C10Burst{Native: rapid.Bool().Draw(t, "native"), Peers: rapid.SampledFrom([]int{1, 3, 9, 10, 11, 12, 13, 16}).Draw(t, "peers"),
				Rounds: rapid.IntRange(1, 3).Draw(t, "rounds"), NewsAt: rapid.Uint32().Draw(t, "news") | uint32(rapid.SampledFrom([]int{0, 1 << 10, 1 << 11, 0xffff}).Draw(t, "news_hi")),
				Start: rapid.IntRange(0, 3).Draw(t, "start") > 0, Pad: rapid.IntRange(0, 4).Draw(t, "pad") == 0}
		}, checkC10Burst)
}

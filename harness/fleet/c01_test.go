package fleet

import (
	"encoding/binary"
	"fmt"
	"testing"

	"pgregory.net/rapid"

	"verif/harness/internal/model"
	"verif/harness/internal/vcore"
)

// ---------------------------------------------------------------------------
// C01 Replicas converge to the per-key last-writer-wins winner
// C04 (part A) Deletions propagate and deleted keys are not resurrected
// C10 (part A) Re-merging merged content commits nothing
// ---------------------------------------------------------------------------

type FOp struct {
	Kind   string      `json:"kind"` // put | del | upload | merge | tick
	Inst   int         `json:"inst"`
	DBI    int         `json:"dbi,omitempty"`
	Key    int         `json:"key,omitempty"`
	Val    model.Bytes `json:"val,omitempty"`
	TS     uint64      `json:"ts,omitempty"`
	XFlag  byte        `json:"xflag,omitempty"`   // native: application-local header flag bits
	IntKey bool        `json:"int_key,omitempty"` // put/del: in the integer-key DBI instead
	Blob   int         `json:"blob,omitempty"`    // index into the blobs stored so far (mod count)
	From   int         `json:"from,omitempty"`    // merge: if > 0, the newest blob of instance From-1 instead
	// Held (put/del, native mode): the application's transaction stays open - holding the write lock - until
	// the next operation on that instance; if that is a merge, it commits 2 ms after the merge has started
	Held bool `json:"held,omitempty"`
}

type HistCase struct {
	Native bool  `json:"native"`
	Pad    bool  `json:"pad,omitempty"`
	N      int   `json:"n"`
	Ops    []FOp `json:"ops"`
	// ExcludedEmpty: live empty values redirected in shadow mode (known finding shadow-empty-value)
	ExcludedEmpty int `json:"excluded_empty,omitempty"`
	// ReMerge (C10): after quiescence merge every stored blob again into every instance
	ReMerge bool `json:"remerge,omitempty"`
}

var fleetDBIs = []string{"d0", "d1", "d2"}
var fleetKeys = [][]byte{[]byte("a"), []byte("b"), []byte("ab"), {0}, {0xff, 0x00}, []byte("key-5"), []byte("k6"), make([]byte, 511)}

type histStats struct {
	writers         map[string]map[int]bool // dbi/key -> set of instances that wrote
	mergeDir        map[[2]int]bool
	tieConflict     bool
	delVsPut        bool
	nonNewest       bool
	ts0             bool
	tsFuture        bool
	emptyVal        bool
	deletes         int
	delMetOlderLive bool
	held            int
}

// runHistory executes the generated history with the stepwise oracle; it
// returns the fleet (caller closes) for the property-specific end phase.
func runHistory(c HistCase, o *vcore.Obs) (*Fleet, *histStats, error) {
	f := New(Options{Native: c.Native, N: c.N, Pad: c.Pad})
	st := &histStats{writers: map[string]map[int]bool{}, mergeDir: map[[2]int]bool{}}
	for oi, op := range c.Ops {
		i := op.Inst % c.N
		step := fmt.Sprintf("step %d (%s on i%d)", oi, op.Kind, i)
		switch op.Kind {
		case "tick":
			f.Clock++
			continue
		case "put", "del":
			dbi := fleetDBIs[op.DBI%len(fleetDBIs)]
			key := fleetKeys[op.Key%len(fleetKeys)]
			if op.IntKey {
				// an MDB_INTEGERKEY DBI: 4-byte native-endian keys incl. 0 and values beyond one and two bytes
				dbi = IntKeyDBI
				key = make([]byte, 4)
				binary.LittleEndian.PutUint32(key, []uint32{0, 1, 255, 256, 70000, 1 << 31}[op.Key%6])
			}
			ch := Change{DBI: dbi, Key: key, Del: op.Kind == "del", Val: op.Val, TS: op.TS, XFlag: op.XFlag}
			if op.Held && c.Native {
				if err := f.AppHold(i, []Change{ch}); err != nil {
					return f, st, fmt.Errorf("%s: harness: %v", step, err)
				}
				st.held++
			} else if err := f.AppCommit(i, []Change{ch}); err != nil {
				return f, st, fmt.Errorf("%s: harness: %v", step, err)
			}
			id := dbi + "/" + string(key)
			if st.writers[id] == nil {
				st.writers[id] = map[int]bool{}
			}
			st.writers[id][i] = true
			if op.Kind == "del" {
				st.deletes++
			}
			st.ts0 = st.ts0 || (c.Native && op.TS == 0)
			st.tsFuture = st.tsFuture || (c.Native && op.TS >= 4_000_000_000_000_000_000)
			st.emptyVal = st.emptyVal || (op.Kind == "put" && len(op.Val) == 0)
			if op.Held && c.Native {
				continue // (not committed yet)
			}
			if err := f.CheckInstance(i, false); err != nil {
				return f, st, fmt.Errorf("%s: %w", step, err)
			}
		case "upload":
			if err := f.FinishHeld(i); err != nil {
				return f, st, fmt.Errorf("%s: harness: %v", step, err)
			}
			if _, err := f.Upload(i); err != nil {
				return f, st, fmt.Errorf("%s: %w", step, err)
			}
			if err := checkUploadHasMarkers(f, i); err != nil {
				return f, st, fmt.Errorf("%s: %w", step, err)
			}
			if err := f.CheckInstance(i, false); err != nil {
				return f, st, fmt.Errorf("%s: %w", step, err)
			}
		case "merge":
			if len(f.Blobs) == 0 {
				continue
			}
			b := f.Blobs[op.Blob%len(f.Blobs)]
			if op.From > 0 {
				nb := f.NewestBlobOf(f.Insts[(op.From-1)%c.N].Name)
				if nb == "" {
					continue
				}
				for _, x := range f.Blobs {
					if x.Name == nb {
						b = x
					}
				}
			}
			if b.Name != f.NewestBlobOf(b.By) {
				st.nonNewest = true
			}
			if _, _, err := f.Merge(i, b.Name); err != nil {
				return f, st, fmt.Errorf("%s: %w", step, err)
			}
			for j, in := range f.Insts {
				if in.Name == b.By && j != i {
					st.mergeDir[[2]int{j, i}] = true
				}
			}
			if err := f.CheckInstance(i, true); err != nil {
				return f, st, fmt.Errorf("%s: %w", step, err)
			}
			if err := checkDeletedAbsent(f, i); err != nil {
				return f, st, fmt.Errorf("%s: %w", step, err)
			}
		}
	}
	// conflict classes over everything written
	for _, m := range f.Written {
		for _, vs := range m {
			for x := 0; x < len(*vs); x++ {
				for y := x + 1; y < len(*vs); y++ {
					a, b := (*vs)[x], (*vs)[y]
					if a.TS == b.TS {
						st.tieConflict = true
					}
					if a.Del != b.Del {
						st.delVsPut = true
						if (a.Del && b.TS < a.TS) || (b.Del && a.TS < b.TS) {
							st.delMetOlderLive = true
						}
					}
				}
			}
		}
	}
	return f, st, nil
}

// checkUploadHasMarkers (C04): the snapshot just uploaded by instance i contains
// an entry for every entry (live or marker) of its LMDB, markers flagged.
func checkUploadHasMarkers(f *Fleet, i int) error {
	ver, _, err := f.Content(i)
	if err != nil {
		return err
	}
	b := f.Blobs[len(f.Blobs)-1]
	got := map[string]map[string]Ver{}
	for _, d := range b.Flat.DBIs {
		got[d.Name] = map[string]Ver{}
		for _, e := range d.Entries {
			got[d.Name][string(e.Key)] = Ver{TS: e.TS, Del: e.Flags&1 != 0, Val: e.Value}
		}
	}
	if d := diffVer(ver, got); d != "" {
		return fmt.Errorf("uploaded snapshot %s differs from the LMDB it was taken from: %s", b.Name, d)
	}
	return nil
}

// checkDeletedAbsent (C04): when a deletion is among the newest versions an instance has seen (highest timestamp),
// the key is absent from the application's view.
func checkDeletedAbsent(f *Fleet, i int) error {
	in := f.Insts[i]
	ver, app, err := f.Content(i)
	if err != nil {
		return err
	}
	for dbi, m := range in.Seen {
		for k, vs := range m {
			// a deletion at T stays in force until a version with a timestamp ABOVE T arrives: among the newest versions this
			// instance has seen, a deletion decides (a live version with the same timestamp does not win against it)
			anyDel := false
			for _, v := range vs.ArgMax() {
				if v.Del {
					anyDel = true
				}
			}
			if !anyDel {
				continue
			}
			if f.Native {
				v := ver[dbi][k]
				if !v.Del || len(v.Val) != 0 {
					return fmt.Errorf("%s: %s/%x deleted at ts %d but visible to the application as %v", in.Name, dbi, k, vs.MaxTS(), VerSet{v})
				}
			} else if _, present := app[dbi][k]; present {
				return fmt.Errorf("%s: %s/%x deleted at ts %d but still in the application DBI", in.Name, dbi, k, vs.MaxTS())
			}
		}
	}
	return nil
}

func classifyHist(c HistCase, st *histStats, o *vcore.Obs) bool {
	multi := false
	for _, w := range st.writers {
		if len(w) >= 2 {
			multi = true
		}
	}
	both := false
	for d := range st.mergeDir {
		if st.mergeDir[[2]int{d[1], d[0]}] {
			both = true
		}
	}
	o.ClassIf(st.tieConflict, "equal-timestamp-conflict")
	o.ClassIf(st.ts0, "ts-0")
	o.ClassIf(st.tsFuture, "timestamp-ahead-of-the-wall-clock")
	o.ClassIf(st.delVsPut, "delete-vs-put-conflict")
	o.ClassIf(st.emptyVal, "empty-value")
	o.ClassIf(st.nonNewest, "merge-of-non-newest-blob")
	o.ClassIf(st.held > 0, "app-txn-open-while-a-merge-started")
	o.ClassIf(c.Native, "native")
	o.ClassIf(!c.Native, "shadow")
	usesInt := false
	for _, op := range c.Ops {
		usesInt = usesInt || op.IntKey
	}
	o.ClassIf(usesInt, "integer-key-dbi")
	o.Class(fmt.Sprintf("instances-%d", c.N))
	for i := 0; i < c.ExcludedEmpty; i++ {
		o.Excluded("shadow-empty-value")
	}
	return multi && both
}

func checkC01(c HistCase, o *vcore.Obs) error {
	f, st, err := runHistory(c, o)
	defer f.Close()
	if err != nil {
		return err
	}
	if _, err := f.Quiesce(); err != nil {
		return err
	}
	if err := f.CheckConverged(); err != nil {
		return err
	}
	for i := range f.Insts {
		if err := checkDeletedAbsent(f, i); err != nil {
			return fmt.Errorf("after quiescence: %w", err)
		}
	}
	o.NonTrivial(classifyHist(c, st, o))
	return nil
}

func genHist(t *rapid.T, delHeavy bool, maxOps int) HistCase {
	var c HistCase
	c.Native = rapid.Bool().Draw(t, "native")
	c.N = rapid.SampledFrom([]int{2, 2, 2, 3, 3, 4}).Draw(t, "n")
	c.Pad = rapid.IntRange(0, 5).Draw(t, "pad") == 0
	lo := 8
	if maxOps < lo {
		lo = 1
	}
	nops := rapid.IntRange(lo, maxOps).Draw(t, "nops")
	nkeys := rapid.SampledFrom([]int{1, 1, 2, 2, 3, 4}).Draw(t, "nkeys")
	ndbi := rapid.SampledFrom([]int{1, 1, 1, 2}).Draw(t, "ndbi")
	intKeys := rapid.IntRange(0, 3).Draw(t, "int_keys") == 0 // a quarter of the histories also use an integer-key DBI
	kinds := []string{"put", "put", "put", "del", "upload", "upload", "upload", "merge", "merge", "merge", "merge", "merge", "tick"}
	if delHeavy {
		kinds = []string{"put", "put", "del", "del", "del", "upload", "upload", "upload", "merge", "merge", "merge", "merge", "merge", "tick"}
	}
	for i := 0; i < nops; i++ {
		op := FOp{Kind: rapid.SampledFrom(kinds).Draw(t, "kind"), Inst: rapid.IntRange(0, c.N-1).Draw(t, "inst")}
		switch op.Kind {
		case "put", "del":
			op.DBI = rapid.IntRange(0, ndbi-1).Draw(t, "dbi")
			op.Key = rapid.IntRange(0, nkeys-1).Draw(t, "key")
			op.IntKey = intKeys && rapid.IntRange(0, 2).Draw(t, "intkey") == 0
			if rapid.IntRange(0, 19).Draw(t, "rarekey") == 0 {
				op.Key = rapid.IntRange(0, len(fleetKeys)-1).Draw(t, "anykey")
			}
			if c.Native {
				switch rapid.IntRange(0, 6).Draw(t, "tsk") {
				case 0:
					op.TS = 0
				case 1, 2, 3:
					op.TS = uint64(rapid.IntRange(1, 4).Draw(t, "ts"))
				case 6:
					// an application whose clock runs ahead of everybody else's (years 2096 / 2261): "for all timestamps"
					op.TS = rapid.SampledFrom([]uint64{4_000_000_000_000_000_000, 9_200_000_000_000_000_000}).Draw(t, "tsfar") + uint64(rapid.IntRange(0, 3).Draw(t, "tsf"))
				default:
					op.TS = 1_700_000_000_000_000_000 + uint64(rapid.IntRange(0, 5).Draw(t, "tsr"))
				}
			}
			if c.Native && rapid.IntRange(0, 7).Draw(t, "xflag") == 0 {
				op.XFlag = rapid.SampledFrom([]byte{0x40, 0x02, 0xfe}).Draw(t, "xflagv")
			}
			if op.Kind == "put" {
				op.Val = rapid.SampledFrom([]model.Bytes{[]byte("v1"), []byte("v2"), []byte("a"), {}, {0}, []byte("zz"),
					// long values that share their first 128 / 200 bytes (equal-timestamp ties are decided by the whole value)
					longVal(128, "x"), longVal(128, "y"), longVal(200, ""), longVal(200, "z"),
					// values that LMDB keeps on overflow pages (more than half a page / more than a page)
					longVal(2100, "p"), longVal(5000, "")}).Draw(t, "val")
				if len(op.Val) == 0 && !c.Native {
					c.ExcludedEmpty++
					op.Val = model.Bytes("e")
				}
			}
		case "merge":
			op.Blob = rapid.IntRange(0, 30).Draw(t, "blob")
		}
		if (op.Kind == "put" || op.Kind == "del") && c.Native && rapid.IntRange(0, 3).Draw(t, "held") == 0 {
			// the transaction is still open when this instance starts merging somebody's newest snapshot
			op.Held = true
			c.Ops = append(c.Ops, op, FOp{Kind: "merge", Inst: op.Inst, From: 1 + rapid.IntRange(0, c.N-1).Draw(t, "held_from")})
			i++
			continue
		}
		c.Ops = append(c.Ops, op)
	}
	// often: one explicit two-way exchange between two instances somewhere inside the history
	if rapid.IntRange(0, 2).Draw(t, "exchange") > 0 {
		a := rapid.IntRange(0, c.N-1).Draw(t, "xa")
		b := (a + 1 + rapid.IntRange(0, c.N-2).Draw(t, "xb")) % c.N
		ex := []FOp{{Kind: "upload", Inst: a}, {Kind: "upload", Inst: b}, {Kind: "merge", Inst: b, From: a + 1}, {Kind: "merge", Inst: a, From: b + 1}}
		pos := rapid.IntRange(0, len(c.Ops)).Draw(t, "xpos")
		c.Ops = append(c.Ops[:pos:pos], append(ex, c.Ops[pos:]...)...)
	}
	return c
}

func TestC01Converge(t *testing.T) {
	vcore.Run(t, vcore.Config{Property: "C01",
		Rule: "rapid histories over 2-4 real instances (native: application writes headers with tie-prone timestamps incl. 0; shadow: plain writes stamped through the capture pass with a shared logical clock that may stand still, so ties happen), 1-2 DBIs, 1-4 hot keys: put / delete / SendOnce / LoadOnce of ANY stored blob (old, own, repeated) / clock tick; set-model oracle after every step, then quiescence (bounded rounds), identical content everywhere and winner in argmax_ts of everything written; " +
			"non-trivial = >=2 instances wrote the same key and merges happened in both directions between some pair"},
		func(t *rapid.T) HistCase { return genHist(t, false, 30) }, checkC01)
}

// ---- C04 part A: delete-heavy histories -------------------------------------

func checkC04Hist(c HistCase, o *vcore.Obs) error {
	f, st, err := runHistory(c, o)
	defer f.Close()
	if err != nil {
		return err
	}
	if _, err := f.Quiesce(); err != nil {
		return err
	}
	if err := f.CheckConverged(); err != nil {
		return err
	}
	for i := range f.Insts {
		if err := checkDeletedAbsent(f, i); err != nil {
			return fmt.Errorf("after quiescence: %w", err)
		}
	}
	// later merges of older blobs never resurrect a deleted key
	for i := range f.Insts {
		for _, b := range f.Blobs {
			if _, _, err := f.Merge(i, b.Name); err != nil {
				return err
			}
		}
		if err := checkDeletedAbsent(f, i); err != nil {
			return fmt.Errorf("after re-merging old snapshots: %w", err)
		}
	}
	if err := f.CheckConverged(); err != nil {
		return fmt.Errorf("after re-merging old snapshots: %w", err)
	}
	classifyHist(c, st, o)
	o.ClassIf(st.delMetOlderLive, "deletion-met-older-live-version")
	o.NonTrivial(st.delMetOlderLive && len(st.mergeDir) > 0)
	return nil
}

func TestC04Deletes(t *testing.T) {
	vcore.Run(t, vcore.Config{Property: "C04",
		Rule: "delete-heavy C01 histories; additionally: every upload contains exactly the entries (markers included) of the LMDB it was taken from, a key whose newest seen versions are all deletions is absent from the application's view after every merge and stays so when every old blob is merged again after quiescence; " +
			"non-trivial = a deletion at T and an older live version of the same key were written (on any instances) and >=1 cross-instance merge happened"},
		func(t *rapid.T) HistCase { return genHist(t, true, 30) }, checkC04Hist)
}

// ---- C10 part A: re-merging merged content commits nothing -------------------

func checkC10Remerge(c HistCase, o *vcore.Obs) error {
	f, st, err := runHistory(c, o)
	defer f.Close()
	if err != nil {
		return err
	}
	rounds, err := f.Quiesce()
	if err != nil {
		return err
	}
	if err := f.CheckConverged(); err != nil {
		return err
	}
	exchanged := 0
	for i, in := range f.Insts {
		before, err := lmDump(in)
		if err != nil {
			return err
		}
		for _, b := range f.Blobs {
			wrote, localChanged, err := f.Merge(i, b.Name)
			if err != nil {
				return err
			}
			if localChanged {
				return fmt.Errorf("%s: re-merging %s reports a local change although no application wrote", in.Name, b.Name)
			}
			if wrote {
				return fmt.Errorf("%s: re-merging already merged snapshot %s committed an LMDB transaction", in.Name, b.Name)
			}
			exchanged++
		}
		after, err := lmDump(in)
		if err != nil {
			return err
		}
		if d := before.Diff(after); d != "" {
			return fmt.Errorf("%s: re-merging changed raw LMDB bytes: %s", in.Name, d)
		}
		if before.LastTxnID != after.LastTxnID {
			return fmt.Errorf("%s: LastTxnID moved %d -> %d while re-merging", in.Name, before.LastTxnID, after.LastTxnID)
		}
		// and the sync loop would not upload: nothing newer than what was synced
		if uint64(after.LastTxnID) > uint64(in.LastSynced) {
			return fmt.Errorf("%s: LastTxnID %d > last synced %d after re-merging: an echo upload would follow", in.Name, after.LastTxnID, in.LastSynced)
		}
	}
	classifyHist(c, st, o)
	o.Class(fmt.Sprintf("quiescence-rounds-%d", rounds))
	o.ClassIf(c.Pad, "header-padding-option")
	both := false
	for d := range st.mergeDir {
		if st.mergeDir[[2]int{d[1], d[0]}] {
			both = true
		}
	}
	o.NonTrivial(both && exchanged > 0)
	return nil
}

func TestC10Remerge(t *testing.T) {
	vcore.Run(t, vcore.Config{Property: "C10",
		Rule: "C01 histories driven to quiescence (bounded rounds), then every stored blob is merged again into every instance: no LMDB transaction is recorded, localChanged=false, raw bytes identical, LastTxnID not above the last synced id (no echo upload); native and shadow, with and without header padding; " +
			"non-trivial = >=2 instances exchanged >=1 snapshot each way before the write-free phase"},
		func(t *rapid.T) HistCase { c := genHist(t, false, 24); c.ReMerge = true; return c }, checkC10Remerge)
}

func longVal(n int, tail string) model.Bytes {
	b := make([]byte, 0, n+len(tail))
	for i := 0; i < n; i++ {
		b = append(b, 'L')
	}
	return append(b, tail...)
}

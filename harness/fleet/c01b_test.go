package fleet

import (
	"fmt"
	"testing"

	"pgregory.net/rapid"

	"verif/harness/internal/model"
	"verif/harness/internal/vcore"
)

// ---------------------------------------------------------------------------
// C01, metamorphic part: "a fixed, order-independent tie-break ... whatever
// order snapshots were uploaded and merged in". The set model only demands
// that all instances of ONE run agree on which of several equal-timestamp
// versions wins. Here the same application writes are followed by two
// different exchange schedules in two fresh fleets; after quiescence both
// fleets must hold the same content, ties included.
// All writes precede the first exchange, so the versions themselves do not
// depend on the schedule (native: the application's own stamps; shadow: every
// instance's first capture happens at the same reading of the shared clock).
// ---------------------------------------------------------------------------

type OrderCase struct {
	Native        bool  `json:"native"`
	N             int   `json:"n"`
	Writes        []FOp `json:"writes"`
	A             []FOp `json:"schedule_a"`
	B             []FOp `json:"schedule_b"`
	ExcludedEmpty int   `json:"excluded_empty,omitempty"`
}

func runOrder(c OrderCase, sched []FOp, o *vcore.Obs) (map[string]map[string]Ver, map[string]map[string][]byte, *histStats, error) {
	h := HistCase{Native: c.Native, N: c.N, Ops: append(append([]FOp{}, c.Writes...), sched...)}
	f, st, err := runHistory(h, o)
	defer f.Close()
	if err != nil {
		return nil, nil, st, err
	}
	if _, err := f.Quiesce(); err != nil {
		return nil, nil, st, err
	}
	if err := f.CheckConverged(); err != nil {
		return nil, nil, st, err
	}
	ver, app, err := f.Content(0)
	return ver, app, st, err
}

func checkOrder(c OrderCase, o *vcore.Obs) error {
	va, aa, st, err := runOrder(c, c.A, o)
	if err != nil {
		return fmt.Errorf("schedule A: %w", err)
	}
	vb, ab, _, err := runOrder(c, c.B, o)
	if err != nil {
		return fmt.Errorf("schedule B: %w", err)
	}
	if d := diffVer(va, vb); d != "" {
		return fmt.Errorf("the same writes converge to different content under two exchange orders (the winner depends on the order snapshots were uploaded and merged in): %s", d)
	}
	if !c.Native {
		if d := diffApp(aa, ab); d != "" {
			return fmt.Errorf("the same writes leave different application DBIs under two exchange orders: %s", d)
		}
	}
	o.NonTrivial(st.tieConflict)
	o.ClassIf(st.tieConflict, "equal-timestamp-conflict")
	o.ClassIf(st.delVsPut, "delete-vs-put-conflict")
	o.ClassIf(c.Native, "native")
	o.ClassIf(!c.Native, "shadow")
	o.Class(fmt.Sprintf("instances-%d", c.N))
	for i := 0; i < c.ExcludedEmpty; i++ {
		o.Excluded("shadow-empty-value")
	}
	return nil
}

func genSchedule(t *rapid.T, n int, label string) []FOp {
	var out []FOp
	for i := rapid.IntRange(0, 10).Draw(t, label+"_n"); i > 0; i-- {
		op := FOp{Kind: rapid.SampledFrom([]string{"upload", "merge", "merge"}).Draw(t, label+"_kind"), Inst: rapid.IntRange(0, n-1).Draw(t, label+"_inst")}
		if op.Kind == "merge" {
			if rapid.Bool().Draw(t, label+"_newest") {
				op.From = 1 + rapid.IntRange(0, n-1).Draw(t, label+"_from")
			} else {
				op.Blob = rapid.IntRange(0, 30).Draw(t, label+"_blob")
			}
		}
		out = append(out, op)
	}
	return out
}

func genOrder(t *rapid.T) OrderCase {
	var c OrderCase
	c.Native = rapid.Bool().Draw(t, "native")
	c.N = rapid.SampledFrom([]int{2, 2, 3, 3, 4}).Draw(t, "n")
	nkeys := rapid.SampledFrom([]int{1, 1, 2, 3}).Draw(t, "nkeys")
	for i := rapid.IntRange(2, 10).Draw(t, "nwrites"); i > 0; i-- {
		op := FOp{Kind: rapid.SampledFrom([]string{"put", "put", "put", "del"}).Draw(t, "kind"), Inst: rapid.IntRange(0, c.N-1).Draw(t, "inst"),
			Key: rapid.IntRange(0, nkeys-1).Draw(t, "key")}
		if c.Native {
			// few distinct stamps: ties between instances are the point
			op.TS = rapid.SampledFrom([]uint64{0, 1, 1, 2, 2, 3, 1_700_000_000_000_000_000}).Draw(t, "ts")
		}
		if op.Kind == "put" {
			op.Val = rapid.SampledFrom([]model.Bytes{[]byte("v1"), []byte("v2"), []byte("a"), {}, {0}, []byte("zz")}).Draw(t, "val")
			if len(op.Val) == 0 && !c.Native {
				c.ExcludedEmpty++
				op.Val = model.Bytes("e")
			}
		}
		c.Writes = append(c.Writes, op)
	}
	c.A = genSchedule(t, c.N, "a")
	c.B = genSchedule(t, c.N, "b")
	return c
}

func TestC01OrderIndependent(t *testing.T) {
	vcore.Run(t, vcore.Config{Property: "C01",
		Rule: "metamorphic: 2-10 application writes on 2-4 instances (native: stamps from a pool of four values incl. 0, so different instances write the same key with equal timestamps; shadow: all first captures read the same clock value), then two independently generated exchange schedules (SendOnce / LoadOnce of newest or arbitrary stored blobs) in two fresh fleets, each driven to quiescence: both fleets must end with identical content (timestamps, deleted flags, values; shadow: identical application DBIs); " +
			"non-trivial = two versions of one key carry the same timestamp"},
		genOrder, checkOrder)
}

package fleet

import (
	"fmt"
	"testing"
	"time"

	"github.com/PowerDNS/lightningstream/config"
	"github.com/PowerDNS/lightningstream/snapshot"
	"github.com/PowerDNS/lightningstream/syncer"
	"github.com/PowerDNS/lmdb-go/lmdb"

	"verif/harness/internal/fault"
	"verif/harness/internal/lm"
	"verif/harness/internal/model"
	"verif/harness/internal/vcore"
)

// ---------------------------------------------------------------------------
// C16 at the level of the merge loop: what the receiver hands over is taken,
// merged (or found to be nothing new) and RELEASED, so that later snapshots
// keep arriving - also when the same snapshot is handed over again because a
// newer blob of its instance turned out undecodable (or vanished) and the
// previous one became the newest decodable one once more.
// ---------------------------------------------------------------------------

type enumC16Loop struct {
	Native  bool   `json:"native"`
	Limit   int    `json:"limit"`   // memory_decompressed_snapshots = memory_downloaded_snapshots
	Repeats int    `json:"repeats"` // how many times a newer undecodable / vanishing blob follows
	Kind    string `json:"kind"`    // corrupt | vanish
	Peers   int    `json:"peers"`
	// App (C09's use of this harness): in every repeat the application commits a new key after the newer blobs were
	// published (while the old snapshots are being handed over again); at the end the instance's newest own
	// snapshot must carry every one of those keys
	App bool `json:"app,omitempty"`
}

func checkC16Loop(e enumC16Loop, o *vcore.Obs) error {
	env := lm.New(64<<20, 24)
	b := fault.NewBucket()
	conf := BaseConfig("a")
	conf.MemoryDecompressedSnapshots = e.Limit
	conf.MemoryDownloadedSnapshots = e.Limit
	lc := config.LMDB{SchemaTracksChanges: e.Native}
	nd := NewNode("a", env, b.Handle("a"), conf, lc, syncer.Options{})
	defer nd.CloseEnv()
	defer nd.Forget()
	defer nd.Stop()
	y, err := nd.Start()
	if err != nil {
		return err
	}
	clock := time.Date(2026, 3, 1, 0, 0, 0, 0, time.UTC)
	seq := uint64(0)
	publish := func(peer string, key int, val string, valid bool) string {
		clock = clock.Add(time.Second)
		seq++
		name := snapshot.Name(DBName, peer, "GX", clock)
		if !valid {
			b.Put(name, []byte("this is not a gzip stream"))
			return name
		}
		ts := 1_000_000_000_000_000_000 + seq*10 + 5
		if e.Native {
			ts = seq*10 + 5
		}
		blob := peerBlob(e.Native, []SPeer{{DBI: 0, Key: key, TS: ts, Val: model.Bytes(val)}})
		// (peerBlob names the publishing instance "peer" in the meta data; the file name decides)
		b.Put(name, blob)
		return name
	}
	has := func(key int, val string) bool {
		dump, derr := lm.DumpEnv(env.Env)
		if derr != nil {
			return false
		}
		d := dump.DBI(fleetDBIs[0])
		if d == nil {
			return false
		}
		for _, en := range d.Entries {
			if string(en.Key) == string(fleetKeys[key%len(fleetKeys)]) {
				v := en.Val
				if e.Native {
					if h, herr := model.ReadHeader(v); herr == nil {
						v = h.AppVal
					}
				}
				return string(v) == val
			}
		}
		return false
	}
	// runs the loop until cond holds (bounded); the receiver polls every millisecond in the background
	runUntil := func(what string, cond func() bool) error {
		b0, t0 := beats.Load(), time.Now()
		for {
			if el := time.Since(t0); el > 8*time.Second {
				// (8 s of time in which this process was actually running: see WaitFor)
				if float64(beats.Load()-b0) >= 0.6*float64(el/time.Millisecond)/1.2 || el > 10*time.Minute {
					break
				}
				b0, t0 = beats.Load(), time.Now()
			}
			for i := 0; i < 14; i++ {
				if y.Done {
					return fmt.Errorf("sync loop ended: %v", y.Err)
				}
				if y, err = nd.Step(); err != nil {
					return err
				}
			}
			if cond() {
				return nil
			}
			time.Sleep(2 * time.Millisecond)
		}
		return fmt.Errorf("%s: not within 8 s of a running loop (1 ms polling, no storage faults)\n%s", what, goroutinesOf("lightningstream/syncer/receiver"))
	}
	_ = lmdb.Create
	peers := []string{"p1", "p2", "p3"}[:e.Peers]
	// first round: every peer publishes, everything gets merged
	for i, p := range peers {
		publish(p, i, "first-"+p, true)
	}
	for i, p := range peers {
		i, p := i, p
		if err := runUntil("first snapshot of "+p, func() bool { return has(i, "first-"+p) }); err != nil {
			return err
		}
	}
	// then, repeatedly: a newer blob of each peer that is undecodable (or gone by the time it is fetched); the
	// previous snapshot is the newest usable one again and is handed to the loop once more
	appVals := map[string]string{}
	for r := 0; r < e.Repeats; r++ {
		for _, p := range peers {
			name := publish(p, 0, "", false)
			if e.Kind == "vanish" {
				time.Sleep(time.Millisecond)
				b.Remove(name)
			}
		}
		if e.App {
			// give the receiver time to hand the older snapshots over again, then commit (the loop is parked)
			time.Sleep(time.Duration(3+2*r) * time.Millisecond)
			k, v := fleetKeys[(5+r)%len(fleetKeys)], fmt.Sprintf("app-%d", r)
			if err := env.Update(func(txn *lmdb.Txn) error {
				dbi, err := txn.OpenDBI(fleetDBIs[1], lmdb.Create)
				if err != nil {
					return err
				}
				val := []byte(v)
				if e.Native {
					val = model.BuildHeader(uint64(time.Now().UnixNano()), uint64(txn.ID()), 0, nil, val)
				}
				return txn.Put(dbi, k, val, 0)
			}); err != nil {
				return fmt.Errorf("harness: application commit: %v", err)
			}
			appVals[string(k)] = v
		}
		for i := 0; i < 3; i++ {
			if err := runUntil("idle", func() bool { return true }); err != nil {
				return err
			}
			time.Sleep(3 * time.Millisecond)
		}
	}
	// finally a new, valid snapshot of every peer: it must arrive
	for i, p := range peers {
		publish(p, i, "last-"+p, true)
	}
	for i, p := range peers {
		i, p := i, p
		if err := runUntil(fmt.Sprintf("snapshot of %s published after %d undecodable/vanished ones (limit %d)", p, e.Repeats, e.Limit), func() bool { return has(i, "last-"+p) }); err != nil {
			return err
		}
	}
	if e.App {
		// C09: every key the application committed is in the instance's newest own snapshot once the loop is idle
		published := func() (string, bool) {
			own := ""
			for _, n := range b.Names() {
				if instOf(n) == "a" && n > own {
					own = n
				}
			}
			if own == "" {
				return "no own snapshot", false
			}
			data, _ := b.Get(own)
			flat, derr := DecodeBlob(data)
			if derr != nil {
				return own + ": " + derr.Error(), false
			}
			for k, v := range appVals {
				found := false
				for _, d := range flat.DBIs {
					if d.Name != fleetDBIs[1] {
						continue
					}
					for _, en := range d.Entries {
						if string(en.Key) == k && string(en.Value) == v && en.Flags&1 == 0 {
							found = true
						}
					}
				}
				if !found {
					return fmt.Sprintf("%s has no entry %s/%x = %q", own, fleetDBIs[1], k, v), false
				}
			}
			return "", true
		}
		if err := runUntil("publication of the application's commits", func() bool { _, ok := published(); return ok }); err != nil {
			why, _ := published()
			return fmt.Errorf("the application committed %d key(s) while older snapshots of its peers were handed over again (newer blobs %s); the loop is idle and its newest own snapshot still lacks one: %s (%v)", len(appVals), e.Kind, why, err)
		}
	}
	o.NonTrivial(e.Repeats >= e.Limit)
	o.Class("kind-" + e.Kind)
	return nil
}

// ---- C09 in the same situation: a commit made while an older snapshot is handed over again gets published ----

func TestC09Redeliver(t *testing.T) {
	vcore.RunEnum(t, vcore.Config{Property: "C09", Inflight: true,
		Rule: "enumeration over the real sync loop (scheduler), memory limits {1,3}, 1-3 peers, {native, shadow}: every peer publishes a snapshot (merged), then 1-4 times a newer blob that is undecodable / vanishes - the previous snapshot is handed to the loop AGAIN - and the application commits a new key at that moment (loop parked, 3-9 ms after the blobs appeared); then a new valid snapshot of every peer; once the loop is idle the instance's newest own snapshot carries every key the application committed; non-trivial = at least two repeats"},
		func(yield func(enumC16Loop) bool) {
			for _, native := range []bool{true, false} {
				for _, limit := range []int{1, 3} {
					for _, rep := range []int{1, 2, 4} {
						for _, kind := range []string{"corrupt", "vanish"} {
							for _, peers := range []int{1, 3} {
								if !yield(enumC16Loop{Native: native, Limit: limit, Repeats: rep, Kind: kind, Peers: peers, App: true}) {
									return
								}
							}
						}
					}
				}
			}
		}, func(e enumC16Loop, o *vcore.Obs) error {
			err := checkC16Loop(e, o)
			o.NonTrivial(e.Repeats >= 2)
			return err
		})
}

func TestC16LoopRedeliver(t *testing.T) {
	vcore.RunEnum(t, vcore.Config{Property: "C16", Inflight: true,
		Rule: "enumeration over the real sync loop (scheduler) with memory limits {1,2,3}, 1-3 peers, {native, shadow}: every peer publishes a snapshot (merged), then 1-4 times a newer blob that is undecodable / that vanishes before it is fetched - the previous snapshot becomes the newest usable one again and is handed to the loop again -, then a new valid snapshot: that one must be merged within 8 s of running the loop; non-trivial = at least as many repeats as the limit"},
		func(yield func(enumC16Loop) bool) {
			for _, native := range []bool{true, false} {
				for _, limit := range []int{1, 2, 3} {
					for _, rep := range []int{1, 2, 4} {
						for _, kind := range []string{"corrupt", "vanish"} {
							for _, peers := range []int{1, 3} {
								if !yield(enumC16Loop{Native: native, Limit: limit, Repeats: rep, Kind: kind, Peers: peers}) {
									return
								}
							}
						}
					}
				}
			}
		}, checkC16Loop)
}

// Package fleet drives several real Syncer instances against one shared
// in-memory bucket: directly (SendOnce / LoadOnce, single goroutine, fully
// deterministic) and through the real sync loop under a yield-point scheduler.
package fleet

import (
	"bytes"
	"compress/gzip"
	"context"
	"fmt"
	"io"
	"sort"
	"strings"
	"sync"
	"time"

	"github.com/PowerDNS/lightningstream/config"
	"github.com/PowerDNS/lightningstream/lmdbenv/header"
	"github.com/PowerDNS/lightningstream/snapshot"
	"github.com/PowerDNS/lightningstream/snapshot/gogosnapshot"
	"github.com/PowerDNS/lightningstream/syncer"
	"github.com/PowerDNS/lmdb-go/lmdb"

	"verif/harness/internal/fault"
	"verif/harness/internal/lm"
	"verif/harness/internal/model"
)

const DBName = "db"

type Ver = model.SVer

// VerSet is the set of versions of one key (logical content only).
type VerSet []Ver

func (s VerSet) Has(v Ver) bool {
	for _, x := range s {
		if x.SameLogical(v) {
			return true
		}
	}
	return false
}

func (s *VerSet) Add(v Ver) {
	v.Txn = 0
	if v.Del {
		v.Val = nil
	}
	if !s.Has(v) {
		*s = append(*s, v)
	}
}

func (s VerSet) MaxTS() uint64 {
	var m uint64
	for _, x := range s {
		if x.TS > m {
			m = x.TS
		}
	}
	return m
}

// ArgMax returns the versions carrying the highest timestamp.
func (s VerSet) ArgMax() VerSet {
	m := s.MaxTS()
	var out VerSet
	for _, x := range s {
		if x.TS == m {
			out = append(out, x)
		}
	}
	return out
}

func (s VerSet) String() string {
	var sb strings.Builder
	for _, v := range s {
		if v.Del {
			fmt.Fprintf(&sb, "(ts=%d DEL) ", v.TS)
		} else {
			fmt.Fprintf(&sb, "(ts=%d %q) ", v.TS, v.Val)
		}
	}
	return sb.String()
}

type Seen map[string]map[string]*VerSet // dbi -> key -> versions

func (s Seen) Add(dbi, key string, v Ver) {
	if s[dbi] == nil {
		s[dbi] = map[string]*VerSet{}
	}
	if s[dbi][key] == nil {
		s[dbi][key] = &VerSet{}
	}
	s[dbi][key].Add(v)
}

type Inst struct {
	Idx        int
	Name       string
	Env        *lm.Env
	S          *syncer.Syncer
	H          *fault.Handle
	LastSynced header.TxnID
	Dirty      bool // shadow mode: the application wrote since the last capture
	Seen       Seen
	Conf       config.Config
	LC         config.LMDB
	held       *heldApp // an application transaction that is still open (holds the write lock)
}

// heldApp: an application write transaction that stays open until released.
type heldApp struct {
	release chan struct{}
	done    chan error
	once    sync.Once
}

func (h *heldApp) free() { h.once.Do(func() { close(h.release) }) }

type BlobInfo struct {
	Name string
	By   string
	Flat model.Flat
}

type Fleet struct {
	Native  bool
	Pad     bool
	B       *fault.Bucket
	Insts   []*Inst
	Clock   uint64 // shadow mode: the shared monotone clock (logical)
	Written Seen   // every version ever written anywhere
	Blobs   []BlobInfo
	Ctx     context.Context
}

type Options struct {
	Native      bool
	N           int
	Pad         bool // header_extra_padding_block
	DupSortHack bool
	MapSize     int64
	Tweak       func(i int, c *config.Config, lc *config.LMDB)
}

func BaseConfig(inst string) config.Config {
	return config.Config{
		Instance:                    inst,
		LMDBPollInterval:            time.Millisecond,
		StoragePollInterval:         time.Millisecond,
		StorageRetryInterval:        time.Millisecond,
		StorageRetryCount:           3,
		MemoryDownloadedSnapshots:   2,
		MemoryDecompressedSnapshots: 2,
		LMDBs:                       map[string]config.LMDB{},
		// the shipped defaults (config.Default): sweeper and cleaner disabled, but with their parameters set
		Sweeper: config.Sweeper{Enabled: false, RetentionDays: 370, Interval: 6 * time.Hour, FirstInterval: 10 * time.Minute,
			LockDuration: 50 * time.Millisecond, ReleaseDuration: 50 * time.Millisecond},
		Storage: config.Storage{Cleanup: config.Cleanup{Enabled: false, Interval: 5 * time.Minute, MustKeepInterval: 10 * time.Minute,
			RemoveOldInstancesInterval: 7 * 24 * time.Hour}},
	}
}

func New(o Options) *Fleet {
	f := &Fleet{Native: o.Native, Pad: o.Pad, B: fault.NewBucket(), Clock: 1000, Written: Seen{}, Ctx: context.Background()}
	for i := 0; i < o.N; i++ {
		name := fmt.Sprintf("i%d", i)
		conf := BaseConfig(name)
		lc := config.LMDB{SchemaTracksChanges: o.Native, HeaderExtraPaddingBlock: o.Pad, DupSortHack: o.DupSortHack}
		if o.Tweak != nil {
			o.Tweak(i, &conf, &lc)
		}
		ms := o.MapSize
		if ms == 0 {
			ms = 64 << 20
		}
		in := &Inst{Idx: i, Name: name, Env: lm.New(ms, 24), H: f.B.Handle(name), Seen: Seen{}, Conf: conf, LC: lc}
		s, err := syncer.New(DBName, in.Env.Env, in.H, conf, lc, syncer.Options{})
		if err != nil {
			panic(err)
		}
		in.S = s
		f.Insts = append(f.Insts, in)
	}
	return f
}

func (f *Fleet) Close() {
	for i, in := range f.Insts {
		_ = f.FinishHeld(i)
		in.Env.Close()
	}
}

// ---- application side -------------------------------------------------------

// AppWrite commits one application transaction with several changes.
// IntKeyDBI is the name of the application DBI that is created with MDB_INTEGERKEY.
const IntKeyDBI = "n0"

type Change struct {
	DBI string
	Key []byte
	Del bool
	Val []byte
	TS  uint64 // native mode: the timestamp the application stamps (made monotone per key)
	// XFlag (native mode): application-local flag bits (outside the synced set) set in the header next to the
	// deleted flag; they are not part of snapshots and never travel
	XFlag byte
}

// AppCommit applies the changes in one application transaction on instance i.
func (f *Fleet) AppCommit(i int, changes []Change) error {
	if err := f.FinishHeld(i); err != nil {
		return err
	}
	return f.appCommit(i, changes, nil)
}

// AppHold performs the changes in an application transaction that stays OPEN - holding the LMDB write lock
// of instance i - until FinishHeld, or until 2 ms after the next Merge on that instance has started (the
// merge then waits for the lock, and whatever it read before is stale when it gets it).
func (f *Fleet) AppHold(i int, changes []Change) error {
	if err := f.FinishHeld(i); err != nil {
		return err
	}
	h := &heldApp{release: make(chan struct{}), done: make(chan error, 1)}
	holding := make(chan struct{})
	go func() { h.done <- f.appCommit(i, changes, func() { close(holding); <-h.release }) }()
	select {
	case <-holding:
	case err := <-h.done:
		return fmt.Errorf("held transaction ended early: %v", err)
	case <-time.After(20 * time.Second):
		h.free()
		return fmt.Errorf("no write lock within 20 s")
	}
	f.Insts[i].held = h
	return nil
}

// FinishHeld lets an open application transaction of instance i commit and waits for it.
func (f *Fleet) FinishHeld(i int) error {
	in := f.Insts[i]
	h := in.held
	if h == nil {
		return nil
	}
	in.held = nil
	h.free()
	return <-h.done
}

func (f *Fleet) appCommit(i int, changes []Change, hold func()) error {
	in := f.Insts[i]
	before := lm.LastTxnID(in.Env.Env)
	err := in.Env.Update(func(txn *lmdb.Txn) error {
		if hold != nil {
			defer hold()
		}
		for _, ch := range changes {
			fl := uint(lmdb.Create)
			if ch.DBI == IntKeyDBI {
				fl |= lmdb.IntegerKey
			}
			dbi, err := txn.OpenDBI(ch.DBI, fl)
			if err != nil {
				return err
			}
			if f.Native {
				ts := ch.TS
				if old, err := txn.Get(dbi, ch.Key); err == nil {
					if h, err := model.ReadHeader(old); err == nil && h.TS >= ts {
						// the application stamps "now" from the shared monotone clock: strictly later
						// than the version it overwrites (ties only arise between instances that have
						// not seen each other's versions yet)
						ts = h.TS + 1
					}
				}
				fl := byte(0)
				val := ch.Val
				if ch.Del {
					fl, val = 1, nil
				}
				b := model.BuildHeader(ts, uint64(txn.ID()), fl|(ch.XFlag&^1), nil, val)
				if err := txn.Put(dbi, ch.Key, b, 0); err != nil {
					return err
				}
				v := Ver{TS: ts, Del: ch.Del, Val: append([]byte(nil), val...)}
				in.Seen.Add(ch.DBI, string(ch.Key), v)
				f.Written.Add(ch.DBI, string(ch.Key), v)
			} else {
				if ch.Del {
					if err := txn.Del(dbi, ch.Key, nil); err != nil && !lmdb.IsNotFound(err) {
						return err
					}
				} else if err := txn.Put(dbi, ch.Key, ch.Val, 0); err != nil {
					return err
				}
			}
		}
		return nil
	})
	if err != nil {
		return err
	}
	if !f.Native && lm.LastTxnID(in.Env.Env) != before {
		in.Dirty = true
	}
	return nil
}

// ---- content ------------------------------------------------------------------

// Content returns the logical versioned content of instance i (native: the
// application DBIs; shadow: the shadow DBIs) and, in shadow mode, the plain
// application DBIs.
func (f *Fleet) Content(i int) (ver map[string]map[string]Ver, app map[string]map[string][]byte, err error) {
	in := f.Insts[i]
	dump, err := lm.DumpEnv(in.Env.Env)
	if err != nil {
		return nil, nil, err
	}
	ver = map[string]map[string]Ver{}
	app = map[string]map[string][]byte{}
	for _, d := range dump.DBIs {
		isShadow := strings.HasPrefix(d.Name, syncer.SyncDBIShadowPrefix)
		switch {
		case f.Native && !strings.HasPrefix(d.Name, syncer.SyncDBIPrefix), !f.Native && isShadow:
			name := strings.TrimPrefix(d.Name, syncer.SyncDBIShadowPrefix)
			m := map[string]Ver{}
			for _, e := range d.Entries {
				h, err := model.ReadHeader(e.Val)
				if err != nil {
					return nil, nil, fmt.Errorf("instance %s DBI %s key %x: %v", in.Name, d.Name, e.Key, err)
				}
				m[string(e.Key)] = Ver{TS: h.TS, Del: h.Flags&1 != 0, Val: h.AppVal, Txn: h.TxnID}
			}
			ver[name] = m
		case !f.Native && !strings.HasPrefix(d.Name, syncer.SyncDBIPrefix):
			m := map[string][]byte{}
			for _, e := range d.Entries {
				m[string(e.Key)] = e.Val
			}
			app[d.Name] = m
		}
	}
	return ver, app, nil
}

// ---- LS side -------------------------------------------------------------------

// Capture runs mainToShadow with the shared logical clock (shadow mode) in a
// harness-owned transaction and records the versions it created.
func (f *Fleet) Capture(i int) error {
	in := f.Insts[i]
	if f.Native {
		return nil
	}
	before, _, err := f.Content(i)
	if err != nil {
		return err
	}
	// The shared clock is monotone and merging takes time: a detection stamp is strictly later
	// than every version this instance already stores (two instances that have not yet seen
	// each other's versions can still stamp the same time - that is where ties come from).
	for _, m := range before {
		for _, v := range m {
			if v.TS >= f.Clock {
				f.Clock = v.TS + 1
			}
		}
	}
	ts := f.Clock
	err = in.Env.Update(func(txn *lmdb.Txn) error {
		return in.S.VerifMainToShadow(f.Ctx, txn, header.Timestamp(ts))
	})
	if err != nil {
		return fmt.Errorf("mainToShadow on %s: %w", in.Name, err)
	}
	after, app, err := f.Content(i)
	if err != nil {
		return err
	}
	for dbi, m := range after {
		for k, v := range m {
			if old, ok := before[dbi][k]; ok && old.SameLogical(v) {
				continue
			}
			// a new version: must be stamped with the detection time and reflect the application's state
			if v.TS != ts {
				return fmt.Errorf("capture on %s: %s/%x got timestamp %d, detection time is %d", in.Name, dbi, k, v.TS, ts)
			}
			av, present := app[dbi][k]
			if v.Del == present || (!v.Del && !bytes.Equal(av, v.Val)) {
				return fmt.Errorf("capture on %s: %s/%x captured as (del=%v %q) but the application has (present=%v %q)", in.Name, dbi, k, v.Del, v.Val, present, av)
			}
			in.Seen.Add(dbi, k, v)
			f.Written.Add(dbi, k, v)
		}
	}
	// ... and complete: after the pass the live entries of every shadow DBI are exactly the
	// application's entries (a committed put or delete that is not turned into a version would be
	// reverted by the next merge and never reach the other instances)
	for dbi, am := range app {
		for k, av := range am {
			v, ok := after[dbi][k]
			if !ok || v.Del || !bytes.Equal(v.Val, av) {
				return fmt.Errorf("capture on %s: the application has %s/%x = %q but after the capture pass the shadow DBI has %v (present=%v): the committed write was not captured", in.Name, dbi, k, av, v, ok)
			}
		}
	}
	for dbi, m := range after {
		for k, v := range m {
			if v.Del {
				continue
			}
			if _, present := app[dbi][k]; !present {
				return fmt.Errorf("capture on %s: the application does not have %s/%x (deleted or never written) but after the capture pass the shadow DBI still holds it live %v: the committed delete was not captured", in.Name, dbi, k, v)
			}
		}
	}
	in.Dirty = false
	in.LastSynced = header.TxnID(lm.LastTxnID(in.Env.Env))
	return nil
}

// DecodeBlob decodes a stored blob with the reference codec.
func DecodeBlob(data []byte) (model.Flat, error) {
	r, err := gzip.NewReader(bytes.NewReader(data))
	if err != nil {
		return model.Flat{}, err
	}
	pb, err := io.ReadAll(r)
	if err != nil {
		return model.Flat{}, err
	}
	var g gogosnapshot.Snapshot
	if err := g.Unmarshal(pb); err != nil {
		return model.Flat{}, err
	}
	return model.FlatFromGogo(&g), nil
}

// Upload runs SendOnce on instance i and returns the name of the blob stored.
func (f *Fleet) Upload(i int) (string, error) {
	in := f.Insts[i]
	if !f.Native && in.Dirty {
		if err := f.Capture(i); err != nil {
			return "", err
		}
	}
	n0 := f.B.LogLen()
	txnID, err := in.S.SendOnce(f.Ctx, in.Env.Env)
	if err != nil {
		return "", fmt.Errorf("SendOnce on %s: %w", in.Name, err)
	}
	in.LastSynced = txnID
	var name string
	for _, op := range f.B.Log()[n0:] {
		if op.Kind == "store" && op.Applied && op.By == in.Name {
			name = op.Name
		}
	}
	if name == "" {
		return "", fmt.Errorf("SendOnce on %s stored nothing", in.Name)
	}
	data, _ := f.B.Get(name)
	flat, err := DecodeBlob(data)
	if err != nil {
		return "", fmt.Errorf("uploaded blob %s does not decode with the reference codec: %w", name, err)
	}
	f.Blobs = append(f.Blobs, BlobInfo{Name: name, By: in.Name, Flat: flat})
	return name, nil
}

// Merge runs LoadOnce of the named blob on instance i, with the bookkeeping of
// the sync loop. It returns whether a transaction was recorded.
func (f *Fleet) Merge(i int, blobName string) (wrote bool, localChanged bool, err error) {
	in := f.Insts[i]
	if !f.Native && in.Dirty {
		if err := f.Capture(i); err != nil {
			return false, false, err
		}
	}
	data, ok := f.B.Get(blobName)
	if !ok {
		return false, false, fmt.Errorf("harness: no blob %s", blobName)
	}
	snap, err := snapshot.LoadData(data)
	if err != nil {
		return false, false, fmt.Errorf("LoadData(%s): %w", blobName, err)
	}
	ni, err := snapshot.ParseName(blobName)
	if err != nil {
		return false, false, err
	}
	before := lm.LastTxnID(in.Env.Env)
	if h := in.held; h != nil {
		go func() {
			time.Sleep(2 * time.Millisecond)
			h.free()
		}()
	}
	txnID, lc, err := in.S.LoadOnce(f.Ctx, in.Env.Env, ni.InstanceID, snapshot.Update{Snapshot: snap, NameInfo: ni}, in.LastSynced)
	if herr := f.FinishHeld(i); herr != nil && err == nil {
		err = fmt.Errorf("harness: held application transaction: %v", herr)
	}
	if err != nil {
		return false, false, fmt.Errorf("LoadOnce(%s) on %s: %w", blobName, in.Name, err)
	}
	if !lc {
		in.LastSynced = txnID
	}
	// the instance has now seen every version in that blob
	for _, b := range f.Blobs {
		if b.Name == blobName {
			for _, d := range b.Flat.DBIs {
				for _, e := range d.Entries {
					in.Seen.Add(d.Name, string(e.Key), Ver{TS: e.TS, Del: e.Flags&1 != 0, Val: e.Value})
				}
			}
		}
	}
	return lm.LastTxnID(in.Env.Env) != before, lc, nil
}

// CheckInstance verifies the stepwise oracle for instance i: every stored
// version is one of the highest-timestamp versions this instance has seen, and
// nothing it has seen is missing.
func (f *Fleet) CheckInstance(i int, afterLS bool) error {
	in := f.Insts[i]
	ver, app, err := f.Content(i)
	if err != nil {
		return err
	}
	for dbi, m := range ver {
		for k, v := range m {
			vs := in.Seen[dbi][k]
			if vs == nil {
				return fmt.Errorf("%s: %s/%x holds %v which nobody wrote", in.Name, dbi, k, VerSet{v})
			}
			if !vs.ArgMax().Has(v) {
				return fmt.Errorf("%s: %s/%x holds %vbut the newest versions it has seen are %v(all seen: %v)", in.Name, dbi, k, VerSet{v}, vs.ArgMax(), *vs)
			}
		}
	}
	for dbi, m := range in.Seen {
		for k, vs := range m {
			if _, ok := ver[dbi][k]; !ok {
				if f.Native || !in.Dirty {
					return fmt.Errorf("%s: %s/%x lost: seen %vbut no entry stored", in.Name, dbi, k, *vs)
				}
			}
		}
	}
	if !f.Native && afterLS {
		// application DBIs are exactly the live entries
		for dbi, m := range ver {
			for k, v := range m {
				av, present := app[dbi][k]
				if v.Del && present {
					return fmt.Errorf("%s: %s/%x is deleted but still in the application DBI", in.Name, dbi, k)
				}
				if !v.Del && (!present || !bytes.Equal(av, v.Val)) {
					return fmt.Errorf("%s: %s/%x live %q but application DBI has present=%v %q", in.Name, dbi, k, v.Val, present, av)
				}
			}
		}
		for dbi, m := range app {
			for k := range m {
				if _, ok := ver[dbi][k]; !ok {
					return fmt.Errorf("%s: application key %s/%x has no shadow entry", in.Name, dbi, k)
				}
			}
		}
	}
	return nil
}

// NewestBlobOf returns the newest blob name of an instance in the bucket.
func (f *Fleet) NewestBlobOf(inst string) string {
	var best string
	prefix := DBName + "__" + inst + "__"
	for _, n := range f.B.Names() {
		if strings.HasPrefix(n, prefix) && n > best {
			best = n
		}
	}
	return best
}

// Quiesce: every instance uploads, every instance merges the newest snapshot of
// every other instance, repeated until nothing changes any more. Returns the
// number of rounds; an error if the bound is exceeded.
func (f *Fleet) Quiesce() (rounds int, err error) {
	n := len(f.Insts)
	for r := 0; r < 2*n+2; r++ {
		changed := false
		for i, in := range f.Insts {
			if err := f.FinishHeld(i); err != nil {
				return r, err
			}
			// like the sync loop: an instance uploads when it has never done so, or when its LMDB has changed
			// since the last transaction it synced (shadow mode: the harness-owned capture passes are not
			// part of that bookkeeping, so the first round uploads unconditionally there)
			need := (r == 0 && (!f.Native || f.NewestBlobOf(in.Name) == "")) || header.TxnID(lm.LastTxnID(in.Env.Env)) > in.LastSynced || in.Dirty
			if need {
				if lm.LastTxnID(in.Env.Env) == 0 && !in.Dirty {
					continue // empty LMDB: the loop would not upload either
				}
				if _, err := f.Upload(i); err != nil {
					return r, err
				}
				if r > 0 {
					changed = true
				}
			}
		}
		for i := range f.Insts {
			for j, other := range f.Insts {
				if i == j {
					continue
				}
				b := f.NewestBlobOf(other.Name)
				if b == "" {
					continue
				}
				wrote, _, err := f.Merge(i, b)
				if err != nil {
					return r, err
				}
				if wrote {
					changed = true
				}
				if err := f.CheckInstance(i, true); err != nil {
					return r, fmt.Errorf("quiescence round %d: %w", r, err)
				}
			}
		}
		if !changed {
			return r + 1, nil
		}
	}
	return 2*n + 2, fmt.Errorf("no quiescence after %d rounds of exchanging snapshots", 2*n+2)
}

// CheckConverged: all instances hold identical logical content, and it is the
// LWW winner of everything ever written.
func (f *Fleet) CheckConverged() error {
	ref, refApp, err := f.Content(0)
	if err != nil {
		return err
	}
	for i := 1; i < len(f.Insts); i++ {
		ver, app, err := f.Content(i)
		if err != nil {
			return err
		}
		if d := diffVer(ref, ver); d != "" {
			return fmt.Errorf("instances %s and %s differ after quiescence: %s", f.Insts[0].Name, f.Insts[i].Name, d)
		}
		if !f.Native {
			if d := diffApp(refApp, app); d != "" {
				return fmt.Errorf("application DBIs of %s and %s differ after quiescence: %s", f.Insts[0].Name, f.Insts[i].Name, d)
			}
		}
	}
	for dbi, m := range f.Written {
		for k, vs := range m {
			v, ok := ref[dbi][k]
			if !ok {
				return fmt.Errorf("%s/%x was written (%v) but is absent everywhere after quiescence", dbi, k, *vs)
			}
			if !vs.ArgMax().Has(v) {
				return fmt.Errorf("%s/%x converged to %vwhich is not a last-writer-wins winner of %v", dbi, k, VerSet{v}, *vs)
			}
		}
	}
	for dbi, m := range ref {
		for k, v := range m {
			if f.Written[dbi][k] == nil {
				return fmt.Errorf("%s/%x = %v exists after quiescence but nobody wrote it", dbi, k, VerSet{v})
			}
		}
	}
	return nil
}

func diffVer(a, b map[string]map[string]Ver) string {
	names := map[string]bool{}
	for n := range a {
		names[n] = true
	}
	for n := range b {
		names[n] = true
	}
	var ns []string
	for n := range names {
		ns = append(ns, n)
	}
	sort.Strings(ns)
	for _, n := range ns {
		keys := map[string]bool{}
		for k := range a[n] {
			keys[k] = true
		}
		for k := range b[n] {
			keys[k] = true
		}
		for k := range keys {
			x, okx := a[n][k]
			y, oky := b[n][k]
			if okx != oky {
				return fmt.Sprintf("%s/%x present=%v vs present=%v", n, k, okx, oky)
			}
			if !x.SameLogical(y) {
				return fmt.Sprintf("%s/%x %vvs %v", n, k, VerSet{x}, VerSet{y})
			}
		}
	}
	return ""
}

func diffApp(a, b map[string]map[string][]byte) string {
	for n, m := range a {
		for k, v := range m {
			if w, ok := b[n][k]; !ok || !bytes.Equal(v, w) {
				return fmt.Sprintf("%s/%x %q vs present=%v %q", n, k, v, ok, w)
			}
		}
	}
	for n, m := range b {
		for k := range m {
			if _, ok := a[n][k]; !ok {
				return fmt.Sprintf("%s/%x only on one side", n, k)
			}
		}
	}
	return ""
}

func lmDump(in *Inst) (lm.Dump, error) { return lm.DumpEnv(in.Env.Env) }

// NewBucketHandle returns a handle on a fresh private bucket.
func NewBucketHandle() *fault.Handle { return fault.NewBucket().Handle("solo") }

// MkUpdate turns a model snapshot into an Update the way the downloader does
// (reference Marshal -> custom Unmarshal).
func MkUpdate(m model.Snap, ts time.Time) snapshot.Update {
	pb, err := m.ToGogo().Marshal()
	if err != nil {
		panic(err)
	}
	var s snapshot.Snapshot
	if err := s.Unmarshal(pb); err != nil {
		panic(fmt.Sprintf("harness: snapshot does not load: %v", err))
	}
	return snapshot.Update{Snapshot: &s, NameInfo: snapshot.NameInfo{Kind: snapshot.KindSnapshot, InstanceID: m.Meta.InstanceID,
		Timestamp: ts, SyncerName: DBName, GenerationID: "GX", Extension: snapshot.DefaultExtension}}
}

// DecodeRaw gunzips a blob.
func DecodeRaw(data []byte) ([]byte, error) {
	r, err := gzip.NewReader(bytes.NewReader(data))
	if err != nil {
		return nil, err
	}
	return io.ReadAll(r)
}

func gzBytes(b []byte) []byte {
	var buf bytes.Buffer
	w, _ := gzip.NewWriterLevel(&buf, gzip.BestSpeed)
	_, _ = w.Write(b)
	_ = w.Close()
	return buf.Bytes()
}

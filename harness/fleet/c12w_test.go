package fleet

import (
	"context"
	"fmt"
	"testing"
	"time"
	"verif/harness/internal/fault"

	"github.com/PowerDNS/lightningstream/config"
	"github.com/PowerDNS/lightningstream/snapshot"
	"pgregory.net/rapid"

	"verif/harness/internal/vcore"
)

// ---------------------------------------------------------------------------
// C12 with the real wiring: the cleaner is told what has been "merged and
// uploaded afterwards" by the syncer itself (SendOnce -> SetCommitted), not by
// the harness. Direct driver: application writes, SendOnce, LoadOnce of a
// peer's newest snapshot, and cleaner runs at generated (virtual) times.
// Oracle for every Delete the cleaner issues for the NEWEST snapshot of an
// instance X: X has been silent longer than the stale interval, and the
// cleaner's instance merged that very snapshot (or a later one) and uploaded a
// snapshot of its own after that merge. For its own instance this can never be
// the case: nothing is uploaded "afterwards" without becoming the newest.
// ---------------------------------------------------------------------------

type C12WOp struct {
	Kind string `json:"kind"` // write | upload | merge | clean
	Inst int    `json:"inst"`
	From int    `json:"from,omitempty"`
	Adv  int    `json:"advance,omitempty"` // clean: how far the virtual clock moves first (index into c12wAdvances)
	// Old (merge): not the newest but the previous snapshot of the peer is merged - its download had started before
	// the newer one was published, or the newer one cannot be downloaded
	Old bool `json:"old,omitempty"`
}

type C12WCase struct {
	Native bool     `json:"native"`
	N      int      `json:"n"`
	Ops    []C12WOp `json:"ops"`
}

const (
	c12wMustKeep  = 10 * time.Minute
	c12wRemoveOld = 24 * time.Hour
)

var c12wAdvances = []time.Duration{0, time.Second, 11 * time.Minute, 25 * time.Hour, 60 * time.Hour}

func checkC12Wired(c C12WCase, o *vcore.Obs) error {
	f := New(Options{Native: c.Native, N: c.N, Tweak: func(i int, conf *config.Config, lc *config.LMDB) {
		conf.Storage.Cleanup = config.Cleanup{Enabled: true, Interval: time.Hour, MustKeepInterval: c12wMustKeep, RemoveOldInstancesInterval: c12wRemoveOld}
	}})
	defer f.Close()
	now := time.Now()
	merged := make([]map[string]time.Time, c.N)    // per cleaner instance: newest snapshot time of X it has merged
	committed := make([]map[string]time.Time, c.N) // ... as of its own latest upload
	for i := range merged {
		merged[i], committed[i] = map[string]time.Time{}, map[string]time.Time{}
	}
	nWrites := 0
	deletedNewest, deletedOld := 0, 0
	failedUploads := 0
	mergedOld := 0
	logPos := 0
	newest := func(inst string) string { return f.NewestBlobOf(inst) }
	for oi, op := range c.Ops {
		i := op.Inst % c.N
		step := fmt.Sprintf("step %d (%s i%d)", oi, op.Kind, i)
		switch op.Kind {
		case "write":
			nWrites++
			val := []byte(fmt.Sprintf("v%d", nWrites))
			if err := f.AppCommit(i, []Change{{DBI: "d0", Key: fleetKeys[i%3], Val: val, TS: uint64(1000 + nWrites)}}); err != nil {
				return fmt.Errorf("%s: harness: %v", step, err)
			}
		case "upload":
			if len(f.Insts[i].Seen) == 0 && !f.Insts[i].Dirty {
				continue // empty LMDB: the loop would not upload either
			}
			if _, err := f.Upload(i); err != nil {
				return fmt.Errorf("%s: %w", step, err)
			}
			for x, t := range merged[i] {
				committed[i][x] = t
			}
		case "upload-fails":
			// every attempt of the upload fails: nothing is stored, so nothing counts as "uploaded afterwards"
			in := f.Insts[i]
			if len(in.Seen) == 0 && !in.Dirty {
				continue
			}
			if !c.Native && in.Dirty {
				if err := f.Capture(i); err != nil {
					return fmt.Errorf("%s: %w", step, err)
				}
			}
			var plan []string
			for k := 0; k < in.Conf.StorageRetryCount+1; k++ {
				plan = append(plan, fault.Fail)
			}
			in.H.SetPlan("store", plan)
			n0 := f.B.LogLen()
			_, err := in.S.SendOnce(f.Ctx, in.Env.Env)
			in.H.ClearPlans()
			for _, lop := range f.B.Log()[n0:] {
				if lop.Kind == "store" && lop.Applied {
					return fmt.Errorf("%s: harness: a store got through", step)
				}
			}
			if err == nil {
				return fmt.Errorf("%s: SendOnce reported success although every one of its %d Store attempts failed and nothing was stored", step, in.Conf.StorageRetryCount)
			}
			failedUploads++
		case "merge":
			j := op.From % c.N
			if j == i {
				continue
			}
			b := newest(f.Insts[j].Name)
			if op.Old {
				var mine []string
				for _, bl := range f.Blobs {
					if bl.By == f.Insts[j].Name {
						if _, still := f.B.Get(bl.Name); still {
							mine = append(mine, bl.Name)
						}
					}
				}
				if len(mine) < 2 {
					continue
				}
				b = mine[len(mine)-2]
				mergedOld++
			}
			if b == "" {
				continue
			}
			if _, _, err := f.Merge(i, b); err != nil {
				return fmt.Errorf("%s: %w", step, err)
			}
			ni, _ := snapshot.ParseName(b)
			if ni.Timestamp.After(merged[i][f.Insts[j].Name]) {
				merged[i][f.Insts[j].Name] = ni.Timestamp
			}
		case "clean":
			now = now.Add(c12wAdvances[op.Adv%len(c12wAdvances)])
			if rn := time.Now(); rn.After(now) {
				now = rn
			}
			// what is the newest snapshot per instance right before the run
			newestBefore := map[string]string{}
			for _, in := range f.Insts {
				newestBefore[in.Name] = newest(in.Name)
			}
			if err := f.Insts[i].S.VerifCleaner().RunOnce(context.Background(), now); err != nil {
				return fmt.Errorf("%s: cleaner: %v", step, err)
			}
			for _, lop := range f.B.Log()[logPos:] {
				if lop.Kind != "delete" || !lop.Applied {
					continue
				}
				ni, err := snapshot.ParseName(lop.Name)
				if err != nil || ni.SyncerName != DBName {
					return fmt.Errorf("%s: cleaner deleted %q, which is not a snapshot of this database", step, lop.Name)
				}
				if lop.By != f.Insts[i].Name {
					return fmt.Errorf("%s: harness: delete by %s during a run of %s", step, lop.By, f.Insts[i].Name)
				}
				if lop.Name != newestBefore[ni.InstanceID] {
					deletedOld++
					continue
				}
				deletedNewest++
				if ni.InstanceID == f.Insts[i].Name {
					return fmt.Errorf("%s: the cleaner of %s deleted %s, the newest snapshot of its OWN instance (nothing was uploaded after it)", step, f.Insts[i].Name, lop.Name)
				}
				if now.Sub(ni.Timestamp) <= c12wRemoveOld {
					return fmt.Errorf("%s: newest snapshot %s of %s deleted although the instance has been silent for only %v (stale interval %v)", step, lop.Name, ni.InstanceID, now.Sub(ni.Timestamp), c12wRemoveOld)
				}
				if t, ok := committed[i][ni.InstanceID]; !ok || t.Before(ni.Timestamp) {
					return fmt.Errorf("%s: the cleaner of %s deleted the newest snapshot %s of the stale instance %s although %s has not (merged it and uploaded a snapshot of its own afterwards): merged up to %v, merged-and-uploaded up to %v", step, f.Insts[i].Name, lop.Name, ni.InstanceID, f.Insts[i].Name, merged[i][ni.InstanceID], t)
				}
			}
		}
		logPos = f.B.LogLen()
	}
	o.NonTrivial(deletedNewest > 0 || deletedOld > 0)
	o.ClassIf(deletedNewest > 0, "stale-instance-newest-snapshot-deleted-legitimately")
	o.ClassIf(deletedOld > 0, "superseded-snapshot-deleted")
	o.ClassIf(c.Native, "native")
	o.ClassIf(!c.Native, "shadow")
	o.ClassIf(failedUploads > 0, "upload-that-failed-on-every-attempt")
	o.ClassIf(mergedOld > 0, "merged-a-snapshot-that-was-no-longer-the-newest-of-its-instance")
	return nil
}

func genC12Wired(t *rapid.T) C12WCase {
	c := C12WCase{Native: rapid.Bool().Draw(t, "native"), N: rapid.IntRange(2, 3).Draw(t, "n")}
	n := rapid.IntRange(4, 24).Draw(t, "nops")
	for i := 0; i < n; i++ {
		op := C12WOp{Kind: rapid.SampledFrom([]string{"write", "write", "upload", "upload", "upload-fails", "merge", "merge", "clean", "clean"}).Draw(t, "kind"), Inst: rapid.IntRange(0, c.N-1).Draw(t, "inst")}
		switch op.Kind {
		case "merge":
			op.From = rapid.IntRange(0, c.N-1).Draw(t, "from")
			op.Old = rapid.IntRange(0, 3).Draw(t, "old") == 0
		case "clean":
			op.Adv = rapid.IntRange(0, len(c12wAdvances)-1).Draw(t, "adv")
		}
		c.Ops = append(c.Ops, op)
	}
	// often: a tail that makes a stale-instance decision possible - j has published, i (maybe) merges it and
	// (maybe) uploads afterwards, then i's cleaner looks twice, a day later and once more after the keep interval
	if rapid.IntRange(0, 2).Draw(t, "tail") > 0 {
		i := rapid.IntRange(0, c.N-1).Draw(t, "ti")
		j := (i + 1 + rapid.IntRange(0, c.N-2).Draw(t, "tj")) % c.N
		c.Ops = append(c.Ops, C12WOp{Kind: "write", Inst: j}, C12WOp{Kind: "upload", Inst: j})
		tOld := rapid.IntRange(0, 3).Draw(t, "told") == 0
		if tOld {
			// j publishes once more; what i merges (later than that) is j's previous snapshot
			c.Ops = append(c.Ops, C12WOp{Kind: "write", Inst: j}, C12WOp{Kind: "upload", Inst: j})
		}
		if rapid.IntRange(0, 3).Draw(t, "tmerge") > 0 {
			c.Ops = append(c.Ops, C12WOp{Kind: "merge", Inst: i, From: j, Old: tOld})
		}
		switch rapid.IntRange(0, 5).Draw(t, "tupload") {
		case 5:
			// nothing is uploaded, but the same snapshot arrives once more (a merge that changes nothing)
			c.Ops = append(c.Ops, C12WOp{Kind: "merge", Inst: i, From: j}, C12WOp{Kind: "merge", Inst: i, From: j})
		case 0:
		case 1:
			// the upload after the merge fails on every attempt: the merge is not "followed by an upload"
			c.Ops = append(c.Ops, C12WOp{Kind: "write", Inst: i}, C12WOp{Kind: "upload-fails", Inst: i})
		default:
			c.Ops = append(c.Ops, C12WOp{Kind: "write", Inst: i}, C12WOp{Kind: "upload", Inst: i})
		}
		c.Ops = append(c.Ops, C12WOp{Kind: "clean", Inst: i, Adv: 3}, C12WOp{Kind: "clean", Inst: i, Adv: 2}, C12WOp{Kind: "clean", Inst: i, Adv: 4})
	}
	return c
}

func TestC12Wired(t *testing.T) {
	vcore.Run(t, vcore.Config{Property: "C12",
		Rule: "rapid histories over 2-3 real instances (direct driver): application writes, SendOnce, SendOnce whose Store fails on every attempt (must report an error; nothing counts as uploaded), LoadOnce of a peer's newest snapshot, cleaner runs of any instance at a virtual clock that advances by 0 s .. 60 h (keep interval 10 min, stale interval 24 h); the cleaner learns what is merged-and-uploaded from the syncer itself; every Delete of an instance's NEWEST snapshot must be justified by the C12 rule (silent > stale interval, merged by the cleaner's instance and followed by an upload of its own; never for the cleaner's own instance), every deleted name is a snapshot of this database; non-trivial = the cleaner deleted something"},
		genC12Wired, checkC12Wired)
}

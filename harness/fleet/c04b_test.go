package fleet

import (
	"context"
	"fmt"
	"math"
	"testing"
	"time"

	"github.com/PowerDNS/lightningstream/config"
	"github.com/PowerDNS/lightningstream/lmdbenv/header"
	"github.com/PowerDNS/lightningstream/syncer"
	"github.com/PowerDNS/lightningstream/syncer/sweeper"
	"github.com/PowerDNS/lmdb-go/lmdb"
	"github.com/sirupsen/logrus"
	"pgregory.net/rapid"

	"verif/harness/internal/lm"
	"verif/harness/internal/model"
	"verif/harness/internal/vcore"
)

// ---------------------------------------------------------------------------
// C04 part B: for every sweeper configuration the load cutoff is never older
// than the sweeper cutoff (swept markers do not bounce), and never in the
// future (young markers still propagate).
// ---------------------------------------------------------------------------

type C04Conf struct {
	RetentionDays float32 `json:"retention_days"`
	CutoffNs      int64   `json:"retention_load_cutoff_ns"`
	E2E           bool    `json:"e2e,omitempty"`
	AgeOverNs     int64   `json:"age_over_retention_ns,omitempty"` // e2e: marker age = retention + this
	// e2e: the peer snapshot that still carries the swept marker was itself taken this long ago (the last
	// snapshot of an instance that has been offline for a while, re-loaded at start-up): what counts for
	// the cutoff is the time of loading, not the age of the snapshot
	SnapAgeNs int64 `json:"snapshot_age_ns,omitempty"`
	// e2e: the instance runs in shadow mode - the versions live in the shadow DBI, which is what the sweeper sweeps and what
	// snapshots are merged into
	Shadow bool `json:"shadow,omitempty"`
}

// maxDays: largest retention representable as a time.Duration
const maxDays = 106751

func genC04Conf(t *rapid.T) C04Conf {
	var c C04Conf
	switch rapid.IntRange(0, 5).Draw(t, "dk") {
	case 0:
		c.RetentionDays = rapid.SampledFrom([]float32{0, 0.001, 0.5, 1, 7, 30, 370, 3650, 20000, 35583, 35584, 36500, 50000, 71166, 71167, 100000, maxDays}).Draw(t, "days_b")
	case 1:
		c.RetentionDays = float32(rapid.IntRange(0, maxDays).Draw(t, "days_i"))
	case 2:
		c.RetentionDays = float32(rapid.Float64Range(0, 1000).Draw(t, "days_f"))
	default:
		c.RetentionDays = float32(rapid.Float64Range(0, maxDays).Draw(t, "days_any"))
	}
	r := time.Duration(c.RetentionDays * float32(24*time.Hour))
	switch rapid.IntRange(0, 7).Draw(t, "ck") {
	case 0:
		c.CutoffNs = 0
	case 1:
		c.CutoffNs = -int64(rapid.Int64Range(1, math.MaxInt64).Draw(t, "neg"))
	case 2:
		c.CutoffNs = int64(rapid.Int64Range(1, int64(time.Hour)).Draw(t, "small"))
	case 3:
		c.CutoffNs = int64(r)
	case 4:
		c.CutoffNs = int64(r) + int64(rapid.Int64Range(-5, 5).Draw(t, "near"))
	case 5:
		c.CutoffNs = int64(r)/4*3 + int64(rapid.Int64Range(-5, 5).Draw(t, "near34"))
	case 6:
		c.CutoffNs = math.MaxInt64 - int64(rapid.Int64Range(0, 10).Draw(t, "huge"))
	default:
		c.CutoffNs = rapid.Int64Range(1, math.MaxInt64).Draw(t, "any")
	}
	return c
}

func checkC04Conf(c C04Conf, o *vcore.Obs) error {
	sw := config.Sweeper{Enabled: true, RetentionDays: c.RetentionDays, RetentionLoadCutoffDuration: time.Duration(c.CutoffNs)}
	r := sw.RetentionDuration()
	m := sw.RetentionDurationMinusCutoff()
	if r < 0 {
		return fmt.Errorf("RetentionDuration() negative: %v", r)
	}
	if m > r {
		return fmt.Errorf("load cutoff older than the sweeper cutoff: retention=%v, retention-minus-cutoff=%v (a marker swept at t is accepted again at any later t)", r, m)
	}
	if m < 0 {
		return fmt.Errorf("retention-minus-cutoff negative (%v) for retention %v: every marker would be refused as stale", m, r)
	}
	if r > 0 && m == 0 {
		return fmt.Errorf("retention-minus-cutoff is zero for retention %v: no marker would ever be accepted", r)
	}
	// times t_sweep <= t_load, as header timestamps
	o.NonTrivial(c.CutoffNs > 0 && c.RetentionDays > 0)
	o.ClassIf(c.CutoffNs <= 0, "default-1-percent")
	o.ClassIf(c.CutoffNs > int64(r), "cutoff-larger-than-retention")
	o.ClassIf(time.Duration(c.SnapAgeNs) >= 24*time.Hour, "peer-snapshot-older-than-a-day")
	o.ClassIf(c.RetentionDays > 35583, "retention>35583d")
	return nil
}

func TestC04Config(t *testing.T) {
	vcore.Run(t, vcore.Config{Property: "C04",
		Rule: "rapid sweeper configurations: retention_days in [0, 106751] (boundary list + uniform), retention_load_cutoff_duration in {0, negative, small, = retention, ~3/4 retention, huge, any}: 0 <= RetentionDurationMinusCutoff() <= RetentionDuration() (and > 0 when the retention is), i.e. for all t_sweep <= t_load the load cutoff is not older than the sweeper cutoff; non-trivial = positive cutoff and positive retention"},
		genC04Conf, checkC04Conf)
}

// End to end: a marker older than the retention is swept on A; a peer snapshot
// that still carries it is merged on A afterwards: the key stays absent. A
// marker younger than the retention is not swept and is accepted from a peer.
func checkC04E2E(c C04Conf, o *vcore.Obs) error {
	sw := config.Sweeper{Enabled: true, RetentionDays: c.RetentionDays, RetentionLoadCutoffDuration: time.Duration(c.CutoffNs), LockDuration: time.Hour}
	r := sw.RetentionDuration()
	env := lm.New(16<<20, 8)
	defer env.Close()
	conf := BaseConfig("a")
	conf.Sweeper = sw
	bucket := NewBucketHandle()
	s, err := syncer.New(DBName, env.Env, bucket, conf, config.LMDB{SchemaTracksChanges: !c.Shadow}, syncer.Options{})
	if err != nil {
		return err
	}
	entDBI := "d" // where the versions live
	if c.Shadow {
		entDBI = syncer.SyncDBIShadowPrefix + "d"
		o.Class("e2e-shadow-mode")
	}
	now := time.Now()
	expiredTS := now.Add(-r).Add(-time.Duration(c.AgeOverNs))
	youngTS := now.Add(-r / 2)
	if r < time.Minute {
		o.Class("e2e-skipped-tiny-retention")
		return nil
	}
	// a retention that reaches back before 1970 cannot have an expired marker at all
	// (timestamps are unsigned): only the "young markers stay / are accepted" half applies
	haveExpired := expiredTS.UnixNano() > 0
	if r/2 > 24*time.Hour {
		youngTS = now.Add(-24 * time.Hour)
	}
	put := func(key string, ts time.Time, del bool) error {
		return env.Update(func(txn *lmdb.Txn) error {
			dbi, err := txn.OpenDBI(entDBI, lmdb.Create)
			if err != nil {
				return err
			}
			fl := byte(0)
			var val []byte
			if del {
				fl = 1
			} else {
				val = []byte("v")
			}
			if c.Shadow {
				// the application's DBI holds the live entries
				main, err := txn.OpenDBI("d", lmdb.Create)
				if err != nil {
					return err
				}
				if !del {
					if err := txn.Put(main, []byte(key), val, 0); err != nil {
						return err
					}
				}
			}
			return txn.Put(dbi, []byte(key), model.BuildHeader(uint64(ts.UnixNano()), uint64(txn.ID()), fl, nil, val), 0)
		})
	}
	if haveExpired {
		if err := put("expired", expiredTS, true); err != nil {
			return err
		}
	}
	if err := put("young", youngTS, true); err != nil {
		return err
	}
	liveTS := expiredTS
	if !haveExpired {
		liveTS = time.Unix(0, 1)
	}
	if err := put("live", liveTS, false); err != nil {
		return err
	}
	// a live entry older than the expired marker's time: the (stale) marker from the peer must still delete it
	oldLiveTS := expiredTS.Add(-24 * time.Hour)
	haveOldLive := haveExpired && oldLiveTS.UnixNano() > 0
	if haveOldLive {
		if err := put("oldlive", oldLiveTS, false); err != nil {
			return err
		}
	}
	// a marker that is older than the load cutoff but not yet past the retention (the sweeper must keep it): an older
	// live version of its key that arrives later from a peer that never saw the deletion must not bring the key back
	m := sw.RetentionDurationMinusCutoff()
	lateTS := now.Add(-(m + (r-m)/2))
	haveLate := m > 0 && m < r && (r-m)/2 >= 30*time.Second && lateTS.Add(-time.Hour).UnixNano() > 0
	if haveLate {
		if err := put("late", lateTS, true); err != nil {
			return err
		}
	}
	// Before the sweeper gets to them, markers travel in every snapshot for as long as they exist -
	// also the ones already older than the retention (a peer may still hold an older live version)
	if _, err := s.SendOnce(context.Background(), env.Env); err != nil {
		return fmt.Errorf("SendOnce: %v", err)
	}
	if ls, err := bucket.List(context.Background(), ""); err == nil && len(ls.Names()) > 0 {
		names := ls.Names()
		data, err := bucket.Load(context.Background(), names[len(names)-1])
		if err != nil {
			return err
		}
		flat, err := DecodeBlob(data)
		if err != nil {
			return fmt.Errorf("uploaded snapshot: %v", err)
		}
		inSnap := map[string]uint32{}
		for _, d := range flat.DBIs {
			for _, e := range d.Entries {
				inSnap[string(e.Key)] = e.Flags | 0x100
			}
		}
		wantMarkers := []string{"young"}
		if haveExpired {
			wantMarkers = append(wantMarkers, "expired")
		}
		for _, k := range wantMarkers {
			if fl, ok := inSnap[k]; !ok || fl&1 == 0 {
				return fmt.Errorf("the deletion marker for %q exists in the LMDB but the uploaded snapshot does not carry it (entry present=%v): markers travel in every snapshot for as long as they exist (retention %v)", k, ok, r)
			}
		}
	} else {
		return fmt.Errorf("SendOnce stored nothing")
	}
	swp := sweeper.New(DBName, sw, env.Env, logrus.StandardLogger(), !c.Shadow)
	if err := swp.VerifSweepOnce(context.Background()); err != nil {
		return fmt.Errorf("sweep: %v", err)
	}
	present := func(key string) bool {
		ok := false
		_ = env.View(func(txn *lmdb.Txn) error {
			dbi, err := txn.OpenDBI(entDBI, 0)
			if err != nil {
				return nil
			}
			_, err = txn.Get(dbi, []byte(key))
			ok = err == nil
			return nil
		})
		return ok
	}
	if present("expired") {
		return fmt.Errorf("marker older than the retention (%v + %v) survived the sweep", r, time.Duration(c.AgeOverNs))
	}
	if !present("young") || !present("live") {
		return fmt.Errorf("sweep removed a young marker or a live entry (retention %v)", r)
	}
	// peer snapshot still carrying the swept marker, and a young marker for another key
	snap := model.Snap{FormatVersion: 3, CompatVersion: 1, Meta: model.Meta{InstanceID: "peer", DatabaseName: DBName}, DBIs: []model.DBI{{Name: "d", Entries: []model.KV{
		{Key: []byte("expired"), TS: uint64(maxI64(expiredTS.UnixNano(), 1)), Flags: 1},
		{Key: []byte("young2"), TS: uint64(now.Add(-time.Second).UnixNano()), Flags: 1},
	}}}}
	if haveOldLive {
		snap.DBIs[0].Entries = append(snap.DBIs[0].Entries, model.KV{Key: []byte("oldlive"), TS: uint64(expiredTS.UnixNano()), Flags: 1})
	}
	if haveLate {
		if !present("late") {
			return fmt.Errorf("sweep removed a marker younger than the retention (age %v, retention %v)", now.Sub(lateTS), r)
		}
		snap.DBIs[0].Entries = append(snap.DBIs[0].Entries, model.KV{Key: []byte("late"), TS: uint64(lateTS.Add(-time.Hour).UnixNano()), Val: model.ValOf([]byte("older-live-version"))})
		o.Class("stored-marker-between-load-cutoff-and-retention-meets-older-live-version")
	}
	takenAt := now.Add(-time.Duration(c.SnapAgeNs))
	if c.SnapAgeNs > 0 && takenAt.UnixNano() > 0 {
		snap.Meta.TimestampNano = uint64(takenAt.UnixNano())
		// (the one second old marker below cannot be in a snapshot older than itself)
		if time.Duration(c.SnapAgeNs) >= time.Second {
			snap.DBIs[0].Entries[1].TS = uint64(takenAt.Add(-time.Second).UnixNano())
		}
	} else {
		takenAt = now
	}
	upd := MkUpdate(snap, takenAt)
	if _, _, err := s.LoadOnce(context.Background(), env.Env, "peer", upd, header.TxnID(lm.LastTxnID(env.Env))); err != nil {
		return fmt.Errorf("LoadOnce: %v", err)
	}
	if haveExpired && present("expired") {
		return fmt.Errorf("swept marker (age retention+%v) was re-created from a peer snapshot: retention=%v minus-cutoff=%v", time.Duration(c.AgeOverNs), r, sw.RetentionDurationMinusCutoff())
	}
	if haveOldLive {
		var stillLive bool
		_ = env.View(func(txn *lmdb.Txn) error {
			dbi, err := txn.OpenDBI(entDBI, 0)
			if err != nil {
				return nil
			}
			v, err := txn.Get(dbi, []byte("oldlive"))
			if err == nil {
				if h, herr := model.ReadHeader(v); herr == nil && h.Flags&1 == 0 {
					stillLive = true
				}
			}
			return nil
		})
		if stillLive {
			return fmt.Errorf("a deletion at T (older than the load cutoff) arrived for a key whose stored live version is older than T, but the key is still live: deletions must win against older versions whatever the sweeper settings")
		}
	}
	if haveLate {
		var live bool
		_ = env.View(func(txn *lmdb.Txn) error {
			dbi, err := txn.OpenDBI(entDBI, 0)
			if err != nil {
				return nil
			}
			if v, err := txn.Get(dbi, []byte("late")); err == nil {
				if h, herr := model.ReadHeader(v); herr == nil && h.Flags&1 == 0 {
					live = true
				}
			}
			return nil
		})
		if live {
			return fmt.Errorf("key deleted %v ago (marker still stored: younger than the retention %v, older than the load cutoff %v) is live again after a peer snapshot with a version one hour OLDER than the deletion was merged: resurrected", now.Sub(lateTS), r, m)
		}
	}
	if !present("young2") && time.Duration(c.SnapAgeNs) < time.Second {
		return fmt.Errorf("a one second old marker was refused as stale: retention=%v minus-cutoff=%v", r, sw.RetentionDurationMinusCutoff())
	}
	o.NonTrivial(true)
	o.ClassIf(time.Duration(c.SnapAgeNs) >= 24*time.Hour, "peer-snapshot-older-than-a-day")
	o.ClassIf(c.RetentionDays > 35583, "retention>35583d")
	o.ClassIf(!haveExpired, "retention-reaches-before-1970")
	return nil
}

func maxI64(a, b int64) int64 {
	if a > b {
		return a
	}
	return b
}

func TestC04SweepThenLoad(t *testing.T) {
	vcore.Run(t, vcore.Config{Property: "C04",
		Rule: "rapid sweeper configurations end to end on a native instance (a third: on a shadow-mode instance, whose shadow DBI holds the versions): markers aged retention+margin / retention/2 and an old live entry; VerifSweepOnce, then LoadOnce of a peer snapshot still carrying the swept marker plus a one second old marker: swept marker not re-created, fresh marker accepted; non-trivial = case executed (retention reaches back no further than 1970)"},
		func(t *rapid.T) C04Conf {
			c := genC04Conf(t)
			c.E2E = true
			c.Shadow = rapid.IntRange(0, 2).Draw(t, "shadow") == 0
			c.AgeOverNs = int64(rapid.SampledFrom([]time.Duration{time.Second, time.Hour, 24 * time.Hour}).Draw(t, "over"))
			c.SnapAgeNs = int64(rapid.SampledFrom([]time.Duration{0, 0, time.Second, time.Hour, 10 * 24 * time.Hour, 300 * 24 * time.Hour}).Draw(t, "snap_age"))
			// keep a good share of cases executable: retention below ~56 years
			if rapid.IntRange(0, 3).Draw(t, "limit") > 0 && c.RetentionDays > 20000 {
				c.RetentionDays = float32(rapid.IntRange(1, 20000).Draw(t, "days_lim"))
			}
			return c
		}, checkC04E2E)
}

// ---------------------------------------------------------------------------
// C04: a deletion that arrives from elsewhere deletes, whatever else the entry
// carries: a marker written by another tool or version (or a native-schema
// application that flags an entry as deleted and leaves the payload in place)
// may still hold a value.
// ---------------------------------------------------------------------------

type C04Foreign struct {
	Native  bool        `json:"native"`
	Present string      `json:"present"` // absent | older | newer : what the receiver holds for the key
	Val     model.Bytes `json:"val"`     // payload the marker carries
	FV      int         `json:"format_version"`
	Others  int         `json:"others"` // further (ordinary) entries in the snapshot
}

func checkC04Foreign(c C04Foreign, o *vcore.Obs) error {
	f := New(Options{Native: c.Native, N: 1})
	defer f.Close()
	key := []byte("k")
	if c.Present != "absent" {
		ts := uint64(1000)
		if c.Present == "newer" {
			ts = 3000
		}
		if err := f.AppCommit(0, []Change{{DBI: "d0", Key: key, Val: []byte("local"), TS: ts}}); err != nil {
			return err
		}
	}
	if err := f.AppCommit(0, []Change{{DBI: "d0", Key: []byte("other"), Val: []byte("x"), TS: 1000}}); err != nil {
		return err
	}
	if _, err := f.Upload(0); err != nil { // (captures, in shadow mode)
		return err
	}
	in := f.Insts[0]
	_, appBefore, err := f.Content(0)
	if err != nil {
		return err
	}
	// marker time: in native mode between the two local stamps; in shadow mode the local version was stamped by
	// the shared logical clock (about 1000), "newer" there means the marker is older than the capture
	mts := uint64(2000)
	if !c.Native {
		mts = f.Clock + 1000
		if c.Present == "newer" {
			mts = 1
		}
	}
	mflags := uint32(1)
	if c.FV < 2 {
		// format version 1 has no flags: a deletion is an entry with an empty value (a snapshot of an old release in a
		// mixed fleet); the DBI must exist locally (a pre-v3 snapshot cannot create one)
		mflags = 0
		c.Val = nil
	}
	snap := model.Snap{FormatVersion: uint32(c.FV), CompatVersion: 1, Meta: model.Meta{InstanceID: "peer", DatabaseName: DBName},
		DBIs: []model.DBI{{Name: "d0", Entries: []model.KV{{Key: key, TS: mts, Flags: mflags, Val: model.ValOf(c.Val)}}}}}
	for i := 0; i < c.Others; i++ {
		snap.DBIs[0].Entries = append(snap.DBIs[0].Entries, model.KV{Key: []byte(fmt.Sprintf("p%d", i)), TS: mts, Val: model.ValOf([]byte("pv"))})
	}
	if _, _, err := in.S.LoadOnce(f.Ctx, in.Env.Env, "peer", MkUpdate(snap, time.Now()), in.LastSynced); err != nil {
		return fmt.Errorf("LoadOnce: %v", err)
	}
	ver, app, err := f.Content(0)
	if err != nil {
		return err
	}
	wins := c.Present != "newer"
	if c.Native {
		v, ok := ver["d0"][string(key)]
		switch {
		case wins && c.Present == "absent" && !ok:
			// (a marker for an unknown key may or may not be kept; nothing is visible either way)
		case wins && (!ok || !v.Del):
			return fmt.Errorf("native receiver: the newer deletion (carrying a %d-byte payload) did not delete: stored %v (present=%v)", len(c.Val), VerSet{v}, ok)
		case wins && len(v.Val) != 0:
			return fmt.Errorf("native receiver: the stored deletion marker carries a value of %d bytes (a deleted entry has no value)", len(v.Val))
		case !wins && (!ok || v.Del || string(v.Val) != "local"):
			return fmt.Errorf("native receiver: an older deletion replaced the newer local version: stored %v", VerSet{v})
		}
	} else {
		av, present := app["d0"][string(key)]
		if wins && present {
			return fmt.Errorf("shadow receiver: the application still sees %q = %q after a newer deletion (carrying a %d-byte payload) was merged (before: %q)", key, av, len(c.Val), appBefore["d0"][string(key)])
		}
		if !wins && (!present || string(av) != "local") {
			return fmt.Errorf("shadow receiver: an older deletion removed the newer local version (present=%v %q)", present, av)
		}
	}
	if v, ok := app["d0"]["other"]; !c.Native && (!ok || string(v) != "x") {
		return fmt.Errorf("unrelated key changed: present=%v %q", ok, v)
	}
	o.NonTrivial(len(c.Val) > 0 || c.FV < 2)
	o.ClassIf(c.FV < 2, "deletion-from-a-format-version-1-snapshot")
	o.ClassIf(len(c.Val) > 0, "marker-carrying-a-payload")
	o.Class("receiver-has-" + c.Present)
	return nil
}

func TestC04ForeignMarker(t *testing.T) {
	vcore.Run(t, vcore.Config{Property: "C04",
		Rule: "rapid: a native / shadow receiver that holds no / an older / a newer version of a key merges a hand-made snapshot in which that key is a deletion - format version 2 or 3: a marker that still carries a payload of 0-40 bytes; format version 1: an entry with an empty value -, next to 0-3 ordinary entries: a newer deletion deletes (application no longer sees the key; a stored marker has no value), an older one changes nothing; non-trivial = the marker carries a payload"},
		func(t *rapid.T) C04Foreign {
			return C04Foreign{Native: rapid.Bool().Draw(t, "native"), Present: rapid.SampledFrom([]string{"absent", "older", "older", "newer"}).Draw(t, "present"),
				Val: rapid.SampledFrom([]model.Bytes{{}, []byte("v"), []byte("old payload left in place"), make([]byte, 40)}).Draw(t, "val"),
				FV:  rapid.SampledFrom([]int{1, 2, 3, 3}).Draw(t, "fv"), Others: rapid.IntRange(0, 3).Draw(t, "others")}
		}, checkC04Foreign)
}

package fleet

import (
	"bytes"
	"context"
	"encoding/binary"
	"fmt"
	"regexp"
	"sort"
	"strings"
	"sync"
	"sync/atomic"
	"testing"
	"time"

	"github.com/PowerDNS/lightningstream/config"
	"github.com/PowerDNS/lightningstream/snapshot"
	"github.com/PowerDNS/lightningstream/syncer"
	"github.com/PowerDNS/lightningstream/syncer/hooks"
	"github.com/PowerDNS/lmdb-go/lmdb"
	"pgregory.net/rapid"

	"verif/harness/internal/fault"
	"verif/harness/internal/gen"
	"verif/harness/internal/lm"
	"verif/harness/internal/model"
	"verif/harness/internal/vcore"
)

// ---------------------------------------------------------------------------
// C06 Every snapshot is the complete image of one committed LMDB transaction
// ---------------------------------------------------------------------------

type C06Entry struct {
	Key   model.Bytes `json:"key"`
	Val   model.Val   `json:"val"`
	TS    uint64      `json:"ts"`
	Del   bool        `json:"del,omitempty"`
	XFlag byte        `json:"xflag,omitempty"` // unknown flag bits (native)
	Ext   int         `json:"ext,omitempty"`   // extension blocks (native)
}

type C06DBI struct {
	Name    string     `json:"name"`
	Kind    string     `json:"kind"` // plain | int4 | int8 | dupsort | revkey (keys compared from their last byte)
	Entries []C06Entry `json:"entries"`
}

type C06Case struct {
	Native   bool   `json:"native"`
	Instance string `json:"instance"`
	// HostFallback: no instance name is configured; Instance is the host name the syncer falls back to
	HostFallback bool     `json:"host_fallback,omitempty"`
	DBIs         []C06DBI `json:"dbis"`
	Private      bool     `json:"private,omitempty"` // also create _sync... DBIs that must not be dumped
	// Sweeper: the tomb sweeper is configured (retention in days); a snapshot still carries every
	// marker that exists in the LMDB, however old
	Sweeper float32 `json:"sweeper_retention_days,omitempty"`
	// CancelInDump: a third upload whose context is cancelled while its dump transaction is open
	CancelInDump    bool `json:"cancel_in_dump,omitempty"`
	StoreIgnoresCtx bool `json:"store_ignores_ctx,omitempty"`
	// Second round: the application deletes / changes some entries, then a second SendOnce
	DelIdx []int `json:"del_idx,omitempty"`
	// More: further rounds, each = that many separate application commits (0 = an upload of an unchanged LMDB, as
	// the forced interval produces) followed by an upload
	More []int `json:"more,omitempty"`
}

func c06Flags(kind string) uint {
	switch kind {
	case "int4", "int8":
		return 0x08
	case "dupsort":
		return lmdb.DupSort
	case "revkey":
		return lmdb.ReverseKey
	}
	return 0
}

// expectedFromLMDB: independent dump of the versioned DBIs, as snapshot content.
func expectedFromLMDB(env *lmdb.Env, native bool) ([]model.FlatDBI, error) {
	dump, err := lm.DumpEnv(env)
	if err != nil {
		return nil, err
	}
	appFlags := map[string]uint{}
	for _, d := range dump.DBIs {
		if !strings.HasPrefix(d.Name, syncer.SyncDBIPrefix) {
			appFlags[d.Name] = d.Flags
		}
	}
	var out []model.FlatDBI
	for _, d := range dump.DBIs {
		if strings.HasPrefix(d.Name, syncer.SyncDBIPrefix) {
			continue
		}
		src := d
		if !native {
			sd := dump.DBI(syncer.SyncDBIShadowPrefix + d.Name)
			if sd == nil {
				return nil, fmt.Errorf("no shadow DBI for %q", d.Name)
			}
			src = *sd
		}
		fd := model.FlatDBI{Name: d.Name, Flags: uint64(appFlags[d.Name])}
		if appFlags[d.Name]&lmdb.DupSort != 0 {
			fd.Transform = "dupsort_hack_v1"
		}
		for _, e := range src.Entries {
			h, err := model.ReadHeader(e.Val)
			if err != nil {
				return nil, fmt.Errorf("DBI %q key %x: %v", src.Name, e.Key, err)
			}
			fd.Entries = append(fd.Entries, model.FlatKV{Key: e.Key, Value: h.AppVal, TS: h.TS, Flags: uint32(h.Flags & 1)})
		}
		out = append(out, fd)
	}
	return out, nil
}

func checkSnapshotAgainstLMDB(f *fault.Bucket, name string, env *lmdb.Env, native bool, inst string, t0, t1 time.Time) (model.Flat, error) {
	data, ok := f.Get(name)
	if !ok {
		return model.Flat{}, fmt.Errorf("no blob %s", name)
	}
	flat, err := DecodeBlob(data)
	if err != nil {
		return flat, fmt.Errorf("snapshot %s does not decode with the reference codec: %v", name, err)
	}
	// only schema fields on the wire (no per-entry transaction ids or other extras)
	pb, err := gunzip(data)
	if err != nil {
		return flat, err
	}
	tree, err := model.ParseSnapshotTree(pb)
	if err != nil {
		return flat, fmt.Errorf("independent wire parser rejects the snapshot: %v", err)
	}
	if err := model.CheckSchemaOnly(tree); err != nil {
		return flat, fmt.Errorf("snapshot %s: %v", name, err)
	}
	want, err := expectedFromLMDB(env, native)
	if err != nil {
		return flat, err
	}
	wf := model.Flat{FormatVersion: flat.FormatVersion, CompatVersion: flat.CompatVersion, Meta: flat.Meta, DBIs: want}
	// DBIs without entries and without flags/name... are all named here, so they must be present
	if d := wf.Diff(flat); d != "" {
		return flat, fmt.Errorf("snapshot %s is not the image of the LMDB: %s", name, d)
	}
	if !native {
		// shadow mode: the application's own entries, as committed before the upload, are what the snapshot's live
		// entries must be (plain and integer-key DBIs; the duplicate-keys mapping is C20's business)
		dump, err := lm.DumpEnv(env)
		if err != nil {
			return flat, err
		}
		for _, d := range dump.DBIs {
			if strings.HasPrefix(d.Name, syncer.SyncDBIPrefix) || d.Flags&lmdb.DupSort != 0 {
				continue
			}
			liveInSnap := map[string][]byte{}
			for _, fd := range flat.DBIs {
				if fd.Name == d.Name {
					for _, e := range fd.Entries {
						if e.Flags&1 == 0 {
							liveInSnap[string(e.Key)] = e.Value
						}
					}
				}
			}
			for _, e := range d.Entries {
				v, ok := liveInSnap[string(e.Key)]
				if !ok || !bytes.Equal(v, e.Val) {
					return flat, fmt.Errorf("snapshot %s: the application's entry %s/%x = %q, committed before the upload, is in the snapshot as %q (live=%v): not the image of the dumped transaction", name, d.Name, e.Key, e.Val, v, ok)
				}
				delete(liveInSnap, string(e.Key))
			}
			for k, v := range liveInSnap {
				return flat, fmt.Errorf("snapshot %s carries a live entry %s/%x = %q that the application's DBI does not hold", name, d.Name, k, v)
			}
		}
	}
	// name and metadata
	ni, err := snapshot.ParseName(name)
	if err != nil {
		return flat, fmt.Errorf("uploaded name %q does not parse: %v", name, err)
	}
	if ni.SyncerName != DBName || ni.InstanceID != inst || ni.Kind != snapshot.KindSnapshot {
		return flat, fmt.Errorf("name %q does not name database %q / instance %q", name, DBName, inst)
	}
	if flat.Meta.DatabaseName != DBName || flat.Meta.InstanceID != inst {
		return flat, fmt.Errorf("meta names %q/%q, want %q/%q", flat.Meta.DatabaseName, flat.Meta.InstanceID, DBName, inst)
	}
	if uint64(ni.Timestamp.UnixNano()) != flat.Meta.TimestampNano {
		return flat, fmt.Errorf("name timestamp %d differs from meta timestamp %d", ni.Timestamp.UnixNano(), flat.Meta.TimestampNano)
	}
	if flat.Meta.TimestampNano < uint64(t0.UnixNano()) || flat.Meta.TimestampNano > uint64(t1.UnixNano()) {
		return flat, fmt.Errorf("snapshot time %d outside the bracket of the SendOnce call [%d,%d]", flat.Meta.TimestampNano, t0.UnixNano(), t1.UnixNano())
	}
	if flat.FormatVersion != snapshot.CurrentFormatVersion || flat.CompatVersion != snapshot.WriteCompatFormatVersion {
		return flat, fmt.Errorf("format/compat version %d/%d, this build writes %d/%d", flat.FormatVersion, flat.CompatVersion, snapshot.CurrentFormatVersion, snapshot.WriteCompatFormatVersion)
	}
	if flat.Meta.LmdbTxnID != lm.LastTxnID(env) {
		return flat, fmt.Errorf("meta transaction id %d, LMDB last transaction id %d", flat.Meta.LmdbTxnID, lm.LastTxnID(env))
	}
	return flat, nil
}

func gunzip(data []byte) ([]byte, error) {
	f, err := DecodeRaw(data)
	return f, err
}

func checkC06(c C06Case, o *vcore.Obs) error {
	env := lm.New(128<<20, 24)
	defer env.Close()
	b := fault.NewBucket()
	conf := BaseConfig(c.Instance)
	if c.HostFallback {
		conf.Instance = ""
		defer syncer.VerifSetHostname(syncer.VerifSetHostname(c.Instance))
	}
	if c.Sweeper > 0 {
		conf.Sweeper = config.Sweeper{Enabled: true, RetentionDays: c.Sweeper, Interval: time.Hour, FirstInterval: time.Hour, LockDuration: time.Millisecond, ReleaseDuration: time.Millisecond}
	}
	lc := config.LMDB{SchemaTracksChanges: c.Native, DupSortHack: !c.Native}
	hk := hooks.New()
	var cancelInDump context.CancelFunc // when set: called while the dump transaction is open
	hk.BeforeRead = func(hooks.BeforeReadParams) error {
		if cancelInDump != nil {
			cancelInDump()
		}
		return nil
	}
	hdl := b.Handle("x")
	s, err := syncer.New(DBName, env.Env, hdl, conf, lc, syncer.Options{Hooks: hk})
	if err != nil {
		return err
	}
	inst := s.VerifInstanceID()
	// the documented rule, independently: every character outside [a-zA-Z0-9-] becomes '-' (configured name or host name)
	if want := regexp.MustCompile("[^a-zA-Z0-9-]").ReplaceAllString(c.Instance, "-"); inst != want {
		return fmt.Errorf("instance id %q for the configured/host name %q, the documented rule gives %q", inst, c.Instance, want)
	}
	// fill
	err = env.Update(func(txn *lmdb.Txn) error {
		for _, d := range c.DBIs {
			dbi, err := txn.OpenDBI(d.Name, lmdb.Create|c06Flags(d.Kind))
			if err != nil {
				return err
			}
			for _, e := range d.Entries {
				var v []byte
				if c.Native {
					fl := e.XFlag &^ 1
					val := e.Val.Bytes()
					if e.Del {
						fl |= 1
						if e.Ext%2 == 0 || len(val) > 64 {
							val = nil
						}
						// (else: the application flagged the entry as deleted and left its payload in place: the image
						// carries "exactly the stored application value" all the same)
					}
					ext := make([]byte, 8*e.Ext)
					for i := range ext {
						ext[i] = byte(i + 1)
					}
					v = model.BuildHeader(e.TS, uint64(txn.ID()), fl, ext, val)
				} else {
					v = e.Val.Bytes()
				}
				if err := txn.Put(dbi, e.Key, v, 0); err != nil {
					return fmt.Errorf("harness put %s/%x: %w", d.Name, e.Key, err)
				}
			}
		}
		if c.Private {
			for _, n := range []string{"_sync_meta", "_sync_shadow_ghost", "_syncfoo"} {
				dbi, err := txn.OpenDBI(n, lmdb.Create)
				if err != nil {
					return err
				}
				if err := txn.Put(dbi, []byte("k"), model.BuildHeader(5, uint64(txn.ID()), 0, nil, []byte("private")), 0); err != nil {
					return err
				}
			}
		}
		return nil
	})
	if err != nil {
		return fmt.Errorf("harness: fill: %v", err)
	}
	ctx := context.Background()
	var lastName string
	var lastTS uint64
	send := func() error {
		t0 := time.Now()
		_, err := s.SendOnce(ctx, env.Env)
		t1 := time.Now()
		if err != nil {
			return fmt.Errorf("SendOnce: %v", err)
		}
		names := b.Names()
		name := names[len(names)-1]
		flat, err := checkSnapshotAgainstLMDB(b, name, env.Env, c.Native, inst, t0, t1)
		if err != nil {
			return err
		}
		if lastName != "" && !(name > lastName && flat.Meta.TimestampNano > lastTS) {
			return fmt.Errorf("later snapshot does not carry a later time: %s after %s", name, lastName)
		}
		lastName, lastTS = name, flat.Meta.TimestampNano
		return nil
	}
	if err := send(); err != nil {
		return fmt.Errorf("first upload: %w", err)
	}
	// second round: deletions
	if len(c.DelIdx) > 0 && len(c.DBIs) > 0 {
		err = env.Update(func(txn *lmdb.Txn) error {
			for _, di := range c.DelIdx {
				d := c.DBIs[di%len(c.DBIs)]
				if len(d.Entries) == 0 || d.Kind == "dupsort" {
					continue
				}
				e := d.Entries[di%len(d.Entries)]
				dbi, err := txn.OpenDBI(d.Name, 0)
				if err != nil {
					return err
				}
				if c.Native {
					if err := txn.Put(dbi, e.Key, model.BuildHeader(e.TS+1, uint64(txn.ID()), 1, nil, nil), 0); err != nil {
						return err
					}
				} else if err := txn.Del(dbi, e.Key, nil); err != nil && !lmdb.IsNotFound(err) {
					return err
				}
			}
			return nil
		})
		if err != nil {
			return err
		}
	}
	if err := send(); err != nil {
		return fmt.Errorf("second upload: %w", err)
	}
	for r, n := range c.More {
		for j := 0; j < n; j++ {
			err = env.Update(func(txn *lmdb.Txn) error {
				dbi, err := txn.OpenDBI("more", lmdb.Create)
				if err != nil {
					return err
				}
				key, val := []byte(fmt.Sprintf("more-%d-%d", r, j)), []byte(fmt.Sprintf("val-%d-%d", r, j))
				if j == 1 && r > 0 {
					key = []byte(fmt.Sprintf("more-%d-0", r-1)) // (or a deletion of something written a round earlier)
					if c.Native {
						return txn.Put(dbi, key, model.BuildHeader(uint64(time.Now().UnixNano()), uint64(txn.ID()), 1, nil, nil), 0)
					}
					if err := txn.Del(dbi, key, nil); err != nil && !lmdb.IsNotFound(err) {
						return err
					}
					return nil
				}
				if c.Native {
					val = model.BuildHeader(uint64(time.Now().UnixNano()), uint64(txn.ID()), 0, nil, val)
				}
				return txn.Put(dbi, key, val, 0)
			})
			if err != nil {
				return fmt.Errorf("harness: %v", err)
			}
		}
		if (r+n)%3 == 1 {
			// the first attempt(s) of this upload fail (the retry budget is 3): name and meta data still carry the time of the image
			fs := []string{fault.Fail}
			if n%2 == 1 {
				fs = append(fs, fault.Fail)
			}
			hdl.SetPlan("store", fs)
			o.Class("upload-that-succeeds-at-a-retry")
		}
		if err := send(); err != nil {
			return fmt.Errorf("upload %d (after %d further application commits): %w", r+3, n, err)
		}
		hdl.ClearPlans()
		o.ClassIf(n == 0, "upload-of-an-unchanged-lmdb")
		o.ClassIf(n == 1, "upload-after-exactly-one-commit")
	}
	// third upload, shut down while the dump is under way: whatever reaches the bucket is a complete image
	// (an upload that reports success in particular), a partial one must never be stored
	if c.CancelInDump {
		cctx, cancel := context.WithCancel(context.Background())
		cancelInDump = cancel
		hdl.IgnoreContext(c.StoreIgnoresCtx) // like the fs / memory backends: the Store call itself would still go through
		before := len(b.Names())
		t0 := time.Now()
		_, serr := s.SendOnce(cctx, env.Env)
		t1 := time.Now()
		cancelInDump = nil
		cancel()
		names := b.Names()
		if len(names) > before {
			if _, err := checkSnapshotAgainstLMDB(b, names[len(names)-1], env.Env, c.Native, inst, t0, t1); err != nil {
				return fmt.Errorf("upload cancelled while the dump transaction was open (SendOnce returned %v) stored a snapshot: %w", serr, err)
			}
		} else if serr == nil {
			return fmt.Errorf("upload cancelled while the dump transaction was open: SendOnce reported success but stored nothing")
		}
		o.ClassIf(serr != nil, "cancelled-upload-refused")
		o.ClassIf(serr == nil, "cancelled-upload-completed")
	}
	// classes
	feat := false
	for _, d := range c.DBIs {
		for _, e := range d.Entries {
			if e.Del || e.Val.Len == 0 || e.Ext > 0 || e.Val.Len >= 16<<10 {
				feat = true
			}
			o.ClassIf(e.Del, "marker")
			o.ClassIf(e.Val.Len == 0 && !e.Del, "empty-value")
			o.ClassIf(e.Ext > 0, "extension-block")
			o.ClassIf(e.Val.Len >= 16<<10, "value>=16KiB")
			o.ClassIf(e.XFlag != 0, "unknown-flag-bits")
		}
		o.Class("kind-" + d.Kind)
	}
	if len(c.DelIdx) > 0 {
		feat = true
	}
	o.NonTrivial(len(c.DBIs) >= 2 && feat)
	o.ClassIf(c.Native, "native")
	o.ClassIf(!c.Native, "shadow")
	o.ClassIf(c.Private, "private-dbis-present")
	o.ClassIf(c.HostFallback, "host-name-as-instance-name")
	o.ClassIf(c.Sweeper > 0, "sweeper-configured")
	o.ClassIf(len(c.DBIs) == 0, "no-dbis")
	return nil
}

func genC06(t *rapid.T) C06Case {
	var c C06Case
	c.Native = rapid.Bool().Draw(t, "native")
	c.Instance = rapid.SampledFrom([]string{"inst-1", "a", "host.example.com", "under_score", "Üñï", "x y", "db__node_", "a.pb.gz"}).Draw(t, "instance")
	c.HostFallback = rapid.IntRange(0, 3).Draw(t, "host_fallback") == 0
	if rapid.Bool().Draw(t, "more?") {
		for i := rapid.IntRange(1, 4).Draw(t, "nmore"); i > 0; i-- {
			c.More = append(c.More, rapid.SampledFrom([]int{0, 0, 1, 1, 2, 3}).Draw(t, "more"))
		}
	}
	nd := rapid.IntRange(0, 6).Draw(t, "ndbi")
	huge := 0
	for i := 0; i < nd; i++ {
		d := C06DBI{Name: fmt.Sprintf("dbi%d", i)}
		if rapid.IntRange(0, 4).Draw(t, "oddname") == 0 {
			d.Name = rapid.SampledFrom([]string{"with.dot", "with_underscore", "UPPER", "sync", "a", "_x"}).Draw(t, "name") + fmt.Sprint(i)
		}
		kinds := []string{"plain", "plain", "plain", "int4", "int8"}
		if !c.Native {
			kinds = append(kinds, "dupsort")
		} else {
			// (native mode only: in shadow mode the capture pass refuses a DBI whose key order is not the plain byte
			// order - "keys not sorted" - so such a DBI never gets as far as a snapshot)
			kinds = append(kinds, "revkey")
		}
		d.Kind = rapid.SampledFrom(kinds).Draw(t, "kind")
		var ne int
		switch rapid.IntRange(0, 9).Draw(t, "nek") {
		case 0:
			ne = 0
		case 1:
			ne = rapid.IntRange(30, 200).Draw(t, "ne_big")
		default:
			ne = rapid.IntRange(1, 8).Draw(t, "ne")
		}
		seen := map[string]bool{}
		for j := 0; j < ne; j++ {
			var e C06Entry
			switch d.Kind {
			case "int4":
				k := make([]byte, 4)
				binary.LittleEndian.PutUint32(k, rapid.OneOf(rapid.Uint32Range(0, 5), rapid.Uint32()).Draw(t, "ik4"))
				e.Key = k
			case "int8":
				k := make([]byte, 8)
				binary.LittleEndian.PutUint64(k, rapid.OneOf(rapid.Uint64Range(0, 5), rapid.Uint64()).Draw(t, "ik8"))
				e.Key = k
			case "dupsort":
				e.Key = []byte(rapid.StringMatching("[a-d]{1,3}").Draw(t, "dk")) // mappable by the hack (C20 covers refusals)
			default:
				e.Key = gen.Key(t, "key", 511)
			}
			if d.Kind == "dupsort" {
				e.Val = model.ValOf([]byte(rapid.StringMatching("[a-d]{1,6}").Draw(t, "dv"))) // non-empty (known finding shadow-empty-value)
				if seen[string(e.Key)+"|"+string(e.Val.Bytes())] {
					continue
				}
				seen[string(e.Key)+"|"+string(e.Val.Bytes())] = true
			} else {
				if seen[string(e.Key)] {
					continue
				}
				seen[string(e.Key)] = true
				e.Val = gen.Value(t, "val", huge < 2)
				if e.Val.Len > 1<<20 {
					huge++
				}
				// (live empty values in shadow mode: the listed finding shadow-empty-value concerns the copy-back of
				// a merge; an upload involves none, so empty values are part of this check's domain)
			}
			if c.Native {
				e.TS = gen.TS(t, "ts")
				e.Del = rapid.IntRange(0, 4).Draw(t, "del") == 0
				if rapid.IntRange(0, 4).Draw(t, "xf") == 0 {
					e.XFlag = rapid.SampledFrom([]byte{0x02, 0x80, 0xfe}).Draw(t, "xflag")
				}
				if rapid.IntRange(0, 4).Draw(t, "ext") == 0 {
					e.Ext = rapid.IntRange(1, 3).Draw(t, "next")
				}
			}
			d.Entries = append(d.Entries, e)
		}
		c.DBIs = append(c.DBIs, d)
	}
	// dupsort contents must be mappable by the hack; keep them simple (C20 covers refusal)
	c.Private = rapid.IntRange(0, 2).Draw(t, "private") == 0
	c.CancelInDump = rapid.IntRange(0, 2).Draw(t, "cancel_in_dump") == 0
	c.StoreIgnoresCtx = rapid.Bool().Draw(t, "store_ignores_ctx")
	if rapid.IntRange(0, 2).Draw(t, "sweeper") == 0 {
		c.Sweeper = rapid.SampledFrom([]float32{0.001, 1, 370}).Draw(t, "retention")
	}
	c.DelIdx = rapid.SliceOfN(rapid.IntRange(0, 50), 0, 3).Draw(t, "delidx")
	return c
}

func TestC06Image(t *testing.T) {
	vcore.Run(t, vcore.Config{Property: "C06",
		Rule: "rapid LMDB contents: 0-6 application DBIs (plain, integer key 4/8, dupsort with the hack in shadow mode), 0-200 entries, keys <=511 B, values empty..3 MiB, native headers with 0-3 extension blocks / unknown flag bits / ts incl. 0 / markers, private _sync* DBIs, arbitrary instance names, tomb sweeper configured or not (markers older than the retention are still part of the image); SendOnce twice (deletions in between), optionally a third time with its context cancelled while the dump transaction is open (nothing partial may be stored); decoded with the reference codec and compared with an independent dump; wire walk finds only schema fields; name/meta/time/transaction id checked; " +
			"non-trivial = >=2 DBIs and one of {marker, empty value, extension block, >=16 KiB value, second round with deletions}"},
		genC06, checkC06)
}

// ---- concurrent multi-DBI writer ------------------------------------------------

type C06Conc struct {
	Native  bool `json:"native"`
	NewDBI  bool `json:"new_dbi,omitempty"` // shadow mode: the application creates a DBI while SendOnce waits for the write lock
	Commits int  `json:"commits"`           // commits performed while the dump transaction is open (native) / attempted (shadow)
	Rounds  int  `json:"rounds"`
}

func checkC06Conc(c C06Conc, o *vcore.Obs) error {
	env := lm.New(64<<20, 16)
	defer env.Close()
	b := fault.NewBucket()
	hk := hooks.New()
	writeIDs := func() error {
		return env.Update(func(txn *lmdb.Txn) error {
			for _, n := range []string{"left", "right"} {
				dbi, err := txn.OpenDBI(n, lmdb.Create)
				if err != nil {
					return err
				}
				id := make([]byte, 8)
				binary.BigEndian.PutUint64(id, uint64(txn.ID()))
				var v []byte
				if c.Native {
					v = model.BuildHeader(uint64(time.Now().UnixNano()), uint64(txn.ID()), 0, nil, id)
				} else {
					v = id
				}
				if err := txn.Put(dbi, []byte("id"), v, 0); err != nil {
					return err
				}
				// some bulk so that the dump takes a while
				if err := txn.Put(dbi, []byte(fmt.Sprintf("bulk-%d", txn.ID()%50)), v, 0); err != nil {
					return err
				}
			}
			return nil
		})
	}
	if err := writeIDs(); err != nil {
		return err
	}
	var inHook atomic.Int32
	var hookErr atomic.Value
	hk.BeforeRead = func(p hooks.BeforeReadParams) error {
		inHook.Add(1)
		if c.Native {
			// the dump's read transaction is open: commit multi-DBI transactions right now
			for i := 0; i < c.Commits; i++ {
				if err := writeIDs(); err != nil {
					hookErr.Store(err.Error())
				}
			}
		}
		return nil
	}
	conf := BaseConfig("w")
	s, err := syncer.New(DBName, env.Env, b.Handle("w"), conf, config.LMDB{SchemaTracksChanges: c.Native}, syncer.Options{Hooks: hk})
	if err != nil {
		return err
	}
	var wg sync.WaitGroup
	var stop atomic.Bool
	if !c.Native || vcore.Thorough() {
		wg.Add(1)
		go func() {
			defer wg.Done()
			for !stop.Load() {
				_ = writeIDs()
			}
		}()
	}
	defer func() { stop.Store(true); wg.Wait() }()
	for r := 0; r < c.Rounds; r++ {
		if c.NewDBI && !c.Native {
			// The application holds the write lock, SendOnce starts and has to wait for it; the application then
			// creates a new DBI in a multi-DBI transaction and commits. The snapshot is taken after that
			// transaction and must be its complete image, new DBI included.
			started, release, done := make(chan struct{}), make(chan struct{}), make(chan error, 1)
			fresh := fmt.Sprintf("fresh%d", r)
			var wroteAt atomic.Int64
			go func() {
				done <- env.Update(func(txn *lmdb.Txn) error {
					close(started)
					<-release
					id := make([]byte, 8)
					binary.BigEndian.PutUint64(id, uint64(txn.ID()))
					for _, n := range []string{"left", "right", fresh} {
						dbi, err := txn.OpenDBI(n, lmdb.Create)
						if err != nil {
							return err
						}
						if err := txn.Put(dbi, []byte("id"), id, 0); err != nil {
							return err
						}
					}
					wroteAt.Store(time.Now().UnixNano()) // still inside the transaction: it commits later
					return nil
				})
			}()
			<-started
			sendDone := make(chan error, 1)
			go func() { _, err := s.SendOnce(context.Background(), env.Env); sendDone <- err }()
			time.Sleep(30 * time.Millisecond) // SendOnce is now blocked on the write lock
			close(release)
			if err := <-done; err != nil {
				return fmt.Errorf("harness: application transaction: %v", err)
			}
			if err := <-sendDone; err != nil {
				return fmt.Errorf("SendOnce: %v", err)
			}
			names := b.Names()
			data, _ := b.Get(names[len(names)-1])
			flat, err := DecodeBlob(data)
			if err != nil {
				return err
			}
			found := false
			for _, d := range flat.DBIs {
				if d.Name == fresh {
					found = len(d.Entries) == 1
				}
			}
			// ... and it names the time the image was taken: the image contains that transaction, so it was
			// taken after the application wrote (file name and meta data alike)
			if int64(flat.Meta.TimestampNano) < wroteAt.Load() {
				return fmt.Errorf("snapshot %s claims to have been taken %v BEFORE the application wrote the transaction it contains (the time must be read once the dump transaction is open)", names[len(names)-1], time.Duration(wroteAt.Load()-int64(flat.Meta.TimestampNano)))
			}
			if ni, err := snapshot.ParseName(names[len(names)-1]); err == nil && ni.Timestamp.UnixNano() < wroteAt.Load() {
				return fmt.Errorf("snapshot name %s carries a time before the application wrote the transaction it contains", names[len(names)-1])
			}
			if !found {
				var have []string
				for _, d := range flat.DBIs {
					have = append(have, d.Name)
				}
				return fmt.Errorf("snapshot taken after the application's multi-DBI transaction lacks the DBI %q created in it (has %v): not the image of one transaction", fresh, have)
			}
		} else if _, err := s.SendOnce(context.Background(), env.Env); err != nil {
			return fmt.Errorf("SendOnce: %v", err)
		}
		names := b.Names()
		data, _ := b.Get(names[len(names)-1])
		flat, err := DecodeBlob(data)
		if err != nil {
			return err
		}
		ids := map[string]uint64{}
		for _, d := range flat.DBIs {
			for _, e := range d.Entries {
				if string(e.Key) == "id" && len(e.Value) == 8 && (d.Name == "left" || d.Name == "right") {
					ids[d.Name] = binary.BigEndian.Uint64(e.Value)
				}
			}
		}
		if len(ids) != 2 {
			return fmt.Errorf("snapshot lacks one of the two DBIs: %v", ids)
		}
		if ids["left"] != ids["right"] {
			return fmt.Errorf("snapshot mixes two transactions: left holds id %d, right holds id %d (meta txn %d)", ids["left"], ids["right"], flat.Meta.LmdbTxnID)
		}
		if c.Native {
			// The image is the one of transaction ids["left"]. The transaction id recorded in the meta data is
			// what mdb_txn_id() reports for the dump's read transaction; LMDB may report an OLDER id than the
			// snapshot the reader actually got (the reader picks the meta page by the parity of the id it
			// registered and copies it afterwards: when two or more commits land in between, it reads a newer
			// meta page of the same parity - observed as an even difference, roughly once in 10^5 read
			// transactions next to a busy writer). The image is still one transaction (checked above); the
			// property says nothing about that number, so only "not newer than the image" is demanded.
			if ids["left"] < uint64(flat.Meta.LmdbTxnID) {
				return fmt.Errorf("snapshot content is from transaction %d but its metadata records the later transaction %d", ids["left"], flat.Meta.LmdbTxnID)
			}
			o.ClassIf(ids["left"] != uint64(flat.Meta.LmdbTxnID), "lmdb-read-txn-id-older-than-its-snapshot")
		} else if ids["left"] > uint64(flat.Meta.LmdbTxnID) {
			return fmt.Errorf("snapshot content from transaction %d is newer than the recorded transaction %d", ids["left"], flat.Meta.LmdbTxnID)
		}
	}
	if v := hookErr.Load(); v != nil {
		return fmt.Errorf("harness: writer failed inside the hook: %v", v)
	}
	o.NonTrivial(c.Commits > 0 || !c.Native)
	o.ClassIf(c.Native, "native-commits-inside-dump-transaction")
	o.ClassIf(!c.Native, "shadow-free-running-writer")
	o.ClassIf(c.NewDBI && !c.Native, "dbi-created-while-upload-waits-for-the-lock")
	return nil
}

func TestC06Concurrent(t *testing.T) {
	vcore.Run(t, vcore.Config{Property: "C06",
		Rule: "a writer commits transactions that put their own transaction id under the same key into two DBIs; native: commits are performed from Hooks.BeforeRead, i.e. while the dump's read transaction is open (plus a free-running writer in the thorough tier); shadow: free-running writer; the snapshot shows the same id in both DBIs (one transaction), not older than the transaction id recorded in its metadata (native) / not newer (shadow); non-trivial = >=1 commit inside the dump transaction / free-running writer"},
		func(t *rapid.T) C06Conc {
			return C06Conc{Native: rapid.Bool().Draw(t, "native"), NewDBI: rapid.IntRange(0, 2).Draw(t, "newdbi") == 0, Commits: rapid.IntRange(0, 4).Draw(t, "commits"), Rounds: rapid.IntRange(1, 3).Draw(t, "rounds")}
		}, checkC06Conc)
}

var _ = sort.Strings
var _ = bytes.Equal

package fleet

import (
	"fmt"
	"testing"
	"time"

	"github.com/PowerDNS/lightningstream/config"
	"github.com/PowerDNS/lightningstream/snapshot"
	"github.com/PowerDNS/lightningstream/syncer"
	"github.com/PowerDNS/lmdb-go/lmdb"

	"verif/harness/internal/fault"
	"verif/harness/internal/lm"
	"verif/harness/internal/model"
	"verif/harness/internal/vcore"
)

// ---------------------------------------------------------------------------
// C03 / C09 next to a tomb sweeper that really removes something: the sweeper's
// own write transaction (non-empty: an expired deletion marker goes) lands
// between an application commit and the loop's next look at the LMDB. The
// application's commit must survive the next merge and must be published.
// ---------------------------------------------------------------------------

type enumSweepCommit struct {
	Native bool   `json:"native"`
	Point  string `json:"point"`
	// Peer: a peer snapshot is merged after the sweep (otherwise the loop just has to notice the commit)
	Peer bool `json:"peer"`
}

func checkSweepCommit(e enumSweepCommit, o *vcore.Obs) error {
	const retention = 300 * time.Millisecond
	env := lm.New(64<<20, 24)
	b := fault.NewBucket()
	conf := BaseConfig("a")
	conf.Sweeper = config.Sweeper{Enabled: true, RetentionDays: float32(float64(retention) / float64(24*time.Hour)),
		Interval: time.Millisecond, FirstInterval: time.Millisecond, LockDuration: time.Millisecond, ReleaseDuration: time.Millisecond}
	lc := config.LMDB{SchemaTracksChanges: e.Native}
	nd := NewNode("a", env, b.Handle("a"), conf, lc, syncer.Options{})
	defer nd.CloseEnv()
	defer nd.Forget()
	defer func() {
		nd.Stop()
		for i := 0; i < 5000 && goroutinesOf("sweeper.(*Sweeper)") != ""; i++ {
			time.Sleep(time.Millisecond)
		}
	}()
	kx, ky, kz := fleetKeys[0], fleetKeys[1], fleetKeys[5]
	put := func(k []byte, v string, del bool) error {
		return env.Update(func(txn *lmdb.Txn) error {
			dbi, err := txn.OpenDBI(fleetDBIs[0], lmdb.Create)
			if err != nil {
				return err
			}
			if e.Native {
				fl := byte(0)
				val := []byte(v)
				if del {
					fl, val = 1, nil
				}
				return txn.Put(dbi, k, model.BuildHeader(uint64(time.Now().UnixNano()), uint64(txn.ID()), fl, nil, val), 0)
			}
			if del {
				return txn.Del(dbi, k, nil)
			}
			return txn.Put(dbi, k, []byte(v), 0)
		})
	}
	// what a DBI holds for a key: (application value, is a marker, present)
	look := func(dbiName string, k []byte, headers bool) (string, bool, bool) {
		dump, err := lm.DumpEnv(env.Env)
		if err != nil {
			return "", false, false
		}
		d := dump.DBI(dbiName)
		if d == nil {
			return "", false, false
		}
		for _, en := range d.Entries {
			if string(en.Key) == string(k) {
				if !headers {
					return string(en.Val), false, true
				}
				h, herr := model.ReadHeader(en.Val)
				if herr != nil {
					return "", false, true
				}
				return string(h.AppVal), h.Flags&1 != 0, true
			}
		}
		return "", false, false
	}
	versioned := fleetDBIs[0]
	if !e.Native {
		versioned = syncer.SyncDBIShadowPrefix + fleetDBIs[0]
	}
	ownHas := func(k []byte, v string) bool {
		own := ""
		for _, n := range b.Names() {
			if instOf(n) == "a" && n > own {
				own = n
			}
		}
		data, ok := b.Get(own)
		if !ok {
			return false
		}
		flat, err := DecodeBlob(data)
		if err != nil {
			return false
		}
		for _, d := range flat.DBIs {
			if d.Name == fleetDBIs[0] {
				for _, en := range d.Entries {
					if string(en.Key) == string(k) && string(en.Value) == v && en.Flags&1 == 0 {
						return true
					}
				}
			}
		}
		return false
	}
	if err := put(kx, "v0", false); err != nil {
		return fmt.Errorf("harness: %v", err)
	}
	if err := put(ky, "v0", false); err != nil {
		return fmt.Errorf("harness: %v", err)
	}
	y, err := nd.Start()
	if err != nil {
		return err
	}
	runUntil := func(what string, cond func() bool) error {
		b0, t0 := beats.Load(), time.Now()
		for {
			if el := time.Since(t0); el > 8*time.Second {
				if float64(beats.Load()-b0) >= 0.6*float64(el/time.Millisecond)/1.2 || el > 10*time.Minute {
					break
				}
				b0, t0 = beats.Load(), time.Now()
			}
			for i := 0; i < 14; i++ {
				if y.Done {
					return fmt.Errorf("sync loop ended: %v", y.Err)
				}
				if y, err = nd.Step(); err != nil {
					return err
				}
			}
			if cond() {
				return nil
			}
			time.Sleep(time.Millisecond)
		}
		return fmt.Errorf("%s: not within 8 s of a running loop (no storage faults)", what)
	}
	if err := runUntil("first upload", func() bool { return ownHas(kx, "v0") && ownHas(ky, "v0") }); err != nil {
		return err
	}
	// the application deletes y: the marker is stamped now and expires after the retention
	if err := put(ky, "", true); err != nil {
		return fmt.Errorf("harness: %v", err)
	}
	deleted := time.Now()
	if err := runUntil("upload of the deletion", func() bool { return !ownHas(ky, "v0") } /* (the marker itself may already have expired and been swept on a slow machine) */); err != nil {
		return err
	}
	// park the loop at the point (it is idle: only the points of an idle iteration come by)
	reached := false
	for i := 0; i < 40 && !y.Done; i++ {
		if y.Point == e.Point {
			reached = true
			break
		}
		if y, err = nd.Step(); err != nil {
			return err
		}
	}
	_, _, markerThere := look(versioned, ky, true)
	early := markerThere && time.Since(deleted) < retention
	// the application commits while the loop is parked; then the sweeper removes the expired marker (its own,
	// non-empty write transaction); only then does the loop run on
	if err := put(kx, "appwrite", false); err != nil {
		return fmt.Errorf("harness: %v", err)
	}
	swept := WaitFor(5*time.Second, func() bool { _, _, ok := look(versioned, ky, true); return !ok })
	if !swept {
		return fmt.Errorf("harness: the sweeper (1 ms interval, retention %v) did not remove the marker within 5 s", retention)
	}
	if e.Peer {
		ts := uint64(1_000_000_000_000_000_005)
		if e.Native {
			ts = 15
		}
		b.Put(snapshot.Name(DBName, "p1", "GX", time.Now()), peerBlob(e.Native, []SPeer{{DBI: 0, Key: 5, TS: ts, Val: model.Bytes("from-peer")}}))
		if err := runUntil("merge of the peer's snapshot", func() bool { v, _, ok := look(fleetDBIs[0], kz, e.Native); return ok && v == "from-peer" }); err != nil {
			return err
		}
	}
	perr := runUntil("publication", func() bool { return ownHas(kx, "appwrite") })
	if v, _, ok := look(fleetDBIs[0], kx, e.Native); !ok || v != "appwrite" {
		return fmt.Errorf("the application committed %s/%x = \"appwrite\" while the loop was parked at %s, then the sweeper removed an expired marker (its own write transaction), then the loop ran on (peer snapshot merged: %v): the application now sees %q (present=%v) - a committed local write was destroyed (C03)", fleetDBIs[0], kx, y.Point, e.Peer, v, ok)
	}
	if perr != nil {
		return fmt.Errorf("the application committed %s/%x = \"appwrite\" while the loop was parked, then the sweeper removed an expired marker (its own write transaction): the loop is idle and the newest own snapshot does not carry the commit (C09): %v", fleetDBIs[0], kx, perr)
	}
	o.NonTrivial(early)
	o.ClassIf(reached, "parked-at-the-named-point")
	o.ClassIf(early, "commit-before-the-marker-expired")
	o.ClassIf(e.Peer, "peer-merged-after-the-sweep")
	return nil
}

func sweepCommitCases(yield func(enumSweepCommit) bool) {
	for _, native := range []bool{false, true} {
		for _, p := range []string{"sync.iter", "sync.before-next", "sync.before-info", "sync.before-sleep", "sync.before-send"} {
			for _, peer := range []bool{true, false} {
				if !yield(enumSweepCommit{Native: native, Point: p, Peer: peer}) {
					return
				}
			}
		}
	}
}

const sweepCommitRule = "enumeration over the real sync loop (scheduler) with the tomb sweeper really running (1 ms interval, retention 300 ms), {shadow, native} x 5 yield points of an idle iteration x {a peer snapshot is merged afterwards, not}: the application deletes a key (marker stamped now, uploaded), the loop is parked at the point, the application overwrites another key, the sweeper removes the expired marker in its own write transaction, the loop runs on: the application still sees its value and the newest own snapshot carries it; non-trivial = the commit happened before the marker expired"

func TestC03SweepCommit(t *testing.T) {
	vcore.RunEnum(t, vcore.Config{Property: "C03", Inflight: true, Rule: sweepCommitRule}, sweepCommitCases, checkSweepCommit)
}

func TestC09SweepCommit(t *testing.T) {
	vcore.RunEnum(t, vcore.Config{Property: "C09", Inflight: true, Rule: sweepCommitRule}, sweepCommitCases, checkSweepCommit)
}

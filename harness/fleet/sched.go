package fleet

import (
	"context"
	"fmt"
	"runtime"
	"strings"
	"sync"
	"sync/atomic"
	"time"

	"github.com/PowerDNS/lightningstream/config"
	"github.com/PowerDNS/lightningstream/syncer"
	"github.com/PowerDNS/lightningstream/utils/vhook"
	"github.com/sirupsen/logrus"

	"verif/harness/internal/fault"
	"verif/harness/internal/lm"
)

// ---------------------------------------------------------------------------
// Cooperative scheduler over the yield points of the real sync loop.
// The Sync goroutine of a managed instance parks at every "sync.*", "load.*"
// and "send.*" yield point until the harness resumes it; downloader events
// ("dl.*") are only counted.
// ---------------------------------------------------------------------------

type Yield struct {
	Point string
	N     uint64
	Done  bool  // the Sync goroutine has returned (or was crashed)
	Err   error // error returned by Sync
}

type cmd int

const (
	cmdContinue cmd = iota
	cmdCrash
)

type Node struct {
	Name string
	Env  *lm.Env
	H    *fault.Handle
	Conf config.Config
	LC   config.LMDB
	Opt  syncer.Options
	S    *syncer.Syncer

	mu      sync.Mutex
	running bool
	gen     int // incremented by every Start: the epilogue of an earlier life must not touch a later one
	yields  chan Yield
	resume  chan cmd
	cancel  context.CancelFunc
	parked  bool
	At      Yield // last yield observed

	dlDone, dlErr int // downloader events (guarded by mu)
}

// Every Start of an instance with the cleaner enabled launches one background
// cleaner run right away (the next one is an interval later). The harness
// drives further runs itself through VerifCleaner().RunOnce, which - like the
// Worker's own loop - is not meant to run concurrently with another RunOnce of
// the same Worker: WaitCleanersIdle waits until every launched background run
// has finished.
var (
	cleanRan      atomic.Int64
	cleanLaunched atomic.Int64
)

func WaitCleanersIdle(d time.Duration) bool {
	return WaitFor(d, func() bool { return cleanRan.Load() >= cleanLaunched.Load() })
}

// WaitFor polls cond until it holds or d has passed - d of time during which this process was actually running
// (see the heartbeat below): on an overloaded machine the limit stretches instead of producing a verdict.
func WaitFor(d time.Duration, cond func() bool) bool {
	for attempt := 0; attempt < 60; attempt++ {
		b0, t0 := beats.Load(), time.Now()
		for time.Since(t0) < d {
			if cond() {
				return true
			}
			time.Sleep(150 * time.Microsecond)
		}
		expected := float64(time.Since(t0)/time.Millisecond) / 1.2
		if float64(beats.Load()-b0) >= 0.6*expected {
			break
		}
	}
	return cond()
}

var (
	nodesMu sync.Mutex
	nodes   = map[string]*Node{}
	hookOn  bool
)

func installHook() {
	nodesMu.Lock()
	defer nodesMu.Unlock()
	if hookOn {
		return
	}
	hookOn = true
	vhook.Set(YieldAt)
}

// YieldAt is the handler behind every yield point; harnesses may also call it from hooks of the
// product's public hook interface (e.g. Hooks.BeforeRead: inside the dump transaction of an upload) to
// get a scheduling point where the product has no named one.
func YieldAt(scope, point string, n uint64) {
	func() {
		if point == "clean.ran" {
			// the background cleaner of some instance finished a run (its scope is the database name)
			cleanRan.Add(1)
			return
		}
		nodesMu.Lock()
		nd := nodes[scope]
		if nd == nil {
			// (a yield point that names the instance by its configured name instead of its file-name form)
			nd = nodes[sanitiseScope(scope)]
		}
		nodesMu.Unlock()
		if nd == nil {
			return
		}
		if strings.HasPrefix(point, "dl.") {
			nd.mu.Lock()
			if point == "dl.done" {
				nd.dlDone++
			} else {
				nd.dlErr++
			}
			nd.mu.Unlock()
			return
		}
		if strings.HasPrefix(point, "sweep.") {
			return
		}
		nd.mu.Lock()
		run := nd.running
		nd.mu.Unlock()
		if !run {
			return // direct driver calls (SendOnce/LoadOnce from the test goroutine)
		}
		nd.yields <- Yield{Point: point, N: n}
		if c := <-nd.resume; c == cmdCrash {
			runtime.Goexit()
		}
	}()
}

func sanitiseScope(s string) string {
	b := []byte(s)
	for i, c := range b {
		if !(c >= 'a' && c <= 'z' || c >= 'A' && c <= 'Z' || c >= '0' && c <= '9' || c == '-') {
			b[i] = '-'
		}
	}
	return string(b)
}

// NewNode creates a managed instance (not started).
func NewNode(name string, env *lm.Env, h *fault.Handle, conf config.Config, lc config.LMDB, opt syncer.Options) *Node {
	installHook()
	nd := &Node{Name: name, Env: env, H: h, Conf: conf, LC: lc, Opt: opt}
	nodesMu.Lock()
	nodes[name] = nd
	nodesMu.Unlock()
	return nd
}

// Start launches the real Sync loop and returns at its first yield point.
func (nd *Node) Start() (Yield, error) {
	s, err := syncer.New(DBName, nd.Env.Env, nd.H, nd.Conf, nd.LC, nd.Opt)
	if err != nil {
		return Yield{}, err
	}
	nd.S = s
	ctx, cancel := context.WithCancel(context.Background())
	nd.mu.Lock()
	nd.cancel = cancel
	nd.yields = make(chan Yield)
	nd.resume = make(chan cmd)
	nd.running = true
	nd.gen++
	gen := nd.gen
	nd.mu.Unlock()
	yields := nd.yields
	if nd.Conf.Storage.Cleanup.Enabled && !nd.Opt.ReceiveOnly {
		cleanLaunched.Add(1)
	}
	go func() {
		finished := false
		defer func() {
			// Goexit (crash) or normal return (a later life of the same Node may already be running)
			nd.mu.Lock()
			if nd.gen == gen {
				nd.running = false
			}
			nd.mu.Unlock()
			cancel()
			if !finished {
				yields <- Yield{Done: true, Point: "crashed"}
			}
		}()
		err := s.Sync(ctx)
		finished = true
		nd.mu.Lock()
		if nd.gen == gen {
			nd.running = false
		}
		nd.mu.Unlock()
		yields <- Yield{Done: true, Point: "returned", Err: err}
	}()
	return nd.wait()
}

const yieldTimeout = 20 * time.Second

// heartbeat: one tick per millisecond while this process gets CPU time. A wait for a yield point that times out
// while the heartbeat itself was (nearly) standing still says nothing about the sync loop - the machine is
// overloaded, or the runtime had the world stopped - and the wait goes on (the driver's own time limit ends a
// process that never comes back: inconclusive, not a violation).
var beats atomic.Int64

func init() {
	go func() {
		for {
			time.Sleep(time.Millisecond)
			beats.Add(1)
		}
	}()
}

func (nd *Node) wait() (Yield, error) {
	for attempt := 0; ; attempt++ {
		b0, t0 := beats.Load(), time.Now()
		select {
		case y := <-nd.yields:
			nd.At = y
			nd.parked = !y.Done
			return y, nil
		case <-time.After(yieldTimeout):
		}
		expected := float64(time.Since(t0)/time.Millisecond) / 1.2
		if float64(beats.Load()-b0) < 0.6*expected && attempt < 60 {
			continue // starved of CPU: that time does not count
		}
		return Yield{}, fmt.Errorf("instance %s did not reach a yield point within %v (stuck; the process itself was running: %d heartbeats)\n%s", nd.Name, yieldTimeout, beats.Load()-b0, goroutinesOf("lightningstream/syncer"))
	}
}

// Quiet reports whether no Sync goroutine of this node is running any more.
func (nd *Node) Quiet() bool {
	nd.mu.Lock()
	defer nd.mu.Unlock()
	return !nd.running
}

// CloseEnv closes the node's LMDB unless a Sync goroutine is still running in it (after a wait that timed out):
// closing an environment that is in use crashes the process in C code; a leaked scratch environment does not.
func (nd *Node) CloseEnv() {
	for i := 0; i < 2000 && !nd.Quiet(); i++ {
		time.Sleep(time.Millisecond)
	}
	if nd.Quiet() {
		nd.Env.Close()
	}
}

// Step resumes the parked Sync goroutine and waits for its next yield.
func (nd *Node) Step() (Yield, error) {
	if !nd.parked {
		return nd.At, fmt.Errorf("harness: instance %s is not parked", nd.Name)
	}
	nd.parked = false
	nd.resume <- cmdContinue
	return nd.wait()
}

// Crash kills the Sync goroutine at the yield point it is parked at (all
// in-memory state is lost) and stops its background goroutines.
func (nd *Node) Crash() error {
	if !nd.parked {
		return fmt.Errorf("harness: instance %s is not parked", nd.Name)
	}
	nd.parked = false
	nd.resume <- cmdCrash
	y, err := nd.wait()
	if err != nil {
		return err
	}
	if !y.Done {
		return fmt.Errorf("harness: crash did not end the loop")
	}
	time.Sleep(2 * time.Millisecond) // let receiver/downloader goroutines observe the cancellation
	return nil
}

// Stop cancels the context and lets the loop run to its end.
func (nd *Node) Stop() {
	nd.mu.Lock()
	cancel := nd.cancel
	nd.mu.Unlock()
	if cancel != nil {
		cancel()
	}
	for nd.parked {
		nd.parked = false
		nd.resume <- cmdContinue
		y, err := nd.wait()
		if err != nil || y.Done {
			break
		}
	}
}

func (nd *Node) Forget() {
	nodesMu.Lock()
	delete(nodes, nd.Name)
	nodesMu.Unlock()
}

func (nd *Node) Downloads() (done, failed int) {
	nd.mu.Lock()
	defer nd.mu.Unlock()
	return nd.dlDone, nd.dlErr
}

// WaitDownload waits until the number of finished download attempts (success
// or error) exceeds the given previous count.
func (nd *Node) WaitDownload(prevDone, prevErr int, d time.Duration) bool {
	return WaitFor(d, func() bool {
		a, b := nd.Downloads()
		return a+b > prevDone+prevErr
	})
}

func goroutinesOf(substr string) string {
	buf := make([]byte, 4<<20)
	n := runtime.Stack(buf, true)
	var out []string
	for _, g := range strings.Split(string(buf[:n]), "\n\n") {
		if strings.Contains(g, substr) {
			lines := strings.Split(g, "\n")
			if len(lines) > 9 {
				lines = lines[:9]
			}
			out = append(out, strings.Join(lines, "\n"))
		}
	}
	return strings.Join(out, "\n--\n")
}

// ---------------------------------------------------------------------------
// Log gates: scheduling points at the log statements of a managed instance.
// The product has no named yield point INSIDE its LMDB transactions or between
// two transactions of one LoadOnce/SendOnce call; its log statements are the
// only places where the goroutine that runs them can be held up there. A gate
// is called, in the logging goroutine, for every log entry of the instance
// (entries carry the "instance" field); while a gate is installed the global
// logger runs at debug level (output stays discarded).
// ---------------------------------------------------------------------------

type LogGate func(msg string)

var (
	logGateMu sync.Mutex
	logGates  = map[string]LogGate{}
	logHookOn bool
)

type gateHook struct{}

func (gateHook) Levels() []logrus.Level { return logrus.AllLevels }

func (gateHook) Fire(e *logrus.Entry) error {
	inst, _ := e.Data["instance"].(string)
	logGateMu.Lock()
	g := logGates[inst]
	logGateMu.Unlock()
	if g != nil {
		g(e.Message)
	}
	return nil
}

// SetLogGate installs g for the instance (nil removes it).
func SetLogGate(inst string, g LogGate) {
	logGateMu.Lock()
	defer logGateMu.Unlock()
	if !logHookOn {
		logHookOn = true
		logrus.AddHook(gateHook{})
	}
	if g == nil {
		delete(logGates, inst)
		if len(logGates) == 0 {
			logrus.SetLevel(logrus.PanicLevel)
		}
		return
	}
	logGates[inst] = g
	logrus.SetLevel(logrus.DebugLevel)
}

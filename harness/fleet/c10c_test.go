package fleet

import (
	"context"
	"fmt"
	"testing"
	"time"

	"github.com/PowerDNS/lightningstream/config"
	"github.com/PowerDNS/lightningstream/lmdbenv/header"
	"github.com/PowerDNS/lightningstream/syncer"
	"github.com/PowerDNS/lightningstream/syncer/sweeper"
	"github.com/PowerDNS/lmdb-go/lmdb"
	"github.com/sirupsen/logrus"
	"pgregory.net/rapid"

	"verif/harness/internal/lm"
	"verif/harness/internal/model"
	"verif/harness/internal/vcore"
)

// ---------------------------------------------------------------------------
// C10 with the tomb sweeper: a peer's (possibly old) snapshot that holds nothing
// newer than the local data is merged again after the sweeper has removed the
// expired markers: no LMDB transaction, whatever the age of the snapshot.
// ---------------------------------------------------------------------------

type C10SweptEntry struct {
	Del bool `json:"del,omitempty"`
	// AgeClass: age of the entry when the case runs, relative to the retention r and the age s of the
	// snapshot: 0 = s + 1 s | 1 = s + r/2 | 2 = just below r (r - 1 h) | 3 = r + 1 s | 4 = r + 1 h | 5 = s + r + 1 h | 6 = 3 r
	AgeClass int `json:"age_class"`
}

type C10Swept struct {
	RetentionDays float32         `json:"retention_days"`
	SnapAgeClass  int             `json:"snapshot_age_class"` // 0 fresh | 1 an hour | 2 r/2 | 3 r - 1 h | 4 r + 1 h | 5 2 r
	Entries       []C10SweptEntry `json:"entries"`
	Pad           bool            `json:"pad,omitempty"`
}

func genC10Swept(t *rapid.T) C10Swept {
	c := C10Swept{RetentionDays: rapid.SampledFrom([]float32{0.5, 1, 7, 370}).Draw(t, "days"),
		SnapAgeClass: rapid.IntRange(0, 5).Draw(t, "snap_age"), Pad: rapid.IntRange(0, 4).Draw(t, "pad") == 0}
	for i := rapid.IntRange(1, 8).Draw(t, "n"); i > 0; i-- {
		c.Entries = append(c.Entries, C10SweptEntry{Del: rapid.IntRange(0, 3).Draw(t, "del") > 0, AgeClass: rapid.IntRange(0, 6).Draw(t, "age")})
	}
	return c
}

func checkC10Swept(c C10Swept, o *vcore.Obs) error {
	sw := config.Sweeper{Enabled: true, RetentionDays: c.RetentionDays, LockDuration: time.Hour, Interval: time.Hour, FirstInterval: time.Hour, ReleaseDuration: time.Millisecond}
	r := sw.RetentionDuration()
	env := lm.New(16<<20, 8)
	defer env.Close()
	conf := BaseConfig("a")
	conf.Sweeper = sw
	s, err := syncer.New(DBName, env.Env, NewBucketHandle(), conf, config.LMDB{SchemaTracksChanges: true, HeaderExtraPaddingBlock: c.Pad}, syncer.Options{})
	if err != nil {
		return err
	}
	now := time.Now()
	snapAge := []time.Duration{0, time.Hour, r / 2, r - time.Hour, r + time.Hour, 2 * r}[c.SnapAgeClass%6]
	takenAt := now.Add(-snapAge)
	var kvs []model.KV
	expired, staleAtLoadOnly := 0, 0
	err = env.Update(func(txn *lmdb.Txn) error {
		dbi, err := txn.OpenDBI("d", lmdb.Create)
		if err != nil {
			return err
		}
		for i, e := range c.Entries {
			age := []time.Duration{snapAge + time.Second, snapAge + r/2, r - time.Hour, r + time.Second, r + time.Hour, snapAge + r + time.Hour, 3 * r}[e.AgeClass%7]
			if age < snapAge+time.Second {
				age = snapAge + time.Second // (an entry cannot be younger than the snapshot that carries it)
			}
			ts := now.Add(-age)
			key := []byte(fmt.Sprintf("k%02d", i))
			fl, val := byte(0), []byte("v")
			if e.Del {
				fl, val = 1, nil
				if age > r {
					expired++
					if age-snapAge < r {
						staleAtLoadOnly++ // not yet expired when the snapshot was taken
					}
				}
			}
			if err := txn.Put(dbi, key, model.BuildHeader(uint64(ts.UnixNano()), uint64(txn.ID()), fl, nil, val), 0); err != nil {
				return err
			}
			kvs = append(kvs, model.KV{Key: key, TS: uint64(ts.UnixNano()), Flags: uint32(fl), Val: model.ValOf(val)})
		}
		return nil
	})
	if err != nil {
		return fmt.Errorf("harness: %v", err)
	}
	snap := model.Snap{FormatVersion: 3, CompatVersion: 1, Meta: model.Meta{InstanceID: "peer", DatabaseName: DBName, TimestampNano: uint64(takenAt.UnixNano())},
		DBIs: []model.DBI{{Name: "d", Entries: kvs}}}
	merge := func(what string) error {
		before := lm.LastTxnID(env.Env)
		dump0, _ := lm.DumpEnv(env.Env)
		_, _, err := s.LoadOnce(context.Background(), env.Env, "peer", MkUpdate(snap, takenAt), header.TxnID(before))
		if err != nil {
			return fmt.Errorf("%s: LoadOnce: %v", what, err)
		}
		if after := lm.LastTxnID(env.Env); after != before {
			dump1, _ := lm.DumpEnv(env.Env)
			return fmt.Errorf("%s: merging a snapshot (taken %v ago) that holds nothing newer than the local data committed LMDB transaction %d (retention %v, %d expired markers of which %d were not yet expired when the snapshot was taken): %s",
				what, snapAge, after, r, expired, staleAtLoadOnly, dump0.Diff(dump1))
		}
		return nil
	}
	if err := merge("before the sweep"); err != nil {
		return err
	}
	swp := sweeper.New(DBName, sw, env.Env, logrus.StandardLogger(), true)
	if err := swp.VerifSweepOnce(context.Background()); err != nil {
		return fmt.Errorf("sweep: %v", err)
	}
	if err := merge("after the sweeper removed the expired markers"); err != nil {
		return err
	}
	o.NonTrivial(expired > 0)
	o.ClassIf(staleAtLoadOnly > 0, "marker-expired-now-but-not-when-the-snapshot-was-taken")
	o.ClassIf(snapAge > r, "snapshot-older-than-the-retention")
	o.ClassIf(c.Pad, "header-padding-option")
	return nil
}

func TestC10Swept(t *testing.T) {
	vcore.Run(t, vcore.Config{Property: "C10",
		Rule: "native instance with the tomb sweeper enabled (retention 0.5/1/7/370 days): 1-8 entries (live / deletion markers) whose ages are drawn relative to the retention r and to the age s of a peer snapshot that carries exactly the same versions (s from fresh to 2 r; ages s+1 s, s+r/2, r-1 h, r+1 s, r+1 h, s+r+1 h, 3 r); the snapshot is merged, the sweeper runs once, the snapshot is merged again: neither merge may commit an LMDB transaction (the snapshot holds nothing newer; swept markers are not re-created, whatever the age of the snapshot); non-trivial = at least one marker was expired and swept"},
		genC10Swept, checkC10Swept)
}

package fleet

import (
	"encoding/binary"
	"fmt"
	"testing"
	"time"

	"github.com/PowerDNS/lightningstream/config"
	"github.com/PowerDNS/lightningstream/lmdbenv/header"
	"github.com/PowerDNS/lightningstream/snapshot"
	"github.com/PowerDNS/lmdb-go/lmdb"
	"pgregory.net/rapid"

	"verif/harness/internal/lm"
	"verif/harness/internal/vcore"
)

// ---------------------------------------------------------------------------
// C04 in shadow mode with the tomb sweeper configured: deleting a key whose
// current version is OLD (unchanged for longer than the retention, or present
// since before the first sync) is a deletion like any other - the marker is
// recorded with the detection time, travels in the next snapshot, deletes the
// key on the peer and survives the merge of the peer's older snapshot that
// still carries the live version.
// ---------------------------------------------------------------------------

type C04OldKey struct {
	DBI    int    `json:"dbi"`
	Key    int    `json:"key"`
	Age    string `json:"age"` // how long ago the live version was detected: ts1 | 5r | r+1d | r-1h | r/2 | 1h | now
	Delete bool   `json:"delete"`
}

type C04Old struct {
	RetentionDays int         `json:"retention_days"`
	SweeperA      bool        `json:"sweeper_a"`
	SweeperB      bool        `json:"sweeper_b"`
	IntKeys       bool        `json:"int_keys,omitempty"`
	Keys          []C04OldKey `json:"keys"`
	// ViaLoad: the capture that notices the deletions is the one inside LoadOnce (the peer's older snapshot arrives
	// before the next upload), not the one inside SendOnce
	ViaLoad bool `json:"via_load,omitempty"`
}

var c04Ages = []string{"ts1", "5r", "r+1d", "r-1h", "r/2", "1h", "now"}

func c04oKey(intKeys bool, i int) []byte {
	if intKeys {
		b := make([]byte, 4)
		binary.LittleEndian.PutUint32(b, []uint32{0, 1, 255, 256, 70000, 1 << 31}[i%6])
		return b
	}
	return []byte(fmt.Sprintf("key-%d", i))
}

func checkC04Old(c C04Old, o *vcore.Obs) error {
	ret := time.Duration(c.RetentionDays) * 24 * time.Hour
	f := New(Options{Native: false, N: 2, Tweak: func(i int, conf *config.Config, lc *config.LMDB) {
		on := c.SweeperA
		if i == 1 {
			on = c.SweeperB
		}
		// (the sweeper object is only started by Sync; here its configuration matters: it arms the stale-marker cutoffs)
		conf.Sweeper = config.Sweeper{Enabled: on, RetentionDays: float32(c.RetentionDays), Interval: time.Hour, FirstInterval: time.Hour,
			LockDuration: 50 * time.Millisecond, ReleaseDuration: 50 * time.Millisecond}
	}})
	defer f.Close()
	a, b := f.Insts[0], f.Insts[1]
	now := time.Now()
	ageOf := func(age string) uint64 {
		var d time.Duration
		switch age {
		case "ts1":
			return 1
		case "5r":
			d = 5 * ret
		case "r+1d":
			d = ret + 24*time.Hour
		case "r-1h":
			d = ret - time.Hour
		case "r/2":
			d = ret / 2
		case "1h":
			d = time.Hour
		case "now":
			d = time.Second
		}
		return uint64(now.Add(-d).UnixNano())
	}
	dbiName := func(i int) string { return fmt.Sprintf("d%d", i) }
	flags := uint(0)
	if c.IntKeys {
		flags = 0x08
	}
	// 1. the application of A writes the keys, oldest group first; each group is detected at its own time
	live := map[string]map[string]string{}
	stamp := map[string]map[string]uint64{}
	for _, age := range c04Ages {
		n := 0
		err := a.Env.Update(func(txn *lmdb.Txn) error {
			for _, k := range c.Keys {
				if k.Age != age {
					continue
				}
				dbi, err := txn.OpenDBI(dbiName(k.DBI), lmdb.Create|flags)
				if err != nil {
					return err
				}
				key := c04oKey(c.IntKeys, k.Key)
				val := fmt.Sprintf("val-%d-%d", k.DBI, k.Key)
				if err := txn.Put(dbi, key, []byte(val), 0); err != nil {
					return err
				}
				if live[dbiName(k.DBI)] == nil {
					live[dbiName(k.DBI)] = map[string]string{}
					stamp[dbiName(k.DBI)] = map[string]uint64{}
				}
				live[dbiName(k.DBI)][string(key)] = val
				stamp[dbiName(k.DBI)][string(key)] = ageOf(age)
				n++
			}
			return nil
		})
		if err != nil {
			return fmt.Errorf("harness: %v", err)
		}
		if n == 0 {
			continue
		}
		if err := a.Env.Update(func(txn *lmdb.Txn) error {
			return a.S.VerifMainToShadow(f.Ctx, txn, header.Timestamp(ageOf(age)))
		}); err != nil {
			return fmt.Errorf("capture at %s: %v", age, err)
		}
	}
	upload := func(in *Inst) (string, error) {
		n0 := f.B.LogLen()
		txnID, err := in.S.SendOnce(f.Ctx, in.Env.Env)
		if err != nil {
			return "", fmt.Errorf("SendOnce on %s: %v", in.Name, err)
		}
		in.LastSynced = txnID
		for _, op := range f.B.Log()[n0:] {
			if op.Kind == "store" && op.Applied && op.By == in.Name {
				return op.Name, nil
			}
		}
		return "", fmt.Errorf("SendOnce on %s stored nothing", in.Name)
	}
	merge := func(in *Inst, name string) error {
		data, _ := f.B.Get(name)
		snap, err := snapshot.LoadData(data)
		if err != nil {
			return err
		}
		ni, err := snapshot.ParseName(name)
		if err != nil {
			return err
		}
		txnID, lc, err := in.S.LoadOnce(f.Ctx, in.Env.Env, ni.InstanceID, snapshot.Update{Snapshot: snap, NameInfo: ni}, in.LastSynced)
		if err != nil {
			return fmt.Errorf("LoadOnce(%s) on %s: %v", name, in.Name, err)
		}
		if !lc {
			in.LastSynced = txnID
		}
		return nil
	}
	appView := func(in *Inst) (map[string]map[string]string, error) {
		d, err := lm.DumpEnv(in.Env.Env)
		if err != nil {
			return nil, err
		}
		m := map[string]map[string]string{}
		for _, dd := range d.DBIs {
			if len(dd.Name) >= 5 && dd.Name[:5] == "_sync" {
				continue
			}
			m[dd.Name] = map[string]string{}
			for _, e := range dd.Entries {
				m[dd.Name][string(e.Key)] = string(e.Val)
			}
		}
		return m, nil
	}
	sameView := func(who string, got map[string]map[string]string) error {
		for dn, keys := range live {
			for k, v := range keys {
				if gv, ok := got[dn][k]; !ok || gv != v {
					return fmt.Errorf("%s: application should see %s/%x = %q, sees %q (present=%v)", who, dn, k, v, gv, ok)
				}
			}
		}
		for dn, keys := range got {
			for k, v := range keys {
				if _, ok := live[dn][k]; !ok {
					return fmt.Errorf("%s: application sees %s/%x = %q, a key that was deleted (resurrected / deletion not applied)", who, dn, k, v)
				}
			}
		}
		return nil
	}
	// 2. A publishes, B takes it over and publishes its own snapshot (which holds the live versions)
	s1, err := upload(a)
	if err != nil {
		return err
	}
	if err := merge(b, s1); err != nil {
		return err
	}
	vb, err := appView(b)
	if err != nil {
		return err
	}
	if err := sameView("peer after the first merge", vb); err != nil {
		return err
	}
	sb1, err := upload(b)
	if err != nil {
		return err
	}
	// 3. the application of A deletes
	deleted := map[string]map[string]bool{}
	nDel, nOldDel := 0, 0
	err = a.Env.Update(func(txn *lmdb.Txn) error {
		for _, k := range c.Keys {
			if !k.Delete {
				continue
			}
			dbi, err := txn.OpenDBI(dbiName(k.DBI), 0)
			if err != nil {
				return err
			}
			key := c04oKey(c.IntKeys, k.Key)
			if _, ok := live[dbiName(k.DBI)][string(key)]; !ok {
				continue
			}
			if err := txn.Del(dbi, key, nil); err != nil {
				return err
			}
			delete(live[dbiName(k.DBI)], string(key))
			if deleted[dbiName(k.DBI)] == nil {
				deleted[dbiName(k.DBI)] = map[string]bool{}
			}
			deleted[dbiName(k.DBI)][string(key)] = true
			nDel++
			if k.Age == "ts1" || k.Age == "5r" || k.Age == "r+1d" || k.Age == "r-1h" {
				nOldDel++
			}
		}
		return nil
	})
	if err != nil {
		return fmt.Errorf("harness: %v", err)
	}
	t0 := uint64(time.Now().UnixNano())
	if c.ViaLoad {
		// the peer's older snapshot arrives first: LoadOnce notices the deletions itself
		if err := merge(a, sb1); err != nil {
			return err
		}
		va, err := appView(a)
		if err != nil {
			return err
		}
		if err := sameView("deleting instance after merging the peer's older snapshot", va); err != nil {
			return err
		}
	}
	s2, err := upload(a)
	if err != nil {
		return err
	}
	t1 := uint64(time.Now().UnixNano())
	// 4. the snapshot carries a marker, stamped with the detection time, for every deleted key
	data, _ := f.B.Get(s2)
	flat, err := DecodeBlob(data)
	if err != nil {
		return err
	}
	inSnap := map[string]map[string]Ver{}
	for _, d := range flat.DBIs {
		inSnap[d.Name] = map[string]Ver{}
		for _, e := range d.Entries {
			inSnap[d.Name][string(e.Key)] = Ver{TS: e.TS, Del: e.Flags&1 != 0, Val: e.Value}
		}
	}
	for dn, keys := range deleted {
		for k := range keys {
			v, ok := inSnap[dn][k]
			switch {
			case !ok:
				return fmt.Errorf("snapshot uploaded after the deletion has no entry for %s/%x (stamped %d before): the deletion does not travel", dn, k, stamp[dn][k])
			case !v.Del || len(v.Val) != 0:
				return fmt.Errorf("snapshot uploaded after the deletion carries %s/%x as %v, not as a deletion marker", dn, k, VerSet{v})
			case v.TS < t0 || v.TS > t1:
				return fmt.Errorf("marker of %s/%x is stamped %d, the deletion was detected in [%d,%d]", dn, k, v.TS, t0, t1)
			}
		}
	}
	for dn, keys := range live {
		for k, val := range keys {
			v, ok := inSnap[dn][k]
			if !ok || v.Del || string(v.Val) != val || v.TS != stamp[dn][k] {
				return fmt.Errorf("snapshot entry of the untouched key %s/%x: %v (present=%v), want (ts=%d %q)", dn, k, VerSet{v}, ok, stamp[dn][k], val)
			}
		}
	}
	// 5. no resurrection on A by the peer's older snapshot; 6. the deletion reaches B
	if err := merge(a, sb1); err != nil {
		return err
	}
	va, err := appView(a)
	if err != nil {
		return err
	}
	if err := sameView("deleting instance after merging the peer's older snapshot", va); err != nil {
		return err
	}
	if err := merge(b, s2); err != nil {
		return err
	}
	vb, err = appView(b)
	if err != nil {
		return err
	}
	if err := sameView("peer after merging the snapshot with the markers", vb); err != nil {
		return err
	}
	// and once more round: B's next snapshot into A
	sb2, err := upload(b)
	if err != nil {
		return err
	}
	if err := merge(a, sb2); err != nil {
		return err
	}
	if va, err = appView(a); err != nil {
		return err
	}
	if err := sameView("deleting instance after the second exchange", va); err != nil {
		return err
	}
	o.NonTrivial(nOldDel > 0 && (c.SweeperA || c.SweeperB))
	o.ClassIf(nOldDel > 0, "deleted-key-older-than-the-retention")
	o.ClassIf(nDel > nOldDel, "deleted-key-recent")
	o.ClassIf(c.SweeperA, "sweeper-configured-on-the-deleting-instance")
	o.ClassIf(c.SweeperB, "sweeper-configured-on-the-peer")
	o.ClassIf(c.ViaLoad, "deletion-noticed-by-LoadOnce")
	for dn := range deleted {
		o.ClassIf(len(live[dn]) == 0, "dbi-emptied")
	}
	return nil
}

func TestC04OldDelete(t *testing.T) {
	vcore.Run(t, vcore.Config{Property: "C04",
		Rule: "rapid, shadow mode, two instances, tomb sweeper configured on either (retention 1-370 days): keys whose live version was detected at timestamp 1 / 5 retentions / retention+1 day / retention-1 hour / half a retention / an hour / a second ago (plain or integer-key DBIs); the application deletes a generated subset (possibly a whole DBI); noticed by SendOnce or by LoadOnce of the peer's older snapshot: the next snapshot carries a marker stamped with the detection time for every deleted key and the untouched entries unchanged, the peer's older snapshot does not bring the keys back, the peer drops them; non-trivial = a deleted key was older than retention-1h and a sweeper is configured"},
		func(t *rapid.T) C04Old {
			c := C04Old{RetentionDays: rapid.SampledFrom([]int{1, 7, 30, 370}).Draw(t, "days"),
				SweeperA: rapid.IntRange(0, 3).Draw(t, "sw_a") > 0, SweeperB: rapid.Bool().Draw(t, "sw_b"),
				IntKeys: rapid.IntRange(0, 3).Draw(t, "int") == 0, ViaLoad: rapid.Bool().Draw(t, "via_load")}
			nk := rapid.IntRange(1, 6).Draw(t, "nkeys")
			seen := map[[2]int]bool{}
			for i := 0; i < nk; i++ {
				k := C04OldKey{DBI: rapid.IntRange(0, 1).Draw(t, "dbi"), Key: rapid.IntRange(0, 5).Draw(t, "key"),
					Age: rapid.SampledFrom(c04Ages).Draw(t, "age"), Delete: rapid.IntRange(0, 2).Draw(t, "delete") > 0}
				if seen[[2]int{k.DBI, k.Key}] {
					continue
				}
				seen[[2]int{k.DBI, k.Key}] = true
				c.Keys = append(c.Keys, k)
			}
			return c
		}, checkC04Old)
}

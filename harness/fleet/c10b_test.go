package fleet

import (
	"fmt"
	"strings"
	"testing"
	"time"

	"github.com/PowerDNS/lightningstream/config"
	"github.com/PowerDNS/lightningstream/snapshot"
	"github.com/PowerDNS/lightningstream/syncer"
	"pgregory.net/rapid"

	"verif/harness/internal/fault"
	"verif/harness/internal/lm"
	"verif/harness/internal/model"
	"verif/harness/internal/vcore"
)

// ---------------------------------------------------------------------------
// C10 part B: the real loops stop producing snapshots once applications stop writing
// ---------------------------------------------------------------------------

func storesBy(b *fault.Bucket, inst string, from int) int {
	n := 0
	for _, op := range b.Log()[from:] {
		if op.Kind == "store" && op.Applied && op.By == inst {
			n++
		}
	}
	return n
}

func checkC10Loop(c C05Case, o *vcore.Obs) error {
	f, err := newC05Fleet(c)
	if err != nil {
		return err
	}
	defer f.close()
	startedAt := time.Now() // not later than the moment any of the loops starts
	for _, nd := range f.nodes {
		if _, err := nd.Start(); err != nil {
			return err
		}
	}
	// a forced-snapshot interval that can elapse during the case relaxes the counting clauses; the
	// per-upload justification below then also accepts "the interval has passed since the previous one"
	forcedPossible := c.Force > 0 && c.Force < int64(time.Minute)
	appCommits := 0
	commitsBy := map[string]int{}
	commitIDs := map[string][]int64{} // instance -> LMDB transaction ids of its application's commits
	heldPending := map[int]bool{}     // instances whose application transaction is still open (commits during a later step)
	for oi, op := range c.Ops {
		before := lm.LastTxnID(f.nodes[op.Inst%c.N].Env.Env)
		if err := f.exec(oi, op); err != nil {
			return err
		}
		for i := range heldPending {
			if f.held[i] == nil {
				// it has committed meanwhile (while the loop of that instance ran on)
				delete(heldPending, i)
				appCommits++
				commitsBy[f.nodes[i].Name]++
				commitIDs[f.nodes[i].Name] = append(commitIDs[f.nodes[i].Name], f.lastAppTxn[i])
			}
		}
		if op.Kind == "app" && f.held[op.Inst%c.N] != nil {
			heldPending[op.Inst%c.N] = true
			continue
		}
		if op.Kind == "app" && lm.LastTxnID(f.nodes[op.Inst%c.N].Env.Env) != before {
			appCommits++
			commitsBy[f.nodes[op.Inst%c.N].Name]++
			commitIDs[f.nodes[op.Inst%c.N].Name] = append(commitIDs[f.nodes[op.Inst%c.N].Name], lm.LastTxnID(f.nodes[op.Inst%c.N].Env.Env))
		}
	}
	// ---- write-free phase
	mark := f.b.LogLen()
	rounds := 2*c.N + 2
	storesPerRound := make([]int, rounds)
	exchanged := false
	for r := 0; r < rounds; r++ {
		m0 := f.b.LogLen()
		for i := range f.nodes {
			// two full iterations per instance and round
			for k := 0; k < 2; k++ {
				if err := f.step(i, 60, "sync.before-sleep"); err != nil {
					return err
				}
			}
		}
		time.Sleep(3 * time.Millisecond) // let the receivers fetch what was just stored
		for _, nd := range f.nodes {
			storesPerRound[r] += storesBy(f.b, nd.Name, m0)
		}
	}
	for _, nd := range f.nodes {
		if forcedPossible {
			break
		}
		// one upload may have been in flight when the last commit landed, plus one for that commit
		if n := storesBy(f.b, nd.Name, mark); n > 2 {
			return fmt.Errorf("%s uploaded %d snapshots after the applications stopped writing (an upload in flight plus one pending upload are justified); stores per round: %v", nd.Name, n, storesPerRound)
		}
	}
	for r := 2; r < rounds; r++ {
		if storesPerRound[r] != 0 && !forcedPossible {
			return fmt.Errorf("snapshots are still being uploaded %d rounds after the last application write: stores per round %v (echo)", r, storesPerRound)
		}
	}
	total := 0
	for _, nd := range f.nodes {
		total += storesBy(f.b, nd.Name, 0)
	}
	// every instance starts with an empty LMDB here (no start-up upload): each upload needs its own
	// preceding local application commit
	for _, nd := range f.nodes {
		if n := storesBy(f.b, nd.Name, 0); n > commitsBy[nd.Name] && !forcedPossible {
			return fmt.Errorf("%s uploaded %d snapshots but its application committed only %d transactions: an instance uploads only after a local application change (echo upload)", nd.Name, n, commitsBy[nd.Name])
		}
	}
	_ = total
	forcedSeen := 0
	// ... more precisely: every snapshot states the LMDB transaction its image was taken at; between the
	// images of two consecutive uploads of an instance (before the first one: since the empty start) its
	// application must have committed at least once - otherwise the second one is an echo of the first
	for _, nd := range f.nodes {
		prev := int64(0)
		prevTaken := uint64(startedAt.UnixNano())
		k := 0
		for _, op := range f.b.Log() {
			if op.Kind != "store" || !op.Applied || op.By != nd.Name {
				continue
			}
			flat, err := DecodeBlob(op.Data)
			if err != nil {
				return fmt.Errorf("%s uploaded %s, which the reference codec cannot decode: %v", nd.Name, op.Name, err)
			}
			at := flat.Meta.LmdbTxnID
			justified := false
			for _, id := range commitIDs[nd.Name] {
				if id > prev && id <= at {
					justified = true
				}
			}
			if !justified && c.Force > 0 && flat.Meta.TimestampNano > prevTaken && flat.Meta.TimestampNano-prevTaken > uint64(c.Force) {
				justified = true // the configured forced interval has passed since the previous snapshot (or the start)
				forcedSeen++
			}
			prevTaken = flat.Meta.TimestampNano
			if !justified {
				return fmt.Errorf("%s uploaded %s (upload %d, image of LMDB transaction %d) although its application committed nothing since the image of its previous upload (transaction %d; application commits: %v): an instance uploads only after a local application change (echo of its own data)", nd.Name, op.Name, k+1, at, prev, commitIDs[nd.Name])
			}
			prev = at
			k++
		}
	}
	// and everybody holds the same data now
	var ref map[string]map[string]Ver
	for i := range f.nodes {
		ver, err := contentOf(f.nodes[i].Env, c.Native)
		if err != nil {
			return err
		}
		if i == 0 {
			ref = ver
		} else if d := diffVer(ref, ver); d != "" {
			return fmt.Errorf("instances differ after the write-free phase: %s", d)
		}
		if len(ver) > 0 {
			exchanged = true
		}
	}
	writers := map[int]bool{}
	for _, op := range c.Ops {
		if op.Kind == "app" {
			writers[op.Inst%c.N] = true
		}
	}
	o.NonTrivial(len(writers) >= 2 && exchanged)
	f.excludedFindings(o)
	o.ClassIf(c.Native, "native")
	o.ClassIf(!c.Native, "shadow")
	o.ClassIf(c.Force > 0 && !forcedPossible, "forced-interval-configured-but-long")
	o.ClassIf(forcedPossible, "forced-interval-short")
	o.ClassIf(forcedSeen > 0, "forced-snapshot-observed")
	o.Class(fmt.Sprintf("total-stores-%d", min(total, 12)))
	for i := 0; i < c.ExcludedEmpty; i++ {
		o.Excluded("shadow-empty-value")
	}
	return nil
}

func contentOf(env *lm.Env, native bool) (map[string]map[string]Ver, error) {
	dump, err := lm.DumpEnv(env.Env)
	if err != nil {
		return nil, err
	}
	out := map[string]map[string]Ver{}
	for _, d := range dump.DBIs {
		isShadow := strings.HasPrefix(d.Name, syncer.SyncDBIShadowPrefix)
		if (native && strings.HasPrefix(d.Name, syncer.SyncDBIPrefix)) || (!native && !isShadow) {
			continue
		}
		name := strings.TrimPrefix(d.Name, syncer.SyncDBIShadowPrefix)
		m := map[string]Ver{}
		for _, e := range d.Entries {
			h, err := model.ReadHeader(e.Val)
			if err != nil {
				return nil, err
			}
			m[string(e.Key)] = Ver{TS: h.TS, Del: h.Flags&1 != 0, Val: h.AppVal}
		}
		if len(m) > 0 {
			out[name] = m
		}
	}
	return out, nil
}

func genC10Loop(t *rapid.T) C05Case {
	var c C05Case
	c.Native = rapid.Bool().Draw(t, "native")
	c.N = rapid.IntRange(2, 3).Draw(t, "n")
	c.MustKeep, c.RemoveOld = int64(time.Hour), int64(7*24*time.Hour)
	c.OddNames = rapid.IntRange(0, 3).Draw(t, "odd_names") == 0
	c.Dup = !c.Native && rapid.IntRange(0, 2).Draw(t, "dup") == 0
	lc := LoopCase{Native: c.Native}
	n := rapid.IntRange(3, 14).Draw(t, "nops")
	for k := 0; k < n; k++ {
		op := C05Op{Kind: rapid.SampledFrom([]string{"app", "app", "app", "step", "step", "step", "settle", "settle", "fault"}).Draw(t, "kind"), Inst: rapid.IntRange(0, c.N-1).Draw(t, "inst")}
		switch op.Kind {
		case "fault":
			// the next one or two Store calls of this instance fail (the retry budget is 4): the upload gets through at a retry
			op.FKind = "store"
			for j := rapid.IntRange(1, 2).Draw(t, "nfail"); j > 0; j-- {
				op.Faults = append(op.Faults, fault.Fail)
			}
		case "app":
			for j := 0; j < rapid.IntRange(1, 2).Draw(t, "nch"); j++ {
				ch := genSChange(t, &lc, 3)
				if c.Dup && rapid.IntRange(0, 2).Draw(t, "dupdbi") == 0 {
					ch.DBI = 2
				}
				op.Changes = append(op.Changes, ch)
			}
		case "step":
			op.Steps = rapid.IntRange(1, 30).Draw(t, "steps")
		}
		c.Ops = append(c.Ops, op)
	}
	c.ExcludedEmpty = lc.ExcludedEmpty
	c.Force = rapid.SampledFrom([]int64{0, 0, int64(time.Hour), int64(15 * time.Millisecond), int64(60 * time.Millisecond)}).Draw(t, "force")
	c.Pad = rapid.IntRange(0, 3).Draw(t, "pad") == 0
	return c
}

func TestC10Loop(t *testing.T) {
	vcore.Run(t, vcore.Config{Property: "C10", Inflight: true,
		Rule: "2-3 real sync loops under the scheduler (a quarter with configured instance names that sanitising changes, a third of the shadow-mode cases with a duplicate-keys DBI under the dupsort hack) with interleaved application commits, then a write-free phase of 2N+2 rounds (two loop iterations per instance and round): every instance uploads at most twice more (one upload in flight + one pending), no upload at all from the third round on, uploads of an instance <= its recorded application commits (instances start empty), every upload's image transaction (snapshot meta) is preceded by an application commit newer than the previous upload's image, identical content at the end; storage_force_snapshot_interval off / 1 h (same clauses) / 15-60 ms (an upload is also justified when the interval has passed since the instance's previous snapshot, by the snapshots' own timestamps; the counting clauses are off); non-trivial = >=2 instances wrote and data was exchanged"},
		genC10Loop, checkC10Loop)
}

// ---------------------------------------------------------------------------
// C16 run-once mode: the program ends by itself after merging the newest
// snapshot of every instance present at start-up, not earlier.
// ---------------------------------------------------------------------------

type RunOnceCase struct {
	Native    bool `json:"native"`
	Peers     int  `json:"peers"`
	PerPeer   int  `json:"per_peer"`
	OwnBlob   bool `json:"own_blob"`
	LocalData bool `json:"local_data"`
	LoadFails int  `json:"load_fails"`
	Corrupt   int  `json:"corrupt"` // 0 none, 1 newest of peer 1 is undecodable, 2 the only snapshot of the last peer is, 3 every snapshot of every peer is
	// Vanish: snapshots listed at start-up are removed (cleaned by somebody else) right after the
	// initial listing: 1 = those of the last peer, 2 = those of every peer
	Vanish int `json:"vanish,omitempty"`
	// SlowListing: storage_poll_interval is long (40 ms) compared with the loop\'s own poll interval (1 ms):
	// what the loop believes about "which instances still exist" is then older than what the downloaders
	// have found out in the meantime (e.g. that a newest blob is undecodable)
	SlowListing bool `json:"slow_listing,omitempty"`
	Late        bool `json:"late"` // a new peer appears after start-up (must not be waited for)
}

func checkRunOnce(c RunOnceCase, o *vcore.Obs) error {
	env := lm.New(64<<20, 24)
	var ndForClose *Node
	defer func() {
		if ndForClose != nil {
			ndForClose.CloseEnv()
		} else {
			env.Close()
		}
	}()
	b := fault.NewBucket()
	conf := BaseConfig("a")
	conf.OnlyOnce = true
	if c.SlowListing {
		conf.StoragePollInterval = 40 * time.Millisecond
	}
	conf.MemoryDecompressedSnapshots = 2
	h := b.Handle("a")
	clock := time.Date(2026, 4, 1, 0, 0, 0, 0, time.UTC)
	expect := map[string][]byte{} // key -> value that must be present at exit
	var vanishing []string
	mk := func(inst string, key string, val string) []byte {
		ts := uint64(1_500_000_000_000_000_000)
		return peerBlobRaw(inst, []model.KV{{Key: []byte(key), Val: model.ValOf([]byte(val)), TS: ts + uint64(len(expect))}})
	}
	for p := 1; p <= c.Peers; p++ {
		inst := fmt.Sprintf("p%d", p)
		for k := 0; k < c.PerPeer; k++ {
			clock = clock.Add(time.Second)
			key := fmt.Sprintf("key-%s", inst)
			val := fmt.Sprintf("%s-v%d", inst, k)
			corruptThis := (c.Corrupt == 1 && p == 1 && k == c.PerPeer-1) || (c.Corrupt == 2 && p == c.Peers && c.PerPeer == 1) || c.Corrupt == 3
			name := snapshot.Name(DBName, inst, "GX", clock)
			if c.Vanish == 2 || (c.Vanish == 1 && p == c.Peers) {
				vanishing = append(vanishing, name)
			}
			if corruptThis {
				b.Put(name, []byte("not gzip"))
				continue
			}
			b.Put(name, mk(inst, key, val))
			if c.Vanish == 2 || (c.Vanish == 1 && p == c.Peers) {
				continue // may or may not have been downloaded before it vanished: nothing is required
			}
			expect[key] = []byte(val) // the newest decodable one wins (later k overwrites)
		}
	}
	if c.OwnBlob {
		clock = clock.Add(time.Second)
		b.Put(snapshot.Name(DBName, "a", "GX", clock), mk("a", "key-own", "own-old"))
		expect["key-own"] = []byte("own-old")
	}
	if c.LocalData {
		f := &c05Fleet{c: C05Case{Native: c.Native, N: 1}}
		nd0 := &Node{Env: env}
		f.nodes = []*Node{nd0}
		if err := f.appCommit(0, []SChange{{DBI: 0, Key: 5, Op: "put", Val: model.Bytes("local")}}); err != nil {
			return err
		}
	}
	if c.LoadFails > 0 || len(vanishing) > 0 {
		var fs []string
		for i := 0; i < max(c.LoadFails, 2); i++ {
			fs = append(fs, fault.Fail)
		}
		h.SetPlan("load", fs)
	}
	nd := NewNode("a", env, h, conf, config.LMDB{SchemaTracksChanges: c.Native}, syncer.Options{})
	ndForClose = nd
	defer nd.Forget()
	defer nd.Stop()
	y, err := nd.Start()
	if err != nil {
		return err
	}
	lateDone := false
	for _, n := range vanishing {
		b.Remove(n) // the loop is parked at its first yield, right after the initial listing
	}
	check := func(where string, mustHaveAll bool) error {
		dump, err := lm.DumpEnv(env.Env)
		if err != nil {
			return err
		}
		have := map[string][]byte{}
		for _, d := range dump.DBIs {
			if strings.HasPrefix(d.Name, syncer.SyncDBIPrefix) {
				continue
			}
			for _, e := range d.Entries {
				v := e.Val
				if c.Native {
					hh, err := model.ReadHeader(e.Val)
					if err != nil {
						return err
					}
					v = hh.AppVal
				}
				have[string(e.Key)] = v
			}
		}
		if mustHaveAll {
			for k, v := range expect {
				if string(have[k]) != string(v) {
					return fmt.Errorf("%s: run-once ended but %q is %q, the newest snapshot present at start-up has %q: it ended before merging every instance", where, k, have[k], v)
				}
			}
		}
		return nil
	}
	for steps := 0; steps < 3000; steps++ {
		if y.Done {
			if y.Err != nil {
				return fmt.Errorf("run-once Sync returned an error: %v", y.Err)
			}
			if err := check("at exit", true); err != nil {
				return err
			}
			o.NonTrivial(c.Peers >= 2 && (c.LoadFails > 0 || c.Corrupt > 0 || c.OwnBlob))
			o.ClassIf(c.SlowListing, "listing-slower-than-the-loop")
			o.ClassIf(c.Corrupt > 0, "corrupt-at-startup")
			o.ClassIf(c.Corrupt == 3 && c.Peers > 0, "every-peer-snapshot-undecodable")
			o.ClassIf(len(vanishing) > 0, "snapshots-vanish-after-the-initial-listing")
			o.ClassIf((c.Corrupt == 3 || c.Vanish == 2) && c.Peers > 0 && !c.OwnBlob && !c.LocalData && !c.Late, "nothing-usable-left-in-the-bucket")
			o.ClassIf(c.LoadFails > 0, "load-faults")
			o.ClassIf(c.OwnBlob, "own-snapshot-at-startup")
			o.ClassIf(c.Late, "late-peer")
			o.ClassIf(c.Peers == 0 && !c.OwnBlob, "empty-bucket")
			return nil
		}
		if c.Late && !lateDone && y.Point == "sync.before-sleep" {
			lateDone = true
			clock = clock.Add(time.Second)
			b.Put(snapshot.Name(DBName, "latecomer", "GX", clock), mk("latecomer", "key-late", "late"))
		}
		if y.Point == "sync.before-sleep" {
			time.Sleep(300 * time.Microsecond) // downloads proceed in the background
		}
		y, err = nd.Step()
		if err != nil {
			return err
		}
	}
	return fmt.Errorf("run-once mode did not end by itself within 3000 yields (%d iterations); still waiting although every start-up snapshot was available\n%s", 3000/4, goroutinesOf("lightningstream/syncer"))
}

func peerBlobRaw(inst string, kvs []model.KV) []byte {
	m := model.Snap{FormatVersion: 3, CompatVersion: 1, Meta: model.Meta{InstanceID: inst, DatabaseName: DBName},
		DBIs: []model.DBI{{Name: "d0", Entries: kvs}}}
	pb, _ := m.ToGogo().Marshal()
	return gzBytes(pb)
}

func TestC16RunOnce(t *testing.T) {
	vcore.Run(t, vcore.Config{Property: "C16", Inflight: true,
		Rule: "real sync loop with only_once under the scheduler: 0-4 peers with 1-3 snapshots each at start-up (optionally an undecodable newest one, an undecodable only one, or nothing but undecodable ones; optionally the snapshots of one or of all peers vanish right after the initial listing), optional own snapshot, optional local data, 0-3 failing Loads, optionally a new instance appearing after start-up; Sync must return nil by itself, and at that moment the LMDB holds the newest decodable start-up snapshot of every instance; non-trivial = >=2 peers and one of {load faults, corrupt blob, own snapshot}"},
		func(t *rapid.T) RunOnceCase {
			c := RunOnceCase{Native: rapid.Bool().Draw(t, "native"), Peers: rapid.IntRange(0, 4).Draw(t, "peers"), PerPeer: rapid.IntRange(1, 3).Draw(t, "per"),
				OwnBlob: rapid.Bool().Draw(t, "own"), LocalData: rapid.Bool().Draw(t, "local"), LoadFails: rapid.SampledFrom([]int{0, 0, 1, 3}).Draw(t, "lf"),
				Corrupt: rapid.SampledFrom([]int{0, 0, 1, 2, 3}).Draw(t, "corrupt"), Late: rapid.IntRange(0, 2).Draw(t, "late") == 0,
				Vanish: rapid.SampledFrom([]int{0, 0, 0, 1, 2}).Draw(t, "vanish")}
			c.SlowListing = rapid.IntRange(0, 2).Draw(t, "slow_listing") == 0
			if rapid.IntRange(0, 3).Draw(t, "bare") == 0 {
				// a restore-style job: empty LMDB, nothing of its own in the bucket, nobody else publishing
				c.OwnBlob, c.LocalData, c.Late = false, false, false
			}
			return c
		}, checkRunOnce)
}

// ---------------------------------------------------------------------------
// C12 receive-only clause: never stores or deletes anything
// ---------------------------------------------------------------------------

func checkReceiveOnly(c C05Case, o *vcore.Obs) error {
	env := lm.New(64<<20, 24)
	var ndForClose *Node
	defer func() {
		if ndForClose != nil {
			ndForClose.CloseEnv()
		} else {
			env.Close()
		}
	}()
	b := fault.NewBucket()
	conf := BaseConfig("ro")
	conf.Storage.Cleanup = config.Cleanup{Enabled: true, Interval: time.Millisecond, MustKeepInterval: 0, RemoveOldInstancesInterval: time.Nanosecond}
	h := b.Handle("ro")
	nd := NewNode("ro", env, h, conf, config.LMDB{SchemaTracksChanges: c.Native}, syncer.Options{ReceiveOnly: true})
	ndForClose = nd
	defer nd.Forget()
	defer nd.Stop()
	// old snapshots of two peers (several each, so that a cleaner would have something to delete)
	clock := time.Date(2020, 1, 1, 0, 0, 0, 0, time.UTC)
	for p := 1; p <= 2; p++ {
		for k := 0; k < 3; k++ {
			clock = clock.Add(time.Hour)
			inst := fmt.Sprintf("p%d", p)
			b.Put(snapshot.Name(DBName, inst, "GX", clock), peerBlobRaw(inst, []model.KV{{Key: []byte("k" + inst), Val: model.ValOf([]byte(fmt.Sprint(k))), TS: uint64(clock.UnixNano())}}))
		}
	}
	y, err := nd.Start()
	if err != nil {
		return err
	}
	f := &c05Fleet{c: C05Case{Native: c.Native, N: 1}, nodes: []*Node{nd}}
	nApp := 0
	for _, op := range c.Ops {
		switch op.Kind {
		case "app":
			if err := f.appCommit(0, op.Changes); err != nil {
				return err
			}
			nApp++
		case "settle":
			time.Sleep(3 * time.Millisecond)
		default:
			for s := 0; s < op.Steps+1 && !y.Done; s++ {
				y, err = nd.Step()
				if err != nil {
					return err
				}
			}
		}
		if y.Done {
			return fmt.Errorf("receive-only loop ended: %v", y.Err)
		}
	}
	for s := 0; s < 60 && !y.Done; s++ {
		y, err = nd.Step()
		if err != nil {
			return err
		}
	}
	time.Sleep(5 * time.Millisecond) // several cleaner intervals
	for _, op := range b.Log() {
		if op.By == "ro" && (op.Kind == "store" || op.Kind == "delete") {
			return fmt.Errorf("receive-only instance issued %s %s", op.Kind, op.Name)
		}
	}
	// it did receive
	dump, _ := lm.DumpEnv(env.Env)
	got := 0
	for _, d := range dump.DBIs {
		got += len(d.Entries)
	}
	o.NonTrivial(nApp > 0 && got > 0)
	return nil
}

func TestC12ReceiveOnly(t *testing.T) {
	vcore.Run(t, vcore.Config{Property: "C12", Inflight: true,
		Rule: "real sync loop started with Options.ReceiveOnly and a cleaner that is enabled in the configuration with zero intervals, against a bucket holding several old snapshots of two peers, with generated local application commits and loop steps: the bucket log must show no Store and no Delete by that instance; non-trivial = >=1 local commit and peer data received"},
		func(t *rapid.T) C05Case {
			c := genC10Loop(t)
			c.N = 1
			for i := range c.Ops {
				c.Ops[i].Inst = 0
			}
			return c
		}, checkReceiveOnly)
}

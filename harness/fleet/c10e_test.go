package fleet

import (
	"strings"
	"testing"
	"time"

	"verif/harness/internal/fault"
	"verif/harness/internal/model"
	"verif/harness/internal/vcore"
)

// ---- FAULT_ENUM for C10: one more application commit at every yield point of an instance that is already
// on its way to upload; every upload must be justified by a commit its predecessor did not contain ----

type enumC10 struct {
	Native bool   `json:"native"`
	Point  string `json:"point"`
	Held   bool   `json:"held"`
	Peer   bool   `json:"peer"` // the other instance has published before (so that merges happen too)
	// StoreFaults: that many Store calls of instance 0 fail (fewer than the retry budget) before one gets through
	StoreFaults int `json:"store_faults,omitempty"`
}

func TestC10LoopEnum(t *testing.T) {
	vcore.RunEnum(t, vcore.Config{Property: "C10", Inflight: true,
		Rule: "fault enumeration over two real sync loops: instance 0 commits, runs to EVERY yield point (13) of its loop, commits once more there ({at the point, or with the transaction still open when the loop goes on}), with or without an earlier snapshot of instance 1 to merge, or with the first one or two Store calls of the upload failing (retry budget 4); then the write-free phase and all clauses of TestC10Loop (at most an in-flight and a pending upload, none from the third round on, uploads <= application commits, every upload's image transaction preceded by an application commit newer than the previous upload's image, identical content); non-trivial = the second commit fell inside the iteration that uploads the first (send.* / sync.before-info / sync.before-send)"},
		func(yield func(enumC10) bool) {
			for _, native := range []bool{true, false} {
				for _, p := range loopYieldPoints[:nMainPoints] {
					if p == "send.in-read-txn" {
						continue // (not a point of this fleet's nodes)
					}
					for _, held := range []bool{false, true} {
						for _, peer := range []bool{false, true} {
							if !yield(enumC10{Native: native, Point: p, Held: held, Peer: peer}) {
								return
							}
						}
					}
					for _, sf := range []int{1, 2} {
						if !yield(enumC10{Native: native, Point: p, StoreFaults: sf}) {
							return
						}
					}
				}
			}
		},
		func(e enumC10, o *vcore.Obs) error {
			c := C05Case{Native: e.Native, N: 2, MustKeep: int64(time.Hour), RemoveOld: int64(7 * 24 * time.Hour)}
			put := func(k int, v string, ts uint64) []SChange {
				return []SChange{{DBI: 0, Key: k, Op: "put", Val: model.Bytes(v), TS: ts}}
			}
			if e.Peer {
				c.Ops = append(c.Ops,
					C05Op{Kind: "app", Inst: 1, Changes: put(2, "peer", 10)},
					C05Op{Kind: "step", Inst: 1, Steps: 40, Until: "sync.before-sleep"},
					C05Op{Kind: "settle"})
			}
			if e.StoreFaults > 0 {
				var fs []string
				for i := 0; i < e.StoreFaults; i++ {
					fs = append(fs, fault.Fail)
				}
				c.Ops = append(c.Ops, C05Op{Kind: "fault", Inst: 0, FKind: "store", Faults: fs})
			}
			c.Ops = append(c.Ops,
				C05Op{Kind: "step", Inst: 0, Steps: 40, Until: "sync.before-sleep"},
				C05Op{Kind: "app", Inst: 0, Changes: put(0, "first", 20)},
				C05Op{Kind: "step", Inst: 0, Steps: 40, Until: e.Point},
				C05Op{Kind: "app", Inst: 0, Changes: put(1, "second", 30), Held: e.Held},
				C05Op{Kind: "step", Inst: 0, Steps: 40, Until: "sync.before-sleep"},
			)
			err := checkC10Loop(c, o)
			o.NonTrivial(strings.HasPrefix(e.Point, "send.") || e.Point == "sync.before-info" || e.Point == "sync.before-send")
			return err
		})
}

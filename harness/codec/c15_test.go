package codec

import (
	"fmt"
	"regexp"
	"strings"
	"testing"
	"time"

	"github.com/PowerDNS/lightningstream/config"
	"github.com/PowerDNS/lightningstream/snapshot"
	"github.com/PowerDNS/lightningstream/syncer"
	"github.com/PowerDNS/simpleblob/backends/memory"
	"pgregory.net/rapid"

	"verif/harness/internal/vcore"
)

// ---------------------------------------------------------------------------
// C15 Snapshot names round-trip and sort chronologically
// ---------------------------------------------------------------------------

const safeAlpha = "abcdefghijklmnopqrstuvwxyzABCDEFGHIJKLMNOPQRSTUVWXYZ0123456789-"

func genSafe(t *rapid.T, label string, min, max int) string {
	n := rapid.IntRange(min, max).Draw(t, label+"_len")
	var sb strings.Builder
	for i := 0; i < n; i++ {
		// bias towards few distinct characters so that shared prefixes happen
		var ch byte
		if rapid.IntRange(0, 3).Draw(t, label+"_b") == 0 {
			ch = safeAlpha[rapid.IntRange(0, len(safeAlpha)-1).Draw(t, label+"_c")]
		} else {
			ch = "ab-0Z"[rapid.IntRange(0, 4).Draw(t, label+"_c2")]
		}
		sb.WriteByte(ch)
	}
	return sb.String()
}

// maxNano is the largest nanosecond timestamp representable (year 2262).
const maxNano = int64(^uint64(0) >> 1)

func genNano(t *rapid.T, label string) int64 {
	switch rapid.IntRange(0, 5).Draw(t, label+"_kind") {
	case 0: // boundaries
		return rapid.SampledFrom([]int64{0, 1, 999_999_999, 1_000_000_000, maxNano, maxNano - 1,
			// year ends
			time.Date(1999, 12, 31, 23, 59, 59, 999_999_999, time.UTC).UnixNano(),
			time.Date(2000, 1, 1, 0, 0, 0, 0, time.UTC).UnixNano(),
			time.Date(2038, 1, 19, 3, 14, 7, 0, time.UTC).UnixNano(),
			time.Date(2100, 2, 28, 23, 59, 59, 999_999_999, time.UTC).UnixNano(),
			time.Date(2100, 3, 1, 0, 0, 0, 0, time.UTC).UnixNano(),
		}).Draw(t, label+"_b")
	default:
		return rapid.Int64Range(0, maxNano).Draw(t, label)
	}
}

type C15Pair struct {
	DB       string   `json:"db"`
	Instance string   `json:"instance_raw"`
	Gen      string   `json:"gen"`
	Extra    []string `json:"extra"`
	TA       int64    `json:"ts_a"`
	TB       int64    `json:"ts_b"`
	OtherDB  string   `json:"other_db"`
	Junk     string   `json:"junk"`
	// zone offsets (seconds east of UTC) the time.Time values carry when the
	// names are built: the instant, not the wall clock of a zone, is encoded
	ZoneA int `json:"zone_a,omitempty"`
	ZoneB int `json:"zone_b,omitempty"`
}

func c15Time(nano int64, zone int) time.Time {
	ts := time.Unix(0, nano)
	if zone != 0 {
		ts = ts.In(time.FixedZone("Z", zone))
	}
	return ts
}

var reUnsafeDoc = regexp.MustCompile("[^a-zA-Z0-9-]")

func sanitiseDoc(s string) string { return reUnsafeDoc.ReplaceAllString(s, "-") }

func genC15(t *rapid.T) C15Pair {
	var c C15Pair
	c.DB = genSafe(t, "db", 1, 12)
	// instance: arbitrary string before sanitising
	if rapid.Bool().Draw(t, "inst_any") {
		c.Instance = rapid.StringN(1, 20, 60).Draw(t, "inst")
	} else {
		c.Instance = genSafe(t, "inst", 1, 12) + rapid.SampledFrom([]string{"", "_", "__", ".", "..", "_x", ".pb.gz", "__G", " "}).Draw(t, "inst_sfx") + genSafe(t, "inst2", 0, 3)
	}
	c.Gen = "G" + genSafe(t, "gen", 0, 6)
	nExtra := rapid.IntRange(0, 3).Draw(t, "n_extra")
	// documented rules for extra items (snapshot.NameExtraItem): a capital letter, not G, no type twice; the order is free
	letters := []byte("ABCDEFHIJKLMNOPQRSTUVWXYZ") // no G
	for i := 0; i < nExtra; i++ {
		k := rapid.IntRange(0, len(letters)-1).Draw(t, "xt")
		if rapid.IntRange(0, 3).Draw(t, "xt_edge") == 0 {
			k = []int{0, len(letters) - 1}[rapid.IntRange(0, 1).Draw(t, "xt_which")] // A / Z (or what is left)
		}
		c.Extra = append(c.Extra, string(letters[k])+genSafe(t, "xv", 0, 5))
		letters = append(letters[:k:k], letters[k+1:]...)
	}
	c.TA = genNano(t, "ta")
	switch rapid.IntRange(0, 4).Draw(t, "tb_kind") {
	case 0:
		c.TB = genNano(t, "tb")
	case 1: // within one second
		d := rapid.Int64Range(-999_999_999, 999_999_999).Draw(t, "tb_d")
		c.TB = clampNano(c.TA + d)
	case 2: // +-1ns .. small
		d := rapid.SampledFrom([]int64{-1, 1, -10, 10, -1000, 1000, 0}).Draw(t, "tb_d1")
		c.TB = clampNano(c.TA + d)
	case 3: // seconds / minutes / days apart
		d := rapid.SampledFrom([]int64{1e9, -1e9, 60e9, -60e9, 3600e9, 86400e9, -86400e9, 365 * 86400e9}).Draw(t, "tb_d2")
		c.TB = clampNano(c.TA + d)
	default: // digit-rollover neighbours
		p := rapid.SampledFrom([]int64{10, 100, 1000, 1e6, 1e9, 10e9, 60e9, 3600e9}).Draw(t, "tb_p")
		c.TA = clampNano(c.TA - c.TA%p)
		c.TB = clampNano(c.TA - 1)
	}
	if rapid.Bool().Draw(t, "zoned") {
		zones := []int{0, 3600, 7200, -18000, 19800, 45900, -43200, 50400, 1, -1}
		c.ZoneA = rapid.SampledFrom(zones).Draw(t, "zone_a")
		c.ZoneB = c.ZoneA
		if rapid.Bool().Draw(t, "zone_change") { // e.g. DST change between two snapshots
			c.ZoneB = rapid.SampledFrom(zones).Draw(t, "zone_b")
		}
	}
	// another database whose name shares a prefix with DB
	switch rapid.IntRange(0, 3).Draw(t, "odb_kind") {
	case 0:
		c.OtherDB = c.DB + genSafe(t, "odb_sfx", 1, 3)
	case 1:
		c.OtherDB = c.DB[:rapid.IntRange(0, len(c.DB)-1).Draw(t, "odb_cut")] + genSafe(t, "odb_sfx2", 1, 2)
	case 2:
		c.OtherDB = c.DB + "-"
	default:
		c.OtherDB = genSafe(t, "odb", 1, 8)
	}
	c.Junk = rapid.OneOf(
		rapid.StringN(0, 30, 80),
		rapid.SampledFrom([]string{"", ".", "..", "__", "a__b__c__d", "a__b__c__d.pb.gz", "a.pb.gz",
			"db__i__20060102-150405-000000000__G0.pb", "db__i__20060102-150405.000000000__G0.pb.gz",
			"db__i__20060102-150405-00000000__G0.pb.gz", "db__i__20061302-150405-000000000__G0.pb.gz",
			"db__i__20060102-150405-000000000.pb.gz", "db/i__x__20060102-150405-000000000__G0.pb.gz",
			"db__i__20060102-150405-000000000__G0.pb.gz.tmp", "db__i__20060102-150405-000000000__G0.txt",
			// the separator in front of the nanoseconds is not the dash the format prescribes
			"db__i__20060102-150405_000000000__G0.pb.gz", "db__i__20060102-1504050000000000__G0.pb.gz",
			"db__i__20060102-150405x000000000__G0.pb.gz", "db__i__20060102-150405+000000000__G0.pb.gz",
			"db__i__20060102_150405-000000000__G0.pb.gz", "db__i__20060102-150405:000000000__G0.pb.gz",
			// a backup / another kind of file / a dotted extra item: the extension is not exactly "pb.gz"
			"db__i__20060102-150405-000000000__G0.bak.pb.gz", "db__i__20060102-150405-000000000__G0.delta.pb.gz",
			"db__i__20060102-150405-000000000__G0__V1.2.pb.gz", "db__i__20060102-150405-000000000__G0..pb.gz",
			"db__i.x__20060102-150405-000000000__G0.pb.gz", ".db__i__20060102-150405-000000000__G0.pb.gz",
			// well formed in every respect except a day that month does not have / a leap second / hour 24
			"db__i__20230230-150405-000000000__G0.pb.gz", "db__i__20230229-000000-000000000__G0.pb.gz",
			"db__i__20230431-235959-999999999__G0.pb.gz", "db__i__21000229-120000-000000000__G0.pb.gz",
			"db__i__20230931-000000-000000000__G0.pb.gz", "db__i__20240229-000000-000000000__G0.pb.gz",
			"db__i__20230101-240000-000000000__G0.pb.gz", "db__i__20230101-235960-000000000__G0.pb.gz",
			"db__i__20230100-000000-000000000__G0.pb.gz", "db__i__20230001-000000-000000000__G0.pb.gz"}),
	).Draw(t, "junk")
	if rapid.IntRange(0, 19).Draw(t, "junk_sep") == 0 {
		// a well-formed name with ONE byte of its timestamp field replaced (separators and digits alike)
		good := []byte(snapshot.Name("db", "i", "G0", time.Unix(1136214245, int64(rapid.IntRange(0, 999_999_999).Draw(t, "jsn"))).UTC()))
		pos := len("db__i__") + rapid.IntRange(0, 24).Draw(t, "jpos")
		repl := rapid.SampledFrom([]byte("_-.:+x09 /")).Draw(t, "jrepl")
		if good[pos] != repl && !(good[pos] >= '0' && good[pos] <= '9' && repl >= '0' && repl <= '9') {
			good[pos] = repl
			c.Junk = string(good)
		}
	} else if rapid.IntRange(0, 9).Draw(t, "junk_date") == 0 {
		// a snapshot-shaped name with a generated calendar field out of range or a day its month lacks
		c.Junk = fmt.Sprintf("db__i__%04d%02d%02d-%02d%02d%02d-%09d__G0.pb.gz",
			rapid.SampledFrom([]int{1970, 2023, 2024, 2100, 2262}).Draw(t, "jy"), rapid.IntRange(0, 13).Draw(t, "jm"), rapid.IntRange(0, 32).Draw(t, "jd"),
			rapid.IntRange(0, 24).Draw(t, "jh"), rapid.IntRange(0, 60).Draw(t, "jmi"), rapid.IntRange(0, 61).Draw(t, "js"), rapid.IntRange(0, 999_999_999).Draw(t, "jn"))
	}
	return c
}

func clampNano(v int64) int64 {
	if v < 0 {
		return 0
	}
	return v
}

func checkC15(c C15Pair, o *vcore.Obs) error {
	inst := sanitiseDoc(c.Instance)
	if strings.ContainsAny(inst, "_.") {
		return fmt.Errorf("harness sanitiser wrong")
	}
	mk := func(db string, nano int64, zone int) (snapshot.NameInfo, string) {
		ni := snapshot.NameInfo{
			Extension:    snapshot.DefaultExtension,
			SyncerName:   db,
			InstanceID:   inst,
			GenerationID: c.Gen,
			Timestamp:    c15Time(nano, zone),
		}
		for _, e := range c.Extra {
			ni.Extra = append(ni.Extra, snapshot.NameExtraItem(e))
		}
		return ni, ni.BuildName()
	}
	for i, nano := range []int64{c.TA, c.TB} {
		zone := []int{c.ZoneA, c.ZoneB}[i]
		ni, name := mk(c.DB, nano, zone)
		p, err := snapshot.ParseName(name)
		if err != nil {
			return fmt.Errorf("ParseName(BuildName(x)) failed for %q: %v", name, err)
		}
		if p.SyncerName != c.DB || p.InstanceID != inst || p.GenerationID != c.Gen ||
			p.Kind != snapshot.KindSnapshot || p.Extension != snapshot.DefaultExtension || p.FullName != name {
			return fmt.Errorf("round trip components differ for %q: %+v", name, p)
		}
		if p.Timestamp.UnixNano() != nano {
			return fmt.Errorf("round trip timestamp differs for %q: got %d want %d", name, p.Timestamp.UnixNano(), nano)
		}
		if len(p.Extra) != len(ni.Extra) {
			return fmt.Errorf("round trip extra differs for %q: %v vs %v", name, p.Extra, ni.Extra)
		}
		for i := range p.Extra {
			if p.Extra[i] != ni.Extra[i] {
				return fmt.Errorf("round trip extra differs for %q: %v vs %v", name, p.Extra, ni.Extra)
			}
		}
		// also: Name() helper gives the same name when there are no extras
		if len(c.Extra) == 0 {
			if n2 := snapshot.Name(c.DB, inst, c.Gen, c15Time(nano, zone)); n2 != name {
				return fmt.Errorf("Name() and BuildName() disagree: %q vs %q", n2, name)
			}
		}
	}
	_, na := mk(c.DB, c.TA, c.ZoneA)
	_, nb := mk(c.DB, c.TB, c.ZoneB)
	cmpN := strings.Compare(na, nb)
	cmpT := 0
	if c.TA < c.TB {
		cmpT = -1
	} else if c.TA > c.TB {
		cmpT = 1
	}
	if cmpN != cmpT {
		return fmt.Errorf("byte order of names (%d) differs from timestamp order (%d): %q vs %q", cmpN, cmpT, na, nb)
	}
	// Other databases: their names must never match this database's listing prefix
	// nor parse as a snapshot of this database.
	if c.OtherDB != c.DB {
		_, no := mk(c.OtherDB, c.TA, c.ZoneA)
		if strings.HasPrefix(no, c.DB+"__") {
			return fmt.Errorf("name %q of database %q matches prefix of database %q", no, c.OtherDB, c.DB)
		}
		if p, err := snapshot.ParseName(no); err == nil && p.SyncerName == c.DB {
			return fmt.Errorf("name %q of database %q parsed as database %q", no, c.OtherDB, c.DB)
		}
	}
	// Arbitrary strings: parser never panics (panic → error via vcore), and whatever it
	// accepts must be a snapshot-looking name: re-building it gives the same string.
	if p, err := snapshot.ParseName(c.Junk); err == nil {
		if p.Kind != snapshot.KindSnapshot || !strings.HasSuffix(c.Junk, "."+snapshot.DefaultExtension) {
			return fmt.Errorf("non-snapshot file %q accepted: %+v", c.Junk, p)
		}
		if dot := strings.IndexByte(c.Junk, '.'); c.Junk[dot:] != "."+snapshot.DefaultExtension {
			// the extension of a file is everything from its first dot (names are built from dot-free items)
			return fmt.Errorf("file %q accepted as a snapshot although its extension %q is not exactly %q: %+v", c.Junk, c.Junk[dot+1:], snapshot.DefaultExtension, p)
		}
		if len(strings.Split(strings.TrimSuffix(c.Junk, "."+snapshot.DefaultExtension), "__")) < 4 {
			return fmt.Errorf("file %q with too few parts accepted", c.Junk)
		}
		p.TimestampString = ""
		ok := true
		for _, e := range p.Extra {
			if len(e) == 0 {
				ok = false // BuildName on empty extra is fine, Type() would panic; do not call it
			}
		}
		if ok && p.BuildName() != c.Junk {
			return fmt.Errorf("accepted name %q does not re-build to itself: %q", c.Junk, p.BuildName())
		}
		o.Class("junk-accepted")
	}
	d := c.TA - c.TB
	if d < 0 {
		d = -d
	}
	o.NonTrivial(d != 0 && d < 1_000_000_000)
	o.ClassIf(d == 0, "equal-ts")
	o.ClassIf(d == 1, "1ns-apart")
	o.ClassIf(d != 0 && d < 1_000_000_000, "lt-1s-apart")
	o.ClassIf(c.TA/1e9 == c.TB/1e9 && d != 0, "same-second")
	o.ClassIf(inst != c.Instance, "instance-sanitised")
	o.ClassIf(c.ZoneA != 0 || c.ZoneB != 0, "non-utc-zone")
	o.ClassIf(c.ZoneA != c.ZoneB, "zone-change-between-snapshots")
	o.ClassIf(len(c.Extra) > 0, "with-extra")
	o.ClassIf(strings.HasPrefix(c.OtherDB, c.DB), "otherdb-shares-prefix")
	return nil
}

func TestC15Names(t *testing.T) {
	vcore.Run(t, vcore.Config{Property: "C15",
		Rule: "rapid: (db, raw instance, generation, extras, ts_a, ts_b, zone offsets of the two time values, other db, junk string); " +
			"non-trivial = the two timestamps differ by less than one second (and are not equal); distinct = SHA-1 of the JSON case"},
		genC15, checkC15)
}

// The sanitiser actually used for uploaded names: syncer.New(...).VerifInstanceID()
// agrees with the documented rule and never yields separators.
type C15Inst struct {
	Raw string `json:"raw"`
	// Fallback: no instance name is configured; Raw is the host name the syncer falls back to
	Fallback bool `json:"fallback,omitempty"`
}

func TestC15Sanitiser(t *testing.T) {
	st := memory.New()
	vcore.Run(t, vcore.Config{Property: "C15",
		Rule: "rapid: arbitrary instance strings (configured, or - a third - as the host name the syncer falls back to when none is configured; incl. dotted names and names with underscores) through syncer.New + instanceID; non-trivial = string contains a character outside the safe set"},
		func(t *rapid.T) C15Inst {
			return C15Inst{Raw: rapid.OneOf(rapid.StringN(1, 30, 90), rapid.StringOfN(rapid.RuneFrom([]rune("ab_.-/\\ \x00é")), 1, 12, -1),
				rapid.SampledFrom([]string{"ns1.example.com", "rack_7", "lab__rack7", "plainhost", "a.b", "x__y.z"})).Draw(t, "raw"),
				Fallback: rapid.IntRange(0, 2).Draw(t, "fallback") == 0}
		},
		func(c C15Inst, o *vcore.Obs) error {
			conf := config.Config{Instance: c.Raw, LMDBs: map[string]config.LMDB{}}
			if c.Fallback {
				conf.Instance = ""
				defer syncer.VerifSetHostname(syncer.VerifSetHostname(c.Raw))
				o.Class("host-name-as-instance-name")
			}
			s, err := syncer.New("db", nil, st, conf, config.LMDB{SchemaTracksChanges: true}, syncer.Options{})
			if err != nil {
				return fmt.Errorf("syncer.New: %v", err)
			}
			got := s.VerifInstanceID()
			want := sanitiseDoc(c.Raw)
			if got != want {
				return fmt.Errorf("instance id %q, documented sanitiser gives %q", got, want)
			}
			for i := 0; i < len(got); i++ {
				if !strings.ContainsRune(safeAlpha, rune(got[i])) {
					return fmt.Errorf("unsafe byte %q in instance id %q", got[i], got)
				}
			}
			// and the name built from it parses back to it
			name := snapshot.Name("db", got, "GX", time.Unix(1700000000, 5))
			p, err := snapshot.ParseName(name)
			if err != nil || p.InstanceID != got {
				return fmt.Errorf("name %q with sanitised instance does not round trip: %v %+v", name, err, p)
			}
			o.NonTrivial(got != c.Raw)
			return nil
		})
}

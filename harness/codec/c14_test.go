package codec

import (
	"bytes"
	"errors"
	"fmt"
	"testing"

	"github.com/PowerDNS/lightningstream/lmdbenv/header"
	"pgregory.net/rapid"

	"verif/harness/internal/gen"
	"verif/harness/internal/model"
	"verif/harness/internal/vcore"
)

// ---------------------------------------------------------------------------
// C14 (pure part): header build / parse against an independent reader of the
// documented format.
// ---------------------------------------------------------------------------

type C14Build struct {
	TS       uint64      `json:"ts"`
	Txn      uint64      `json:"txn"`
	Flags    byte        `json:"flags"`
	NumExtra int         `json:"num_extra"`
	ExtraLen int         `json:"extra_len"`
	ExtraB   byte        `json:"extra_fill"`
	Val      model.Bytes `json:"val"`
}

func genC14Build(t *rapid.T) C14Build {
	c := C14Build{TS: gen.TS(t, "ts"), Txn: rapid.OneOf(rapid.Uint64Range(0, 1000), rapid.Uint64()).Draw(t, "txn"),
		Flags: rapid.OneOf(rapid.SampledFrom([]byte{0, 1, 2, 0x80, 0xff}), rapid.Byte()).Draw(t, "flags")}
	switch rapid.IntRange(0, 9).Draw(t, "nx_kind") {
	case 0, 1, 2, 3:
		c.NumExtra = 0
	case 4, 5, 6:
		c.NumExtra = rapid.IntRange(1, 6).Draw(t, "nx")
	case 7:
		c.NumExtra = rapid.SampledFrom([]int{255, 256, 257, 4095, 65535}).Draw(t, "nx_big")
	default:
		c.NumExtra = rapid.IntRange(0, 65535).Draw(t, "nx_any")
	}
	switch rapid.IntRange(0, 4).Draw(t, "xl_kind") {
	case 0:
		c.ExtraLen = 0
	case 1:
		c.ExtraLen = 8 * c.NumExtra
	case 2:
		c.ExtraLen = rapid.IntRange(0, 8*c.NumExtra+17).Draw(t, "xl")
	default:
		c.ExtraLen = rapid.IntRange(0, 40).Draw(t, "xl_small")
	}
	if c.ExtraLen > 8*65535 {
		c.ExtraLen = 8 * 65535
	}
	c.ExtraB = gen.Byte(t, "xfill")
	c.Val = gen.BytesN(t, "val", 0, 40)
	return c
}

func checkC14Build(c C14Build, o *vcore.Obs) error {
	extra := bytes.Repeat([]byte{c.ExtraB}, c.ExtraLen)
	if len(extra) > 0 {
		extra[0] = 0xA5
	}
	h := header.Header{Timestamp: header.Timestamp(c.TS), TxnID: header.TxnID(c.Txn), Flags: header.Flags(c.Flags),
		NumExtra: c.NumExtra, Extra: extra}
	hb := h.Bytes()
	full := append(append([]byte{}, hb...), c.Val...)
	r, err := model.ReadHeader(full)
	if err != nil {
		return fmt.Errorf("independent reader rejects Header.Bytes output: %v (%x)", err, hb)
	}
	wantN := c.NumExtra
	if need := (c.ExtraLen + 7) / 8; need > wantN {
		wantN = need
	}
	if r.TS != c.TS || r.TxnID != c.Txn || r.Flags != c.Flags || r.Version != 0 || r.Reserved != [4]byte{} {
		return fmt.Errorf("fields differ: %+v", r)
	}
	if r.NumExt != wantN {
		return fmt.Errorf("extension count %d, want %d", r.NumExt, wantN)
	}
	if len(hb) != 24+8*wantN {
		return fmt.Errorf("header length %d does not match extension count %d", len(hb), wantN)
	}
	if !bytes.Equal(r.Ext[:c.ExtraLen], extra) {
		return fmt.Errorf("extension bytes differ")
	}
	for _, b := range r.Ext[c.ExtraLen:] {
		if b != 0 {
			return fmt.Errorf("extension padding not zero")
		}
	}
	if !bytes.Equal(r.AppVal, c.Val) {
		return fmt.Errorf("application value differs: %x vs %x", r.AppVal, c.Val)
	}
	// PutBasic
	pb := make([]byte, 24, 64)
	for i := range pb {
		pb[i] = 0xEE // dirty buffer: everything must be overwritten
	}
	header.PutBasic(pb, header.Timestamp(c.TS), header.TxnID(c.Txn), header.Flags(c.Flags))
	r2, err := model.ReadHeader(append(pb, c.Val...))
	if err != nil {
		return fmt.Errorf("independent reader rejects PutBasic output: %v", err)
	}
	if r2.TS != c.TS || r2.TxnID != c.Txn || r2.Flags != c.Flags || r2.Reserved != [4]byte{} || r2.NumExt != 0 || !bytes.Equal(r2.AppVal, c.Val) {
		return fmt.Errorf("PutBasic fields differ: %+v", r2)
	}
	// and the code under test parses its own output identically
	ph, pv, err := header.Parse(full)
	if err != nil {
		return fmt.Errorf("Parse rejects Header.Bytes output: %v", err)
	}
	if uint64(ph.Timestamp) != c.TS || uint64(ph.TxnID) != c.Txn || byte(ph.Flags) != c.Flags || ph.NumExtra != wantN ||
		!bytes.Equal(ph.Extra, r.Ext) || !bytes.Equal(pv, c.Val) {
		return fmt.Errorf("Parse(Bytes()) differs: %+v", ph)
	}
	o.NonTrivial(wantN > 0 || c.Flags&1 != 0)
	o.ClassIf(wantN > 0, "with-extension")
	o.ClassIf(wantN > 5, "extension>prealloc")
	o.ClassIf(c.ExtraLen%8 != 0, "extra-not-multiple-of-8")
	o.ClassIf(c.ExtraLen > 8*c.NumExtra, "numextra-too-low")
	return nil
}

func TestC14Build(t *testing.T) {
	vcore.Run(t, vcore.Config{Property: "C14",
		Rule: "rapid (ts, txn id, flag byte, extension count 0..65535, extension bytes, value) -> Header.Bytes / PutBasic -> independent reader of the documented format; non-trivial = >=1 extension block or deleted flag"},
		genC14Build, checkC14Build)
}

type C14Parse struct {
	Raw model.Bytes `json:"raw"`
}

func genC14Parse(t *rapid.T) C14Parse {
	switch rapid.IntRange(0, 5).Draw(t, "kind") {
	case 0:
		return C14Parse{Raw: rapid.SliceOfN(rapid.Byte(), 0, 64).Draw(t, "raw")}
	default:
		n := rapid.SampledFrom([]int{0, 0, 0, 1, 1, 2, 3, 7, 255, 256, 1000}).Draw(t, "n")
		ver := rapid.SampledFrom([]byte{0, 0, 0, 0, 1, 2, 0xff}).Draw(t, "ver")
		b := make([]byte, 24)
		copy(b, gen.BytesN(t, "hdr", 16, 16))
		b[16] = ver
		b[17] = gen.Byte(t, "fl")
		copy(b[18:22], gen.BytesN(t, "res", 4, 4))
		b[22], b[23] = byte(n>>8), byte(n)
		// total length around the boundary 24+8n
		full := 24 + 8*n
		delta := rapid.IntRange(-9, 9).Draw(t, "delta")
		if rapid.IntRange(0, 3).Draw(t, "far") == 0 {
			delta = rapid.IntRange(-full, 40).Draw(t, "delta_far")
		}
		l := full + delta
		if l < 0 {
			l = 0
		}
		out := make([]byte, l)
		copy(out, b)
		for i := 24; i < l; i++ {
			out[i] = byte(i)
		}
		return C14Parse{Raw: out}
	}
}

func checkC14Parse(c C14Parse, o *vcore.Obs) error {
	want, werr := model.ReadHeader(c.Raw)
	h, v, err := header.Parse(c.Raw)
	sv, serr := header.Skip(c.Raw)
	if (werr == nil) != (err == nil) {
		return fmt.Errorf("Parse accept/reject differs from the documented format: parse err=%v, reference err=%v", err, werr)
	}
	if (werr == nil) != (serr == nil) {
		return fmt.Errorf("Skip accept/reject differs from the documented format: skip err=%v, reference err=%v", serr, werr)
	}
	if werr != nil {
		// error kinds
		if errors.Is(werr, model.ErrHdrShort) && (!errors.Is(err, header.ErrTooShort) || !errors.Is(serr, header.ErrTooShort)) {
			return fmt.Errorf("too-short value reported as %v / %v", err, serr)
		}
		if errors.Is(werr, model.ErrHdrVersion) && (!errors.Is(err, header.ErrVersion) || !errors.Is(serr, header.ErrVersion)) {
			return fmt.Errorf("wrong version reported as %v / %v", err, serr)
		}
		o.Class("rejected")
	} else {
		if uint64(h.Timestamp) != want.TS || uint64(h.TxnID) != want.TxnID || byte(h.Flags) != want.Flags ||
			h.NumExtra != want.NumExt || !bytes.Equal(h.Extra, want.Ext) || h.Version != 0 {
			return fmt.Errorf("Parse fields differ: %+v vs %+v", h, want)
		}
		if !bytes.Equal(v, want.AppVal) || !bytes.Equal(sv, want.AppVal) {
			return fmt.Errorf("application value starts at the wrong place: parse %x skip %x want %x", v, sv, want.AppVal)
		}
		if ts, err := header.ParseTimestamp(c.Raw); err != nil || uint64(ts) != want.TS {
			return fmt.Errorf("ParseTimestamp: %v %v", ts, err)
		}
		o.Class("accepted")
	}
	// non-trivial: within 8 bytes of a boundary (24, or 24+8n when the count field is readable)
	l := len(c.Raw)
	near := l >= 16 && l <= 32
	if l >= 24 {
		n := int(c.Raw[22])<<8 | int(c.Raw[23])
		d := l - (24 + 8*n)
		if d >= -8 && d <= 8 {
			near = true
		}
	}
	o.NonTrivial(near)
	return nil
}

func TestC14Parse(t *testing.T) {
	vcore.Run(t, vcore.Config{Property: "C14",
		Rule: "rapid byte strings (random, and header-shaped with generated version byte / extension count / total length around 24+8n) -> header.Parse and header.Skip vs independent reader: same accept/reject, same error kind, same fields, same start of the application value; non-trivial = length within 8 bytes of a boundary"},
		genC14Parse, checkC14Parse)
}

package codec

import (
	"bytes"
	"fmt"
	"runtime"
	"sync"
	"testing"

	"github.com/PowerDNS/lightningstream/snapshot"
	"github.com/PowerDNS/lightningstream/snapshot/gogosnapshot"
	"pgregory.net/rapid"

	"verif/harness/internal/model"
	"verif/harness/internal/vcore"
	"verif/harness/internal/vsnap"
)

// ---------------------------------------------------------------------------
// C07, encoder state: encoding is a pure function of the snapshot. Several
// snapshots encoded in one process - one after the other, or interleaved by
// several goroutines writing to slow writers, as a daemon syncing several
// databases does - must each come out as their own content, and bytes the
// encoder handed out stay what they were when a later encode runs.
// ---------------------------------------------------------------------------

type C07Inter struct {
	Snaps []model.Snap `json:"snaps"`
	Procs int          `json:"procs"`
	// Yield[i]: writer i yields the processor after every k-th Write (0 = never)
	Yield []int `json:"yield"`
}

// yieldWriter is an io.Writer of the caller's: it hands the processor to other goroutines between writes, as a
// writer that blocks on a pipe or socket would.
type yieldWriter struct {
	buf   bytes.Buffer
	every int
	n     int
}

func (w *yieldWriter) Write(p []byte) (int, error) {
	w.n++
	if w.every > 0 && w.n%w.every == 0 {
		runtime.Gosched()
	}
	return w.buf.Write(p)
}

func checkC07Inter(c C07Inter, o *vcore.Obs) error {
	// (a) sequential: encoded meta messages handed out earlier are not changed by later encodes
	var kept [][]byte
	var copies [][]byte
	for i := range c.Snaps {
		cs := vsnap.ToCustom(c.Snaps[i], 0)
		mb := cs.Meta.Marshal()
		kept = append(kept, mb)
		copies = append(copies, append([]byte(nil), mb...))
		var sink bytes.Buffer
		if _, err := cs.WriteTo(&sink); err != nil {
			return fmt.Errorf("WriteTo: %v", err)
		}
	}
	for i := range kept {
		if !bytes.Equal(kept[i], copies[i]) {
			return fmt.Errorf("the encoded meta message of snapshot %d changed after later snapshots were encoded: was %x, now %x", i, copies[i], kept[i])
		}
	}
	// (b) interleaved: every goroutine encodes its own snapshot into its own (yielding) writer
	if c.Procs > 0 {
		defer runtime.GOMAXPROCS(runtime.GOMAXPROCS(c.Procs))
	}
	outs := make([]*yieldWriter, len(c.Snaps))
	errs := make([]error, len(c.Snaps))
	var wg sync.WaitGroup
	start := make(chan struct{})
	for i := range c.Snaps {
		outs[i] = &yieldWriter{every: c.Yield[i%len(c.Yield)]}
		cs := vsnap.ToCustom(c.Snaps[i], 0)
		wg.Add(1)
		go func(i int, cs *snapshot.Snapshot) {
			defer wg.Done()
			<-start
			_, errs[i] = cs.WriteTo(outs[i])
		}(i, cs)
	}
	close(start)
	wg.Wait()
	for i := range c.Snaps {
		if errs[i] != nil {
			return fmt.Errorf("WriteTo of snapshot %d: %v", i, errs[i])
		}
		var g gogosnapshot.Snapshot
		if err := g.Unmarshal(outs[i].buf.Bytes()); err != nil {
			return fmt.Errorf("snapshot %d encoded next to %d others: the reference codec rejects the bytes: %v", i, len(c.Snaps)-1, err)
		}
		if d := c.Snaps[i].Flat().Diff(model.FlatFromGogo(&g)); d != "" {
			return fmt.Errorf("snapshot %d encoded next to %d others decodes to other content: %s", i, len(c.Snaps)-1, d)
		}
	}
	distinctMeta := map[string]bool{}
	for _, s := range c.Snaps {
		distinctMeta[fmt.Sprintf("%+v", s.Meta)] = true
	}
	o.NonTrivial(len(c.Snaps) >= 2 && len(distinctMeta) >= 2)
	o.Class(fmt.Sprintf("snapshots-%d", len(c.Snaps)))
	o.Class(fmt.Sprintf("gomaxprocs-%d", c.Procs))
	return nil
}

func TestC07Interleaved(t *testing.T) {
	vcore.Run(t, vcore.Config{Property: "C07",
		Rule: "rapid: 2-4 model snapshots with different meta data encoded in one process: (a) one after the other - the encoded meta message obtained for an earlier one must not change when the later ones are encoded; (b) by one goroutine each into writers that yield the processor after every k-th Write (GOMAXPROCS 1, 2 or unchanged) - each output must decode, with the reference codec, to its own model; non-trivial = >=2 snapshots with different meta data"},
		func(t *rapid.T) C07Inter {
			var c C07Inter
			n := rapid.IntRange(2, 4).Draw(t, "n")
			for i := 0; i < n; i++ {
				s := genSnapSmall(t)
				if len(s.DBIs) > 2 {
					s.DBIs = s.DBIs[:2]
				}
				c.Snaps = append(c.Snaps, s)
			}
			c.Procs = rapid.SampledFrom([]int{1, 1, 2, 0}).Draw(t, "procs")
			for i := 0; i < n; i++ {
				c.Yield = append(c.Yield, rapid.SampledFrom([]int{1, 1, 2, 3, 0}).Draw(t, "yield"))
			}
			return c
		}, checkC07Inter)
}

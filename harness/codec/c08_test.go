package codec

import (
	"bytes"
	"compress/gzip"
	"fmt"
	"os"
	"path/filepath"
	"runtime"
	"sort"
	"strings"
	"testing"
	"time"

	"github.com/PowerDNS/lightningstream/snapshot"
	"github.com/PowerDNS/lightningstream/snapshot/gogosnapshot"
	"pgregory.net/rapid"

	"verif/harness/internal/gen"
	"verif/harness/internal/model"
	"verif/harness/internal/vcore"
	"verif/harness/internal/vsnap"
)

// ---------------------------------------------------------------------------
// C08 (decode part): hostile blobs cannot crash, hang or exhaust the process.
// The same oracle also carries the C07 differential for in-domain inputs.
// ---------------------------------------------------------------------------

// guarded runs f in its own goroutine. If it does not return within limit the
// goroutine dump is inspected: the decode goroutine must be seen *running or
// runnable inside the snapshot package* twice, one second apart, for the hang
// to be reported as a violation (otherwise it is an infrastructure timeout).
func guarded(limit time.Duration, f func() error) (err error, hung bool, infra bool) {
	done := make(chan error, 1)
	go func() {
		defer func() {
			if r := recover(); r != nil {
				buf := make([]byte, 16<<10)
				n := runtime.Stack(buf, false)
				done <- fmt.Errorf("PANIC: %v\n%s", r, buf[:n])
			}
		}()
		done <- f()
	}()
	select {
	case e := <-done:
		return e, false, false
	case <-time.After(limit):
	}
	seen := 0
	for i := 0; i < 2; i++ {
		buf := make([]byte, 1<<20)
		n := runtime.Stack(buf, true)
		for _, g := range strings.Split(string(buf[:n]), "\n\n") {
			if strings.Contains(g, "codec.guarded.func1") && strings.Contains(g, "lightningstream/snapshot") &&
				(strings.Contains(g, "[running]") || strings.Contains(g, "[runnable]")) {
				seen++
				break
			}
		}
		select {
		case e := <-done:
			return e, false, false
		case <-time.After(time.Second):
		}
	}
	if seen == 2 {
		return fmt.Errorf("decoder still busy inside the snapshot package after %v (hang)", limit), true, false
	}
	return nil, false, true
}

type decodeResult struct {
	accepted bool
	flat     model.Flat
	err      error
}

// customDecode runs Unmarshal + ValidateTransform + full iteration of the code
// under test with the iteration bound.
func customDecode(pb []byte) decodeResult {
	var cs snapshot.Snapshot
	if err := cs.Unmarshal(pb); err != nil {
		return decodeResult{err: err}
	}
	for _, d := range cs.Databases {
		_ = d.ValidateTransform(cs.FormatVersion, false)
		_ = d.ValidateTransform(cs.FormatVersion, true)
	}
	flat, err := vsnap.FromCustom(&cs, len(pb)+1)
	if err == vsnap.ErrTooManyIterations {
		panic("decoder iterated more entries than there are input bytes: not advancing")
	}
	if err != nil {
		return decodeResult{err: err}
	}
	return decodeResult{accepted: true, flat: flat}
}

// inDomain decides with the independent wire parser whether pb is "a valid
// message of the published schema that describes LMDB content, as a conforming
// encoder may produce it": well-formed wire format, known fields carry their
// schema wire type, uint32 fields fit 32 bits, non-empty keys. Field numbers
// beyond the listed csproto limit at the snapshot/meta level are excluded
// (known finding) and counted.
func inDomain(pb []byte, o *vcore.Obs) bool {
	tree, err := model.ParseSnapshotTree(pb)
	if err != nil {
		return false
	}
	ok := true
	var walk func(items []model.Item, level int)
	walk = func(items []model.Item, level int) {
		for _, it := range items {
			if it.Field >= 1<<29 {
				ok = false
			}
			if wt, known := model.KnownFields[level][it.Field]; known {
				if wt != it.WT {
					ok = false
				}
				if it.WT == model.WTVarint && it.Varint > 0xffffffff &&
					(level == model.LevelSnapshot || (level == model.LevelKV && it.Field == model.KVFlags)) {
					ok = false
				}
			} else if level <= model.LevelMeta && it.Field > csprotoTagLimit {
				if o != nil {
					o.Excluded("csproto-tag-limit")
				}
				ok = false
			}
			if it.IsSub {
				switch {
				case level == model.LevelSnapshot && it.Field == model.SnapMeta:
					walk(it.Sub, model.LevelMeta)
				case level == model.LevelSnapshot && it.Field == model.SnapDatabases:
					walk(it.Sub, model.LevelDBI)
				case level == model.LevelDBI && it.Field == model.DBIEntries:
					if len(it.Sub) == 0 {
						ok = false // empty entry: no key
					}
					walk(it.Sub, model.LevelKV)
				}
			}
		}
	}
	walk(tree, model.LevelSnapshot)
	return ok
}

// pbOracle: the protobuf layer. No panic, bounded iteration, and agreement
// with the reference codec for in-domain input.
func pbOracle(pb []byte, o *vcore.Obs) error {
	res := customDecode(pb)
	if o != nil {
		o.ClassIf(res.accepted, "custom-accepts")
		o.ClassIf(!res.accepted, "custom-rejects")
	}
	if !inDomain(pb, o) {
		return nil
	}
	var g gogosnapshot.Snapshot
	if err := g.Unmarshal(pb); err != nil {
		return nil // reference implementation rejects: outside the domain
	}
	want := model.FlatFromGogo(&g)
	for _, d := range want.DBIs {
		for _, e := range d.Entries {
			if len(e.Key) == 0 {
				return nil
			}
		}
	}
	if o != nil {
		o.Class("in-domain-differential")
	}
	if !res.accepted {
		return fmt.Errorf("custom decoder rejects a valid message the reference codec accepts: %v", res.err)
	}
	if d := want.Diff(res.flat); d != "" {
		return fmt.Errorf("custom decoder disagrees with the reference codec: %s", d)
	}
	return nil
}

func gunzipLen(blob []byte, limit int) int {
	r, err := gzip.NewReader(bytes.NewReader(blob))
	if err != nil {
		return 0
	}
	n := 0
	buf := make([]byte, 32<<10)
	for n < limit {
		k, err := r.Read(buf)
		n += k
		if err != nil {
			break
		}
	}
	return n
}

// blobOracle: the container layer (what the downloader calls). Allocation is
// bounded by a generous multiple of the input and its decompressed size.
func blobOracle(blob []byte, o *vcore.Obs) error {
	dec := gunzipLen(blob, 1<<30)
	var m0, m1 runtime.MemStats
	runtime.ReadMemStats(&m0)
	s, err := snapshot.LoadData(blob)
	if err == nil {
		for _, d := range s.Databases {
			_ = d.ValidateTransform(s.FormatVersion, false)
		}
		_, ierr := vsnap.FromCustom(s, dec+1)
		if ierr == vsnap.ErrTooManyIterations {
			panic("decoder iterated more entries than there are input bytes: not advancing")
		}
	}
	runtime.ReadMemStats(&m1)
	alloc := m1.TotalAlloc - m0.TotalAlloc
	// LoadData itself pre-allocates 10x the compressed size and the buffer doubles while
	// decompressing; flattening copies every entry once.
	bound := uint64(24*len(blob)) + uint64(8*dec) + 4<<20
	if alloc > bound {
		return fmt.Errorf("decoding a %d byte blob (%d bytes decompressed) allocated %d bytes (> bound %d)", len(blob), dec, alloc, bound)
	}
	if o != nil {
		o.ClassIf(err == nil, "blob-accepted")
		o.ClassIf(err != nil, "blob-rejected")
	}
	return nil
}

func gz(b []byte) []byte {
	var buf bytes.Buffer
	w, _ := gzip.NewWriterLevel(&buf, gzip.BestSpeed)
	_, _ = w.Write(b)
	_ = w.Close()
	return buf.Bytes()
}

// --- structured corruption -------------------------------------------------

type Corrupt struct {
	Kind  string      `json:"kind"`  // len | tag | cut | flip | trunc | insert
	Level int         `json:"level"` // message level for len/tag/cut
	Msg   int         `json:"msg"`
	Item  int         `json:"item"`
	Val   uint64      `json:"val,omitempty"`
	Pad   int         `json:"pad,omitempty"`
	Pos   int         `json:"pos,omitempty"` // per-mille position for flip/trunc/insert
	Data  model.Bytes `json:"data,omitempty"`
}

type C08Case struct {
	Snap      model.Snap  `json:"snap"`
	Raw       model.Bytes `json:"raw,omitempty"` // if set, used instead of the snapshot
	Corrupt   []Corrupt   `json:"corrupt"`
	Container string      `json:"container"` // gzip | none | gzip-trunc | gzip-trailing | gzip-flip | double
	CPos      int         `json:"cpos,omitempty"`
}

var hostileLens = []uint64{0, 1, 2, 127, 128, 1 << 31, 1<<31 - 1, 1 << 32, 1 << 62, 1 << 63, 1<<63 - 1, ^uint64(0), ^uint64(0) - 1, ^uint64(0) - 9, ^uint64(0) - 10}

func genCorrupt(t *rapid.T) Corrupt {
	c := Corrupt{
		Kind:  rapid.SampledFrom([]string{"len", "len", "len", "tag", "cut", "flip", "trunc", "insert"}).Draw(t, "ckind"),
		Level: rapid.IntRange(0, 3).Draw(t, "clevel"),
		Msg:   rapid.IntRange(0, 6).Draw(t, "cmsg"),
		Item:  rapid.IntRange(0, 8).Draw(t, "citem"),
		Pos:   rapid.IntRange(0, 1000).Draw(t, "cpos"),
	}
	switch c.Kind {
	case "len":
		switch rapid.IntRange(0, 3).Draw(t, "lkind") {
		case 0:
			c.Val = hostileLens[rapid.IntRange(0, len(hostileLens)-1).Draw(t, "lval")]
		case 1:
			c.Val = 1<<63 + uint64(rapid.IntRange(-20, 20).Draw(t, "lnear63"))
		case 2:
			c.Val = ^uint64(0) - uint64(rapid.IntRange(0, 600).Draw(t, "lneg")) // small negative ints
		default:
			c.Val = uint64(rapid.IntRange(-3, 3).Draw(t, "ldelta")) // relative to the true length, applied later
			c.Kind = "lendelta"
		}
		c.Pad = rapid.SampledFrom([]int{0, 0, 0, 5, 10}).Draw(t, "lpad")
	case "tag":
		switch rapid.IntRange(0, 2).Draw(t, "tkind") {
		case 0: // same field, another wire type
			c.Val = uint64(rapid.IntRange(0, 7).Draw(t, "twt"))
			c.Kind = "tagwt"
		case 1:
			c.Val = rapid.SampledFrom([]uint64{0, 7, 8, 1<<32 - 1, 1 << 32, ^uint64(0), 1 << 63, 3<<3 | 2, 2<<3 | 2}).Draw(t, "tval")
		default:
			c.Val = rapid.Uint64().Draw(t, "trand")
		}
	case "cut":
		c.Val = uint64(rapid.IntRange(1, 12).Draw(t, "cutn"))
	case "flip":
		c.Val = uint64(rapid.IntRange(0, 7).Draw(t, "bit"))
	case "insert":
		c.Data = gen.BytesN(t, "ins", 1, 12)
	}
	return c
}

func applyCorrupt(tree *[]model.Item, cs []Corrupt) (structural int) {
	for _, c := range cs {
		switch c.Kind {
		case "len", "lendelta", "tag", "tagwt", "cut":
		default:
			continue
		}
		msgs := model.Messages(tree, c.Level)
		if len(msgs) == 0 {
			continue
		}
		m := msgs[c.Msg%len(msgs)]
		if len(*m) == 0 {
			continue
		}
		it := &(*m)[c.Item%len(*m)]
		switch c.Kind {
		case "len", "lendelta", "cut":
			// prefer a length-delimited item: search forward
			for k := 0; k < len(*m) && it.WT != model.WTBytes; k++ {
				it = &(*m)[(c.Item+k)%len(*m)]
			}
			if it.WT != model.WTBytes {
				continue
			}
			switch c.Kind {
			case "len":
				v := c.Val
				it.RawLen = &v
				it.PadLen = c.Pad
			case "lendelta":
				real := uint64(len(it.Bytes))
				if it.IsSub {
					real = uint64(len(model.EncodeMsg(it.Sub)))
				}
				v := real + c.Val // wraps for negative deltas
				it.RawLen = &v
				it.PadLen = c.Pad
			case "cut":
				it.Cut = int(c.Val)
			}
			structural++
		case "tagwt":
			v := uint64(it.Field)<<3 | (c.Val & 7)
			it.RawTag = &v
			structural++
		case "tag":
			v := c.Val
			it.RawTag = &v
			structural++
		}
	}
	return structural
}

func applyByteOps(b []byte, cs []Corrupt) []byte {
	for _, c := range cs {
		if len(b) == 0 {
			break
		}
		pos := c.Pos * len(b) / 1001
		switch c.Kind {
		case "flip":
			b = append([]byte(nil), b...)
			b[pos] ^= 1 << (c.Val & 7)
		case "trunc":
			b = b[:pos]
		case "insert":
			b = append(append(append([]byte(nil), b[:pos]...), c.Data...), b[pos:]...)
		}
	}
	return b
}

func buildC08(c C08Case) (pb []byte, blob []byte, structural int) {
	if c.Raw != nil {
		pb = c.Raw
	} else {
		pb0, err := c.Snap.ToGogo().Marshal()
		if err != nil {
			panic(err)
		}
		tree, err := model.ParseSnapshotTree(pb0)
		if err != nil {
			panic(err)
		}
		structural = applyCorrupt(&tree, c.Corrupt)
		pb = model.EncodeMsg(tree)
	}
	pb = applyByteOps(pb, c.Corrupt)
	switch c.Container {
	case "none":
		blob = pb
	case "gzip-trunc":
		g := gz(pb)
		blob = g[:c.CPos*len(g)/1001]
	case "gzip-trailing":
		blob = append(gz(pb), []byte("trailing garbage")...)
	case "gzip-flip":
		g := gz(pb)
		if len(g) > 0 {
			g[c.CPos*len(g)/1001] ^= 0x10
		}
		blob = g
	case "double":
		blob = append(gz(pb), gz(pb)...) // multi-member gzip
	default:
		blob = gz(pb)
	}
	return
}

func checkC08(c C08Case, o *vcore.Obs) error {
	pb, blob, structural := buildC08(c)
	run := func() error {
		if err := pbOracle(pb, o); err != nil {
			return err
		}
		return blobOracle(blob, o)
	}
	err, hung, infra := guarded(20*time.Second, run)
	if infra {
		// not confirmed as a hang of the decoder: do not report
		o.Class("watchdog-unconfirmed")
		return nil
	}
	_ = hung
	if err != nil {
		return err
	}
	o.NonTrivial(c.Raw == nil && structural > 0)
	o.Class("container-" + c.Container)
	for _, k := range c.Corrupt {
		o.Class("corrupt-" + k.Kind)
	}
	return nil
}

func genC08(t *rapid.T) C08Case {
	var c C08Case
	if rapid.IntRange(0, 9).Draw(t, "raw?") == 0 {
		c.Raw = rapid.SliceOfN(rapid.Byte(), 0, 200).Draw(t, "raw")
		if c.Raw == nil {
			c.Raw = model.Bytes{}
		}
	} else {
		c.Snap = genSnapSmall(t)
		// keep hostile cases small: a handful of entries is enough structure
		for i := range c.Snap.DBIs {
			if len(c.Snap.DBIs[i].Entries) > 4 {
				c.Snap.DBIs[i].Entries = c.Snap.DBIs[i].Entries[:4]
			}
		}
	}
	c.Corrupt = rapid.SliceOfN(rapid.Custom(genCorrupt), 0, 3).Draw(t, "corrupt")
	c.Container = rapid.SampledFrom([]string{"gzip", "gzip", "gzip", "gzip", "none", "gzip-trunc", "gzip-trailing", "gzip-flip", "double"}).Draw(t, "container")
	c.CPos = rapid.IntRange(0, 1000).Draw(t, "cpos")
	return c
}

func TestC08Decode(t *testing.T) {
	vcore.Run(t, vcore.Config{Property: "C08", Inflight: true,
		Rule: "rapid: valid reference-encoded snapshot (or raw bytes) + up to 3 corruptions (length varints replaced by boundary/negative/off-by-n values incl. overlong encodings, tags replaced, payload cut, bit flip, truncation, insertion) at any nesting level, in a gzip / truncated / trailing-garbage / flipped / multi-member / no container; " +
			"oracle: no panic, iteration count <= input bytes, allocation bound, watchdog-confirmed no hang, and agreement with the reference codec when the result is still a valid schema message; " +
			"non-trivial = structurally valid message with >=1 adversarial length/tag/cut"},
		genC08, checkC08)
}

// A gzip bomb-ish input: highly compressible valid snapshot. Memory must stay
// proportional to the decompressed size.
func TestC08Proportional(t *testing.T) {
	type C struct {
		Entries int `json:"entries"`
		ValLen  int `json:"val_len"`
	}
	// ValLen -1: a DBI made of nothing but empty entries (tag + length 0: what no writer produces, a few
	// kilobytes compressed for megabytes of them); -2: the same between two ordinary entries
	cases := []C{{1, 1 << 20}, {4, 4 << 20}, {2000, 100}, {1, 24 << 20}, {6_000_000, -1}, {3_000_000, -2}}
	vcore.RunEnum(t, vcore.Config{Property: "C08", Inflight: true, Rule: "enumerated highly compressible snapshots (huge values, thousands of entries, millions of empty entries) through the container-layer oracle (no crash - a fatal stack overflow included -, bounded time and allocation); non-trivial = decompressed size > 1 MiB"},
		func(yield func(C) bool) {
			for _, c := range cases {
				if !yield(c) {
					return
				}
			}
		}, func(c C, o *vcore.Obs) error {
			if c.ValLen < 0 {
				body := bytes.Repeat([]byte{model.DBIEntries<<3 | model.WTBytes, 0}, c.Entries)
				if c.ValLen == -2 {
					kv := model.EncodeMsg([]model.Item{{Field: model.KVKey, WT: model.WTBytes, Bytes: []byte("k")}, {Field: model.KVValue, WT: model.WTBytes, Bytes: []byte("v")}})
					ent := model.EncodeMsg([]model.Item{{Field: model.DBIEntries, WT: model.WTBytes, Bytes: kv}})
					body = append(append(append([]byte{}, ent...), body...), ent...)
				}
				dbi := append(model.EncodeMsg([]model.Item{{Field: model.DBIName, WT: model.WTBytes, Bytes: []byte("d")}}), body...)
				pb := model.EncodeMsg([]model.Item{{Field: model.SnapFormatVersion, WT: model.WTVarint, Varint: 3}, {Field: model.SnapDatabases, WT: model.WTBytes, Bytes: dbi}})
				o.NonTrivial(true)
				return blobOracle(gz(pb), o)
			}
			m := model.Snap{FormatVersion: 3, DBIs: []model.DBI{{Name: "d"}}}
			for i := 0; i < c.Entries; i++ {
				m.DBIs[0].Entries = append(m.DBIs[0].Entries, model.KV{Key: []byte(fmt.Sprintf("k%06d", i)), Val: model.Val{Len: c.ValLen}, TS: 1})
			}
			pb, _ := m.ToGogo().Marshal()
			o.NonTrivial(len(pb) > 1<<20)
			return blobOracle(gz(pb), o)
		})
}

// --- native fuzz targets + corpus replay -------------------------------------

func corpusDir() string {
	root := os.Getenv("VERIF_ROOT")
	if root == "" {
		root = "../.."
	}
	return filepath.Join(root, "harness", "corpus")
}

func hostileSeeds() [][]byte {
	var out [][]byte
	valid := func(m model.Snap) []byte { b, _ := m.ToGogo().Marshal(); return b }
	base := model.Snap{FormatVersion: 3, CompatVersion: 1, Meta: model.Meta{InstanceID: "a", DatabaseName: "db", TimestampNano: 5, LmdbTxnID: 7},
		DBIs: []model.DBI{{Name: "t", Flags: 8, Entries: []model.KV{{Key: []byte("k"), Val: model.ValOf([]byte("v")), TS: 9, Flags: 1}, {Key: []byte("k2"), TS: 1}}},
			{Name: "u", Transform: "dupsort_hack_v1", Flags: 4}}}
	out = append(out, valid(base), valid(model.Snap{}), []byte{})
	// hostile constants: entries field with huge / negative lengths
	for _, l := range hostileLens {
		// DBI message: field 2 (entries) with length l
		inner := model.AppendVarint([]byte{2<<3 | 2}, l)
		inner = append(inner, 0x0a, 0x01, 'k')
		top := append([]byte{3<<3 | 2}, model.AppendVarint(nil, uint64(len(inner)))...)
		out = append(out, append(top, inner...))
		// KV with key length l inside a correct entries length
		kv := model.AppendVarint([]byte{1<<3 | 2}, l)
		kv = append(kv, 'k')
		e := append(model.AppendVarint([]byte{2<<3 | 2}, uint64(len(kv))), kv...)
		top2 := append([]byte{3<<3 | 2}, model.AppendVarint(nil, uint64(len(e)))...)
		out = append(out, append(top2, e...))
		// unknown length-delimited field with length l in a DBI
		un := model.AppendVarint([]byte{9<<3 | 2}, l)
		un = append(un, 0x0a, 0x01, 'n')
		top3 := append([]byte{3<<3 | 2}, model.AppendVarint(nil, uint64(len(un)))...)
		out = append(out, append(top3, un...))
	}
	return out
}

func FuzzUnmarshal(f *testing.F) {
	for _, s := range hostileSeeds() {
		f.Add(s)
	}
	addCorpus(f, "pb")
	f.Fuzz(func(t *testing.T, data []byte) {
		if len(data) > 1<<20 {
			return
		}
		if err := pbOracle(data, nil); err != nil {
			t.Fatalf("%v", err)
		}
	})
}

func FuzzLoadData(f *testing.F) {
	for _, s := range hostileSeeds() {
		f.Add(s, true)
		f.Add(gz(s), false)
	}
	f.Fuzz(func(t *testing.T, data []byte, wrap bool) {
		if len(data) > 1<<20 {
			return
		}
		blob := data
		if wrap {
			blob = gz(data)
		}
		if err := blobOracle(blob, nil); err != nil {
			t.Fatalf("%v", err)
		}
	})
}

func addCorpus(f *testing.F, sub string) {
	files, _ := filepath.Glob(filepath.Join(corpusDir(), sub, "*"))
	sort.Strings(files)
	for _, p := range files {
		if b, err := os.ReadFile(p); err == nil {
			f.Add(b)
		}
	}
}

// TestC08Corpus replays the hostile constants and every saved corpus / crasher
// file through both oracles (the quick-tier stand-in for native fuzzing).
type C08Corpus struct {
	Name string      `json:"name"`
	Data model.Bytes `json:"data"`
}

func TestC08Corpus(t *testing.T) {
	var cases []C08Corpus
	for i, s := range hostileSeeds() {
		cases = append(cases, C08Corpus{Name: fmt.Sprintf("hostile-%d", i), Data: s})
	}
	for _, sub := range []string{"pb", "crashers"} {
		files, _ := filepath.Glob(filepath.Join(corpusDir(), sub, "*"))
		sort.Strings(files)
		for _, p := range files {
			if b, err := os.ReadFile(p); err == nil {
				cases = append(cases, C08Corpus{Name: sub + "/" + filepath.Base(p), Data: b})
			}
		}
	}
	vcore.RunEnum(t, vcore.Config{Property: "C08", Inflight: true,
		Rule: "replay of hostile constants (every boundary length at entries/key/unknown-field position) and saved corpus/crasher files through the protobuf-layer and container-layer oracles; non-trivial = input longer than 4 bytes"},
		func(yield func(C08Corpus) bool) {
			for _, c := range cases {
				if !yield(c) {
					return
				}
			}
		}, func(c C08Corpus, o *vcore.Obs) error {
			o.NonTrivial(len(c.Data) > 4)
			err, _, infra := guarded(20*time.Second, func() error {
				if err := pbOracle(c.Data, o); err != nil {
					return err
				}
				if err := blobOracle(gz(c.Data), o); err != nil {
					return err
				}
				return blobOracle(c.Data, o)
			})
			if infra {
				return nil
			}
			return err
		})
}

package codec

import (
	"bytes"
	"fmt"
	"strings"
	"testing"

	"github.com/PowerDNS/lightningstream/snapshot"
	"github.com/PowerDNS/lightningstream/snapshot/gogosnapshot"
	"pgregory.net/rapid"

	"verif/harness/internal/gen"
	"verif/harness/internal/model"
	"verif/harness/internal/vcore"
	"verif/harness/internal/vsnap"
)

// ---------------------------------------------------------------------------
// C07 Snapshot encoding is lossless and wire-compatible with the published schema
// ---------------------------------------------------------------------------

func genMeta(t *rapid.T) model.Meta {
	s := func(l string) string {
		if rapid.Bool().Draw(t, l+"?") {
			return ""
		}
		if rapid.IntRange(0, 9).Draw(t, l+"_long") == 0 {
			// long strings: host names up to 253 bytes, names of a kilobyte or more (every internal
			// scratch buffer of the encoder has some size)
			n := rapid.SampledFrom([]int{127, 128, 240, 253, 255, 256, 500, 980, 1000, 1024, 2000, 5000}).Draw(t, l+"_n")
			return strings.Repeat(rapid.SampledFrom([]string{"a", "h", "é"}).Draw(t, l+"_c"), n)[:n]
		}
		return rapid.StringN(0, 20, 40).Draw(t, l)
	}
	i64 := func(l string) int64 {
		switch rapid.IntRange(0, 3).Draw(t, l+"?") {
		case 0:
			return 0
		case 1:
			return int64(rapid.IntRange(1, 300).Draw(t, l))
		default:
			return rapid.Int64Range(0, 1<<62).Draw(t, l)
		}
	}
	return model.Meta{GenerationID: s("gen"), InstanceID: s("inst"), Hostname: s("host"),
		LmdbTxnID: i64("txn"), TimestampNano: gen.TS(t, "mts"), DatabaseName: s("db"), FromLmdbTxnID: i64("from")}
}

func genSnap(t *rapid.T, allowHuge bool) model.Snap {
	var s model.Snap
	s.FormatVersion = rapid.OneOf(rapid.Uint32Range(0, 5), rapid.Uint32()).Draw(t, "fv")
	s.CompatVersion = rapid.OneOf(rapid.Uint32Range(0, 5), rapid.Uint32()).Draw(t, "cv")
	s.Meta = genMeta(t)
	nd := rapid.IntRange(0, 5).Draw(t, "ndbi")
	for i := 0; i < nd; i++ {
		var d model.DBI
		if rapid.IntRange(0, 19).Draw(t, "longname?") == 0 {
			d.Name = string(gen.BytesN(t, "name_long", 400, 511))
		} else {
			d.Name = gen.DBIName(t, "name", 40)
		}
		d.Flags = rapid.OneOf(rapid.SampledFrom([]uint64{0, 0x04, 0x08, 0x0c, 0x40000}), rapid.Uint64()).Draw(t, "dflags")
		d.Transform = rapid.OneOf(rapid.SampledFrom([]string{"", "", "dupsort_hack_v1"}), rapid.StringN(0, 10, 64)).Draw(t, "transform")
		var ne int
		switch rapid.IntRange(0, 9).Draw(t, "ne_kind") {
		case 0:
			ne = 0
		case 1:
			ne = rapid.IntRange(20, 300).Draw(t, "ne_big")
		default:
			ne = rapid.IntRange(1, 8).Draw(t, "ne")
		}
		huge := 0
		for j := 0; j < ne; j++ {
			e := model.KV{Key: gen.Key(t, "key", 511), TS: gen.TS(t, "ts")}
			e.Val = gen.Value(t, "val", allowHuge && huge < 2 && ne <= 8)
			if e.Val.Len > 1<<20 {
				huge++
			}
			e.Flags = rapid.OneOf(rapid.SampledFrom([]uint32{0, 0, 1, 2, 3, 0x80}), rapid.Uint32()).Draw(t, "eflags")
			d.Entries = append(d.Entries, e)
		}
		s.DBIs = append(s.DBIs, d)
	}
	return s
}

func sizeUpper(d model.DBI) int {
	n := len(d.Name) + len(d.Transform) + 64
	for _, e := range d.Entries {
		n += len(e.Key) + e.Val.Len + 40
	}
	return n
}

type C07RT struct {
	Snap     model.Snap `json:"snap"`
	HintMode int        `json:"hint_mode"` // 0 exact upper bound, 1 zero hint (forces growth), 2 half
}

func classifySnap(s model.Snap, o *vcore.Obs) (nt bool) {
	entries := 0
	feature := false
	for _, d := range s.DBIs {
		o.ClassIf(len(d.Entries) == 0, "dbi-without-entries")
		for _, e := range d.Entries {
			entries++
			if e.Val.Len == 0 {
				o.Class("empty-value")
				feature = true
			}
			if e.TS == 0 {
				o.Class("ts-0")
				feature = true
			}
			kvSize := len(e.Key) + e.Val.Len + 16
			if kvSize >= 128 {
				o.Class("kv-len-varint>=2B")
				feature = true
			}
			if kvSize >= 16384 {
				o.Class("kv-len-varint>=3B")
			}
			if kvSize >= 2097152 {
				o.Class("kv-len-varint>=4B")
			}
			o.ClassIf(e.Flags > 127, "entry-flags-multibyte")
		}
	}
	return entries > 0 && feature
}

func checkC07RT(c C07RT, o *vcore.Obs) error {
	m := c.Snap
	want := m.Flat()
	// build through the writer API of the code under test
	cs := &snapshot.Snapshot{}
	{
		// per-DBI hint
		tmp := vsnapWithHints(m, c.HintMode)
		cs = tmp
	}
	var buf bytes.Buffer
	n, err := cs.WriteTo(&buf)
	if err != nil {
		return fmt.Errorf("WriteTo: %v", err)
	}
	if int(n) != buf.Len() {
		return fmt.Errorf("WriteTo reports %d bytes, wrote %d", n, buf.Len())
	}
	pb := buf.Bytes()
	// (1) the bytes are a valid message of the published schema: the reference codec reads them
	var g gogosnapshot.Snapshot
	if err := g.Unmarshal(pb); err != nil {
		return fmt.Errorf("reference codec rejects custom-encoded bytes: %v", err)
	}
	if d := want.Diff(model.FlatFromGogo(&g)); d != "" {
		return fmt.Errorf("custom encode -> reference decode differs from model: %s", d)
	}
	// (1b) independent wire walk: only schema fields with schema wire types
	tree, err := model.ParseSnapshotTree(pb)
	if err != nil {
		return fmt.Errorf("independent wire parser rejects custom-encoded bytes: %v", err)
	}
	if err := model.CheckSchemaOnly(tree); err != nil {
		return fmt.Errorf("custom-encoded bytes: %v", err)
	}
	// (2) custom decode of the same bytes
	var back snapshot.Snapshot
	if err := back.Unmarshal(pb); err != nil {
		return fmt.Errorf("custom Unmarshal of custom-encoded bytes: %v", err)
	}
	got, err := vsnap.FromCustom(&back, 0)
	if err != nil {
		return fmt.Errorf("custom iteration of custom-encoded bytes: %v", err)
	}
	if d := want.Diff(got); d != "" {
		return fmt.Errorf("custom round trip differs from model: %s", d)
	}
	// (3) through the compressed container
	blob, _, err := snapshot.DumpData(cs)
	if err != nil {
		return fmt.Errorf("DumpData: %v", err)
	}
	ld, err := snapshot.LoadData(blob)
	if err != nil {
		return fmt.Errorf("LoadData(DumpData(x)): %v", err)
	}
	got2, err := vsnap.FromCustom(ld, 0)
	if err != nil {
		return fmt.Errorf("iteration after LoadData: %v", err)
	}
	if d := want.Diff(got2); d != "" {
		return fmt.Errorf("LoadData(DumpData(x)) differs from x: %s", d)
	}
	// (4) reading back before encoding: the writer-side DBI can be iterated too
	got3, err := vsnap.FromCustom(cs, 0)
	if err != nil {
		return fmt.Errorf("iteration of freshly written DBI: %v", err)
	}
	if d := want.Diff(got3); d != "" {
		return fmt.Errorf("freshly written DBI iterates differently from model: %s", d)
	}
	o.NonTrivial(classifySnap(m, o))
	o.ClassIf(c.HintMode != 0, "buffer-growth-forced")
	return nil
}

func vsnapWithHints(m model.Snap, mode int) *snapshot.Snapshot {
	// vsnap.ToCustom uses one hint for all DBIs; emulate per-DBI hints here
	s := vsnap.ToCustom(model.Snap{FormatVersion: m.FormatVersion, CompatVersion: m.CompatVersion, Meta: m.Meta}, 0)
	for _, d := range m.DBIs {
		h := sizeUpper(d)
		switch mode {
		case 1:
			h = 0
		case 2:
			h = h / 2
		}
		one := vsnap.ToCustom(model.Snap{DBIs: []model.DBI{d}}, h)
		s.Databases = append(s.Databases, one.Databases...)
	}
	return s
}

func TestC07RoundTrip(t *testing.T) {
	vcore.Run(t, vcore.Config{Property: "C07",
		Rule: "rapid model snapshots (0-5 DBIs, names <=511 B, any flags/transform, 0-300 entries, keys 1-511 B, value lengths from varint boundary classes up to 3 MiB, any ts/flags, meta) -> custom writer -> {reference decoder, independent wire walk, custom decoder, gzip container}; " +
			"non-trivial = >=1 entry and one of {empty value, ts 0, entry message >=128 B}"},
		func(t *rapid.T) C07RT {
			hm := 0
			if rapid.IntRange(0, 24).Draw(t, "hint?") == 0 {
				hm = rapid.IntRange(1, 2).Draw(t, "hint")
			}
			return C07RT{Snap: genSnap(t, true), HintMode: hm}
		}, checkC07RT)
}

// --- buffer growth steps of DBI.Append (10 MiB first step, doubling) -------

type C07Grow struct {
	Entries int `json:"entries"`
	ValLen  int `json:"val_len"`
	Hint    int `json:"hint"` // -1: NewDBI()
}

func TestC07BufferGrowth(t *testing.T) {
	cases := []C07Grow{
		{Entries: 11, ValLen: 1 << 20, Hint: -1},     // crosses the first 10 MiB step
		{Entries: 23, ValLen: 1 << 20, Hint: -1},     // crosses 10 MiB and the doubling to 20 MiB
		{Entries: 3, ValLen: 3 << 20, Hint: 7 << 20}, // hint > 5 MiB: doubling path from the start
		{Entries: 40000, ValLen: 300, Hint: -1},      // many small entries across the first step
		{Entries: 2, ValLen: 11 << 20, Hint: -1},     // a single entry larger than the whole step
		{Entries: 1, ValLen: 20, Hint: 0},            // tiny
	}
	vcore.RunEnum(t, vcore.Config{Property: "C07",
		Rule: "enumerated buffer-growth scenarios of the streaming writer (entries x value size x initial hint); non-trivial = total size > 10 MiB"},
		func(yield func(C07Grow) bool) {
			for _, c := range cases {
				if !yield(c) {
					return
				}
			}
		},
		func(c C07Grow, o *vcore.Obs) error {
			var d *snapshot.DBI
			if c.Hint < 0 {
				d = snapshot.NewDBI()
			} else {
				d = snapshot.NewDBISize(c.Hint)
			}
			d.SetName("grow")
			val := bytes.Repeat([]byte{0xab}, c.ValLen)
			for i := 0; i < c.Entries; i++ {
				val[0] = byte(i)
				val[c.ValLen-1] = byte(i >> 8)
				d.Append(snapshot.KV{Key: []byte(fmt.Sprintf("k%08d", i)), Value: val, TimestampNano: uint64(i + 1)})
			}
			s := &snapshot.Snapshot{FormatVersion: 3, Databases: []*snapshot.DBI{d}}
			var buf bytes.Buffer
			if _, err := s.WriteTo(&buf); err != nil {
				return err
			}
			var g gogosnapshot.Snapshot
			if err := g.Unmarshal(buf.Bytes()); err != nil {
				return fmt.Errorf("reference codec rejects: %v", err)
			}
			if len(g.Databases) != 1 || len(g.Databases[0].Entries) != c.Entries {
				return fmt.Errorf("reference codec sees %d DBIs / wrong entry count", len(g.Databases))
			}
			for i, e := range g.Databases[0].Entries {
				if string(e.Key) != fmt.Sprintf("k%08d", i) || len(e.Value) != c.ValLen || e.Value[0] != byte(i) ||
					e.Value[c.ValLen-1] != byte(i>>8) || e.TimestampNano != uint64(i+1) {
					return fmt.Errorf("entry %d corrupted across buffer growth", i)
				}
				if c.ValLen > 2 && e.Value[1] != 0xab {
					return fmt.Errorf("entry %d payload corrupted", i)
				}
			}
			o.NonTrivial(c.Entries*c.ValLen > 10<<20)
			return nil
		})
}

// --- forward compatibility: differential against the reference codec -------

// ReOp is one re-encoding step a conforming encoder could have produced.
type ReOp struct {
	Level int         `json:"level"` // 0 snapshot, 1 meta, 2 dbi, 3 kv
	Msg   int         `json:"msg"`   // which message of that level (mod count); -1 = all
	Kind  string      `json:"kind"`  // swap | rotate | reverse | unknown | dup
	I     int         `json:"i"`
	J     int         `json:"j"`
	Field int         `json:"field,omitempty"`
	WT    int         `json:"wt,omitempty"`
	Data  model.Bytes `json:"data,omitempty"`
	Num   uint64      `json:"num,omitempty"`
}

type C07Compat struct {
	Snap model.Snap `json:"snap"`
	Ops  []ReOp     `json:"ops"`
	// Redirected counts unknown-field draws whose field number was lowered because of the
	// listed known finding "csproto-tag-limit" (field numbers >= 2^26 at the snapshot/meta level).
	Redirected int `json:"redirected,omitempty"`
}

// csprotoTagLimit: largest field number csproto's DecodeTag accepts (it compares the
// whole tag key, field<<3|wiretype, against 2^29-1). Known finding, see known_findings.json.
const csprotoTagLimit = 1<<26 - 1

func genReOp(t *rapid.T) ReOp {
	op := ReOp{
		Level: rapid.IntRange(0, 3).Draw(t, "level"),
		Msg:   rapid.IntRange(-1, 6).Draw(t, "msg"),
		Kind:  rapid.SampledFrom([]string{"swap", "rotate", "reverse", "unknown", "unknown", "unknown", "dup", "split", "emptyfield"}).Draw(t, "kind"),
		I:     rapid.IntRange(0, 8).Draw(t, "i"),
		J:     rapid.IntRange(0, 8).Draw(t, "j"),
	}
	if op.Kind == "split" {
		op.Level = model.LevelSnapshot
	}
	if op.Kind == "unknown" {
		// unknown field numbers: anything outside the schema of that level
		switch rapid.IntRange(0, 3).Draw(t, "fkind") {
		case 0:
			op.Field = rapid.SampledFrom([]int{5, 6, 9, 15, 16, 17}).Draw(t, "field")
		case 1:
			op.Field = rapid.SampledFrom([]int{2047, 2048, 1<<29 - 1, 1 << 20}).Draw(t, "field")
		default:
			op.Field = rapid.IntRange(5, 1<<29-1).Draw(t, "field")
		}
		if _, known := model.KnownFields[op.Level][op.Field]; known {
			op.Field = 6 + 100*op.Level + 1000 // never a schema field
			if _, k2 := model.KnownFields[op.Level][op.Field]; k2 {
				op.Field = 99
			}
		}
		op.WT = rapid.SampledFrom([]int{model.WTVarint, model.WTFixed64, model.WTBytes, model.WTFixed32}).Draw(t, "wt")
		switch op.WT {
		case model.WTVarint:
			// every varint length 1..10 bytes: 10-byte varints are what negative int32/int64/enum values look like
			op.Num = rapid.OneOf(rapid.Uint64Range(0, 300), rapid.Uint64(),
				rapid.SampledFrom([]uint64{127, 128, 1<<14 - 1, 1 << 14, 1<<56 - 1, 1 << 56, 1<<63 - 1, 1 << 63, 1<<64 - 1, 1<<64 - 2})).Draw(t, "num")
		case model.WTFixed64:
			op.Data = gen.BytesN(t, "f64", 8, 8)
		case model.WTFixed32:
			op.Data = gen.BytesN(t, "f32", 4, 4)
		default:
			n := rapid.SampledFrom([]int{0, 1, 2, 5, 127, 128, 300}).Draw(t, "ulen")
			op.Data = gen.BytesN(t, "ubytes", n, n)
		}
	}
	return op
}

func applyReOps(tree *[]model.Item, ops []ReOp) {
	for _, op := range ops {
		msgs := model.Messages(tree, op.Level)
		if len(msgs) == 0 {
			continue
		}
		var targets []*[]model.Item
		if op.Msg < 0 {
			targets = msgs
		} else {
			targets = []*[]model.Item{msgs[op.Msg%len(msgs)]}
		}
		for _, m := range targets {
			items := *m
			n := len(items)
			switch op.Kind {
			case "swap":
				if n >= 2 {
					i, j := op.I%n, op.J%n
					items[i], items[j] = items[j], items[i]
				}
			case "rotate":
				if n >= 2 {
					k := op.I % n
					items = append(append([]model.Item{}, items[k:]...), items[:k]...)
				}
			case "reverse":
				for i, j := 0, n-1; i < j; i, j = i+1, j-1 {
					items[i], items[j] = items[j], items[i]
				}
			case "unknown":
				it := model.Item{Field: op.Field, WT: op.WT, Varint: op.Num}
				if op.WT == model.WTBytes {
					it.Bytes = op.Data
				} else if op.WT != model.WTVarint {
					it.Fixed = op.Data
				}
				pos := 0
				if n > 0 {
					pos = op.I % (n + 1)
				}
				items = append(items[:pos:pos], append([]model.Item{it}, items[pos:]...)...)
			case "emptyfield":
				// a conforming encoder may write an empty string/bytes field explicitly (tag + length 0), anywhere in
				// the message - also as its very last field, where the payload "starts" exactly at the end
				cands := map[int][]int{model.LevelSnapshot: {model.SnapMeta}, model.LevelMeta: {1, 2, 3, 7}, model.LevelDBI: {1, 4}, model.LevelKV: {2}}[op.Level]
				if len(cands) > 0 {
					it := model.Item{Field: cands[op.I%len(cands)], WT: model.WTBytes, Bytes: []byte{}}
					pos := n
					if op.J%3 == 0 && n > 0 {
						pos = op.J % (n + 1)
					}
					items = append(items[:pos:pos], append([]model.Item{it}, items[pos:]...)...)
				}
			case "split":
				// the (non-repeated, embedded) meta message written in two occurrences, each carrying
				// part of the fields: every protobuf parser merges them (concatenated messages, or a
				// writer that emits part of the metadata after the DBIs)
				if op.Level == model.LevelSnapshot {
					for i := range items {
						if items[i].Field == model.SnapMeta && items[i].IsSub && len(items[i].Sub) > 0 {
							sub := items[i].Sub
							k := op.I % (len(sub) + 1)
							second := items[i]
							second.Sub = append([]model.Item{}, sub[k:]...)
							items[i].Sub = append([]model.Item{}, sub[:k]...)
							pos := i + 1 + op.J%(len(items)-i)
							items = append(items[:pos:pos], append([]model.Item{second}, items[pos:]...)...)
							break
						}
					}
				}
			case "dup":
				// repeat a scalar (non-repeated) field occurrence earlier in the message with a
				// different payload: the last occurrence must win
				if n > 0 {
					i := op.I % n
					src := items[i]
					repeated := (op.Level == model.LevelSnapshot && src.Field == model.SnapDatabases) ||
						(op.Level == model.LevelDBI && src.Field == model.DBIEntries) ||
						(op.Level == model.LevelSnapshot && src.Field == model.SnapMeta)
					if !repeated {
						dup := src
						switch dup.WT {
						case model.WTVarint:
							dup.Varint = src.Varint + 1 + uint64(op.J)
							if op.Level == model.LevelSnapshot || (op.Level == model.LevelKV && src.Field == model.KVFlags) {
								// uint32 fields: a conforming encoder never emits more than 32 bits
								dup.Varint &= 0xffffffff
							}
						case model.WTBytes:
							dup.Bytes = append(append([]byte{}, src.Bytes...), 'x')
							dup.IsSub = false
						default:
							dup.Fixed = append([]byte{}, src.Fixed...)
							dup.Fixed[0] ^= 0x5a
						}
						items = append(items[:i:i], append([]model.Item{dup}, items[i:]...)...)
					}
				}
			}
			*m = items
		}
	}
}

func genSnapSmall(t *rapid.T) model.Snap {
	s := genSnap(t, false)
	// forward-compat cases need no big payloads: keep entry counts modest
	for i := range s.DBIs {
		if len(s.DBIs[i].Entries) > 12 {
			s.DBIs[i].Entries = s.DBIs[i].Entries[:12]
		}
	}
	return s
}

func checkC07Compat(c C07Compat, o *vcore.Obs) error {
	pb0, err := c.Snap.ToGogo().Marshal()
	if err != nil {
		return fmt.Errorf("harness: reference marshal: %v", err)
	}
	tree, err := model.ParseSnapshotTree(pb0)
	if err != nil {
		return fmt.Errorf("harness: wire parse of reference bytes: %v", err)
	}
	applyReOps(&tree, c.Ops)
	pb := model.EncodeMsg(tree)
	var g gogosnapshot.Snapshot
	if err := g.Unmarshal(pb); err != nil {
		// the re-encoding is not accepted by the reference implementation: outside the domain
		o.Class("reference-rejects")
		return nil
	}
	want := model.FlatFromGogo(&g)
	// "describes LMDB content": keys are non-empty (an entry without a key cannot exist in LMDB)
	for _, d := range want.DBIs {
		for _, e := range d.Entries {
			if len(e.Key) == 0 {
				o.Class("not-lmdb-content")
				return nil
			}
		}
	}
	var cs snapshot.Snapshot
	if err := cs.Unmarshal(pb); err != nil {
		return fmt.Errorf("custom Unmarshal rejects a message the reference codec accepts: %v", err)
	}
	got, err := vsnap.FromCustom(&cs, 0)
	if err != nil {
		return fmt.Errorf("custom iteration fails on a message the reference codec accepts: %v", err)
	}
	if d := want.Diff(got); d != "" {
		return fmt.Errorf("custom decoder disagrees with the reference codec: %s", d)
	}
	nt := false
	o.ClassIf(c.Redirected > 0, "field-number-redirected")
	for i := 0; i < c.Redirected; i++ {
		o.Excluded("csproto-tag-limit")
	}
	for _, op := range c.Ops {
		o.Class("op-" + op.Kind + fmt.Sprintf("-L%d", op.Level))
		if op.Kind == "unknown" {
			o.Class(fmt.Sprintf("unknown-wt%d", op.WT))
		}
		nt = true
	}
	entries := 0
	for _, d := range c.Snap.DBIs {
		entries += len(d.Entries)
	}
	o.NonTrivial(nt && entries > 0)
	return nil
}

func TestC07ForwardCompat(t *testing.T) {
	vcore.Run(t, vcore.Config{Property: "C07",
		Rule: "rapid model snapshot -> reference Marshal -> generated re-encoding ops (swap/rotate/reverse fields, inject unknown fields of wire types 0/1/2/5, repeat scalar fields) at the snapshot/meta/DBI/KV level -> custom decoder must equal reference decoder; " +
			"non-trivial = >=1 re-encoding op and >=1 entry"},
		func(t *rapid.T) C07Compat {
			c := C07Compat{Snap: genSnapSmall(t), Ops: rapid.SliceOfN(rapid.Custom(genReOp), 0, 6).Draw(t, "ops")}
			for i := range c.Ops {
				op := &c.Ops[i]
				if op.Kind == "unknown" && op.Level <= model.LevelMeta && op.Field > csprotoTagLimit {
					op.Field = csprotoTagLimit - (op.Field % 1000) // redirected: excluded by known finding
					c.Redirected++
				}
			}
			return c
		}, checkC07Compat)
}

// Known finding: unknown field numbers >= 2^26 at the snapshot / meta level are rejected.
func TestKnownC07(t *testing.T) {
	c := C07Compat{Snap: model.Snap{FormatVersion: 3},
		Ops: []ReOp{{Level: 0, Msg: 0, Kind: "unknown", Field: 1<<29 - 1, WT: model.WTVarint}}}
	vcore.Known(t, "C07", "csproto-tag-limit", c, checkC07Compat)
}

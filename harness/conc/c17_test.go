package conc

import (
	"bytes"
	"compress/gzip"
	"context"
	"fmt"
	"runtime"
	"strings"
	"sync"
	"sync/atomic"
	"testing"
	"time"

	"github.com/PowerDNS/lightningstream/snapshot/storage"
	"github.com/PowerDNS/lightningstream/utils/climit"
	"github.com/PowerDNS/lightningstream/utils/topics"
	"github.com/PowerDNS/simpleblob/backends/memory"
	"pgregory.net/rapid"

	"verif/harness/internal/vcore"
)

// ---------------------------------------------------------------------------
// C17 Concurrent components neither race nor deadlock (built with -race)
// ---------------------------------------------------------------------------

// stuck inspects the goroutine dump twice, one second apart, and returns the
// stacks of goroutines that are blocked inside repository code (matching
// substr) both times: a structural confirmation that nothing can progress.
func stuck(substr string) string {
	grab := func() map[string]string {
		buf := make([]byte, 8<<20)
		n := runtime.Stack(buf, true)
		out := map[string]string{}
		for _, g := range strings.Split(string(buf[:n]), "\n\n") {
			if !strings.Contains(g, substr) {
				continue
			}
			hdr := strings.SplitN(g, "\n", 2)[0]
			if strings.Contains(hdr, "running") || strings.Contains(hdr, "runnable") {
				continue
			}
			id := strings.Fields(hdr)[1]
			lines := strings.Split(g, "\n")
			if len(lines) > 11 {
				lines = lines[:11]
			}
			out[id] = strings.Join(lines, "\n")
		}
		return out
	}
	a := grab()
	time.Sleep(time.Second)
	b := grab()
	var res []string
	for id, st := range a {
		if _, ok := b[id]; ok {
			res = append(res, st)
		}
	}
	return strings.Join(res, "\n--\n")
}

func waitAll(wg *sync.WaitGroup, d time.Duration) bool {
	done := make(chan struct{})
	go func() { wg.Wait(); close(done) }()
	return waitChan(done, d)
}

// heartbeat: one tick per millisecond of CPU time this process gets. A bound that is exceeded while the heartbeat itself
// (nearly) stood still - overloaded machine, world stopped - says nothing about the code under test: the wait starts
// over (the driver's own time limit ends a process that never comes back: inconclusive, not a violation).
var beats atomic.Int64

func init() {
	go func() {
		for {
			time.Sleep(time.Millisecond)
			beats.Add(1)
		}
	}()
}

// waitChan waits for ch to be closed, for at most d of time in which this process was actually running.
func waitChan(ch <-chan struct{}, d time.Duration) bool {
	for attempt := 0; attempt < 60; attempt++ {
		b0, t0 := beats.Load(), time.Now()
		select {
		case <-ch:
			return true
		case <-time.After(d):
		}
		if float64(beats.Load()-b0) >= 0.6*float64(time.Since(t0)/time.Millisecond)/1.2 {
			return false
		}
	}
	return false
}

// ---- (a) topics -------------------------------------------------------------------

type SubScript struct {
	Kind    string `json:"kind"` // recv-close | close-now | handle-fail | sendlast | close-twice | close-elsewhere
	K       int    `json:"k"`    // messages to take before closing / failing
	PauseUs int    `json:"pause_us,omitempty"`
}

type TopicsCase struct {
	Subs       []SubScript `json:"subs"`
	Publishers int         `json:"publishers"`
	Msgs       int         `json:"msgs"`
	PubPauseUs int         `json:"pub_pause_us,omitempty"`
	Initial    bool        `json:"initial,omitempty"`
}

func checkTopics(c TopicsCase, o *vcore.Obs) error {
	var tp *topics.Topic[int]
	if c.Initial {
		tp = topics.NewWithInitial[int](-1)
	} else {
		tp = topics.New[int]()
	}
	ctx, cancel := context.WithCancel(context.Background())
	defer cancel()
	var wg sync.WaitGroup
	var errs sync.Map
	fail := func(f string, a ...any) { errs.Store(fmt.Sprintf(f, a...), true) }
	var closing atomic.Int32 // subscribers currently inside Close
	var overlap atomic.Bool  // a Close overlapped an outstanding Publish
	var publishing atomic.Int32
	var churned atomic.Int32 // subscriptions opened and closed while publishers were at work

	checkOrder := func(name string, got []int) {
		// per publisher the sequence numbers arrive in publish order
		last := map[int]int{}
		for _, v := range got {
			if v < 0 {
				continue
			}
			p, s := v/100000, v%100000
			if prev, ok := last[p]; ok && s <= prev {
				fail("%s: publisher %d message %d delivered after %d (order not preserved)", name, p, s, prev)
			}
			last[p] = s
		}
	}
	for si, sc := range c.Subs {
		si, sc := si, sc
		name := fmt.Sprintf("sub%d(%s)", si, sc.Kind)
		switch sc.Kind {
		case "handle-fail":
			wg.Add(1)
			go func() {
				defer wg.Done()
				n := 0
				var got []int
				err := tp.Handle(ctx, func(v int) error {
					got = append(got, v)
					n++
					if n > sc.K {
						return fmt.Errorf("callback fails")
					}
					return nil
				})
				if err == nil {
					fail("%s: Handle returned nil", name)
				}
				checkOrder(name, got)
			}()
		case "churn", "churn-sendlast":
			// subscribes WHILE the publishers are at work, takes what is there, closes, and does it again
			wg.Add(1)
			go func() {
				defer wg.Done()
				for round := 0; round <= sc.K*4 && ctx.Err() == nil; round++ {
					sub := tp.Subscribe(sc.Kind == "churn-sendlast")
					tctx, tcancel := context.WithTimeout(ctx, 200*time.Microsecond)
					_, _ = sub.Next(tctx)
					tcancel()
					if sc.PauseUs > 0 {
						time.Sleep(time.Duration(sc.PauseUs) * time.Microsecond / 10)
					}
					sub.Close()
					churned.Add(1)
				}
			}()
		default:
			sub := tp.Subscribe(sc.Kind == "sendlast")
			wg.Add(1)
			go func() {
				defer wg.Done()
				var got []int
				for n := 0; n < sc.K; n++ {
					v, err := sub.Next(ctx)
					if err != nil {
						break
					}
					got = append(got, v)
				}
				if sc.PauseUs > 0 {
					time.Sleep(time.Duration(sc.PauseUs) * time.Microsecond)
				}
				doClose := func() {
					closing.Add(1)
					if publishing.Load() > 0 {
						overlap.Store(true)
					}
					sub.Close()
					closing.Add(-1)
				}
				switch sc.Kind {
				case "close-elsewhere":
					d := make(chan struct{})
					go func() { doClose(); close(d) }()
					<-d
				case "close-twice":
					doClose()
					doClose()
				default:
					doClose()
				}
				// after Close nothing more may arrive and Next must not hang when the context ends
				if _, err := sub.Next(ctxDone()); err == nil {
					fail("%s: received a value after Close", name)
				}
				checkOrder(name, got)
			}()
		}
	}
	var pubWG sync.WaitGroup
	for p := 0; p < c.Publishers; p++ {
		p := p
		pubWG.Add(1)
		wg.Add(1)
		go func() {
			defer pubWG.Done()
			defer wg.Done()
			for m := 0; m < c.Msgs; m++ {
				publishing.Add(1)
				tp.Publish(p*100000 + m)
				publishing.Add(-1)
				if c.PubPauseUs > 0 {
					time.Sleep(time.Duration(c.PubPauseUs) * time.Microsecond)
				}
			}
		}()
	}
	// somebody polls Last() while publishing goes on
	wg.Add(1)
	go func() {
		defer wg.Done()
		for ctx.Err() == nil {
			tp.Last()
			runtime.Gosched()
		}
	}()
	// when all publishers are done, release subscribers still waiting for messages
	go func() { pubWG.Wait(); cancel() }()
	if !waitAll(&wg, 5*time.Second) {
		if st := stuck("lightningstream/utils/topics"); st != "" {
			return fmt.Errorf("topic wedged: goroutines blocked inside the topics package for good:\n%s", st)
		}
		return fmt.Errorf("topics scenario did not finish within 5 s (no goroutine found blocked inside the topics package)")
	}
	var first string
	errs.Range(func(k, _ any) bool { first = k.(string); return false })
	if first != "" {
		return fmt.Errorf("%s", first)
	}
	if v, ok := tp.Last(); c.Publishers > 0 && c.Msgs > 0 && (!ok || v < 0) {
		return fmt.Errorf("Last() = %v,%v after publishing", v, ok)
	}
	o.NonTrivial(overlap.Load())
	o.ClassIf(overlap.Load(), "close-while-publish-outstanding")
	o.ClassIf(churned.Load() > 0, "subscribed-while-publishing")
	for _, s := range c.Subs {
		o.Class("sub-" + s.Kind)
	}
	return nil
}

func ctxDone() context.Context {
	c, cancel := context.WithCancel(context.Background())
	cancel()
	return c
}

func TestC17Topics(t *testing.T) {
	vcore.Run(t, vcore.Config{Property: "C17", Inflight: true,
		Rule: "generated topic scenarios run with real goroutines under the race detector: 1-4 subscribers with scripts {receive k then close, close immediately, Handle whose callback fails after k, subscribe(sendLast), close twice, close from another goroutine, subscribe(with and without sendLast)/take/close over and over while the publishers are at work} with generated pauses, 1-2 publishers x 1-30 messages; every operation must return (wedges are confirmed from two goroutine dumps 1 s apart), per-publisher order preserved, nothing delivered after Close; non-trivial = a Close overlapped an outstanding Publish"},
		func(t *rapid.T) TopicsCase {
			var c TopicsCase
			ns := rapid.IntRange(1, 4).Draw(t, "nsubs")
			for i := 0; i < ns; i++ {
				c.Subs = append(c.Subs, SubScript{
					Kind:    rapid.SampledFrom([]string{"recv-close", "recv-close", "close-now", "handle-fail", "sendlast", "close-twice", "close-elsewhere", "churn", "churn-sendlast", "churn-sendlast"}).Draw(t, "kind"),
					K:       rapid.IntRange(0, 6).Draw(t, "k"),
					PauseUs: rapid.SampledFrom([]int{0, 0, 50, 500}).Draw(t, "pause"),
				})
				if c.Subs[i].Kind == "close-now" {
					c.Subs[i].K = 0
				}
			}
			c.Publishers = rapid.IntRange(1, 2).Draw(t, "pubs")
			c.Msgs = rapid.IntRange(1, 30).Draw(t, "msgs")
			c.PubPauseUs = rapid.SampledFrom([]int{0, 0, 20, 200}).Draw(t, "ppause")
			c.Initial = rapid.Bool().Draw(t, "initial")
			return c
		}, checkTopics)
}

// ---- (b) concurrency limits ---------------------------------------------------------

type ClimitCase struct {
	Limit     int   `json:"limit"`
	Workers   int   `json:"workers"`
	Rounds    int   `json:"rounds"`
	Releases  []int `json:"releases"`  // per acquisition (cyclic): how many times Release is called (>= 1)
	Elsewhere bool  `json:"elsewhere"` // extra releases come from other goroutines
}

var climitSeq atomic.Int64

func checkClimit(c ClimitCase, o *vcore.Obs) error {
	cl := climit.New(fmt.Sprintf("cdb%d", climitSeq.Add(1)%8), "t", c.Limit, nil)
	var held atomic.Int32
	var maxHeld atomic.Int32
	var wg sync.WaitGroup
	var bad atomic.Value
	for w := 0; w < c.Workers; w++ {
		w := w
		wg.Add(1)
		go func() {
			defer wg.Done()
			defer func() {
				if r := recover(); r != nil {
					bad.Store(fmt.Sprintf("panic: %v", r))
				}
			}()
			for r := 0; r < c.Rounds; r++ {
				tok := cl.Acquire()
				h := held.Add(1)
				for {
					m := maxHeld.Load()
					if h <= m || maxHeld.CompareAndSwap(m, h) {
						break
					}
				}
				if int(h) > c.Limit {
					bad.Store(fmt.Sprintf("%d tokens held at once, limit %d", h, c.Limit))
				}
				runtime.Gosched()
				held.Add(-1)
				n := c.Releases[(w*c.Rounds+r)%len(c.Releases)]
				var rw sync.WaitGroup
				for k := 0; k < n; k++ {
					if c.Elsewhere {
						rw.Add(1)
						go func() { defer rw.Done(); tok.Release() }()
					} else {
						tok.Release()
					}
				}
				rw.Wait()
			}
		}()
	}
	if !waitAll(&wg, 5*time.Second) {
		return fmt.Errorf("concurrency limit wedged: workers did not finish within 5 s\n%s", stuck("lightningstream/utils/climit"))
	}
	if v := bad.Load(); v != nil {
		return fmt.Errorf("%v", v)
	}
	// all tokens are back: limit acquisitions succeed at once, one more would block
	var toks []*climit.Token
	got := make(chan *climit.Token, c.Limit+1)
	for i := 0; i < c.Limit+1; i++ {
		go func() { got <- cl.Acquire() }()
	}
	deadline := time.After(2 * time.Second)
	for len(toks) < c.Limit {
		select {
		case tk := <-got:
			toks = append(toks, tk)
		case <-deadline:
			return fmt.Errorf("only %d of %d tokens can be acquired after all were released (token lost)", len(toks), c.Limit)
		}
	}
	select {
	case tk := <-got:
		toks = append(toks, tk)
		return fmt.Errorf("%d tokens acquired with limit %d after multiple releases (pool over-filled)", len(toks), c.Limit)
	case <-time.After(20 * time.Millisecond):
	}
	for _, tk := range toks {
		tk.Release()
	}
	(<-got).Release()
	multi := false
	for _, n := range c.Releases {
		if n > 1 {
			multi = true
		}
	}
	o.NonTrivial(multi && c.Workers > c.Limit)
	return nil
}

func TestC17Climit(t *testing.T) {
	vcore.Run(t, vcore.Config{Property: "C17", Inflight: true,
		Rule: "limits 1-3, 1-6 workers x 1-8 acquisitions, every token released 1-3 times, extra releases optionally from other goroutines, under the race detector: never more tokens held than the limit, no panic, afterwards exactly 'limit' tokens can be acquired; non-trivial = some token released more than once and more workers than tokens"},
		func(t *rapid.T) ClimitCase {
			return ClimitCase{Limit: rapid.IntRange(1, 3).Draw(t, "limit"), Workers: rapid.IntRange(1, 6).Draw(t, "workers"), Rounds: rapid.IntRange(1, 8).Draw(t, "rounds"),
				Releases: rapid.SliceOfN(rapid.IntRange(1, 3), 1, 6).Draw(t, "releases"), Elsewhere: rapid.Bool().Draw(t, "elsewhere")}
		}, checkClimit)
}

// ---- (c) global storage handle ----------------------------------------------------------

type StorageCase struct {
	GettersBefore int `json:"getters_before"`
	Setters       int `json:"setters"`
	GettersAfter  int `json:"getters_after"`
	DelayUs       int `json:"delay_us"`
}

func checkStorage(c StorageCase, o *vcore.Obs) error {
	storage.VerifResetGlobal()
	defer storage.VerifResetGlobal()
	st := memory.New()
	var wg sync.WaitGroup
	var bad atomic.Value
	get := func(tag string) {
		defer wg.Done()
		defer func() {
			if r := recover(); r != nil {
				bad.Store(fmt.Sprintf("%s: GetGlobal panicked: %v", tag, r))
			}
		}()
		if got := storage.GetGlobal(); got == nil {
			bad.Store(tag + ": GetGlobal returned nil")
		}
	}
	for i := 0; i < c.GettersBefore; i++ {
		wg.Add(1)
		go get("getter started before SetGlobal")
	}
	if c.GettersBefore > 0 {
		time.Sleep(time.Duration(c.DelayUs) * time.Microsecond)
		if storage.IsReady() {
			return fmt.Errorf("IsReady() true before SetGlobal")
		}
	}
	for i := 0; i < c.Setters; i++ {
		wg.Add(1)
		go func() { defer wg.Done(); storage.SetGlobal(st) }()
	}
	for i := 0; i < c.GettersAfter; i++ {
		wg.Add(1)
		go get("getter concurrent with / after SetGlobal")
	}
	if !waitAll(&wg, 5*time.Second) {
		return fmt.Errorf("global storage accessors wedged:\n%s", stuck("lightningstream/snapshot/storage"))
	}
	if v := bad.Load(); v != nil {
		return fmt.Errorf("%v", v)
	}
	if !storage.IsReady() {
		return fmt.Errorf("IsReady() false after SetGlobal")
	}
	o.NonTrivial(c.GettersBefore >= 2)
	return nil
}

func TestC17Storage(t *testing.T) {
	vcore.Run(t, vcore.Config{Property: "C17", Inflight: true,
		Rule: "0-4 GetGlobal callers started before the first SetGlobal (with a generated head start), 1-3 concurrent SetGlobal calls, 0-3 later getters, under the race detector, VerifResetGlobal between cases: every getter returns the handle, nobody panics or wedges; non-trivial = >=2 getters before the first setter"},
		func(t *rapid.T) StorageCase {
			return StorageCase{GettersBefore: rapid.IntRange(0, 4).Draw(t, "before"), Setters: rapid.IntRange(1, 3).Draw(t, "setters"),
				GettersAfter: rapid.IntRange(0, 3).Draw(t, "after"), DelayUs: rapid.SampledFrom([]int{0, 100, 2000}).Draw(t, "delay")}
		}, checkStorage)
}

func gz(b []byte) []byte {
	var buf bytes.Buffer
	w := gzip.NewWriter(&buf)
	_, _ = w.Write(b)
	_ = w.Close()
	return buf.Bytes()
}

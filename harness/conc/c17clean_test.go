package conc

import (
	"context"
	"fmt"
	"sync"
	"sync/atomic"
	"testing"
	"time"

	"github.com/PowerDNS/lightningstream/config"
	"github.com/PowerDNS/lightningstream/snapshot"
	"github.com/PowerDNS/lightningstream/syncer/cleaner"
	"github.com/sirupsen/logrus"
	"pgregory.net/rapid"

	"verif/harness/internal/fault"
	"verif/harness/internal/vcore"
)

// ---- (e) the snapshot cleaner next to the sync loop's notifications, with failing storage calls ----
//
// The cleaner runs in its own goroutine; the sync loop tells it after every upload what has been merged
// (SetCommitted) and would block for ever if the cleaner kept its lock. Stale instances whose newest snapshot is
// "merged and re-published" are deleted - or not, when the Delete fails; whatever path a run takes, the next
// notification and the next run must get through, and cancellation ends Run.

type CleanCase struct {
	Stale      int      `json:"stale"`       // instances that have been silent for a month
	PerInst    int      `json:"per_inst"`    // snapshots per instance
	DeletePlan []string `json:"delete_plan"` // outcomes of the first Delete calls
	ListPlan   []string `json:"list_plan"`
	Committers int      `json:"committers"`
	RunMs      int      `json:"run_ms"`
}

var cleanSeq atomic.Int64

func checkCleanerConc(c CleanCase, o *vcore.Obs) error {
	b := fault.NewBucket()
	h := b.Handle("x")
	db := fmt.Sprintf("kdb%d", cleanSeq.Add(1)%4)
	old := time.Now().Add(-30 * 24 * time.Hour)
	newest := map[string]time.Time{}
	for i := 0; i < c.Stale; i++ {
		inst := fmt.Sprintf("dead%d", i)
		for k := 0; k < c.PerInst; k++ {
			ts := old.Add(time.Duration(k) * time.Second)
			b.Put(snapshot.Name(db, inst, "GX", ts), []byte("x"))
			newest[inst] = ts
		}
	}
	h.SetPlan("delete", c.DeletePlan)
	h.SetPlan("list", c.ListPlan)
	conf := config.Cleanup{Enabled: true, Interval: time.Millisecond, MustKeepInterval: time.Millisecond, RemoveOldInstancesInterval: time.Hour}
	w := cleaner.New(db, h, conf, logrus.StandardLogger())
	ctx, cancel := context.WithCancel(context.Background())
	defer cancel()
	runDone := make(chan struct{})
	go func() { _ = w.Run(ctx); close(runDone) }()
	var wg sync.WaitGroup
	var stop atomic.Bool
	var slowest atomic.Int64
	for g := 0; g < c.Committers; g++ {
		wg.Add(1)
		go func() {
			defer wg.Done()
			for !stop.Load() {
				t0 := time.Now()
				w.SetCommitted(newest) // (what SendOnce does after every upload)
				_ = w.GetCommitted("dead0")
				if d := time.Since(t0); int64(d) > slowest.Load() {
					slowest.Store(int64(d))
				}
				time.Sleep(200 * time.Microsecond)
			}
		}()
	}
	time.Sleep(time.Duration(c.RunMs) * time.Millisecond)
	stop.Store(true)
	if !waitAll(&wg, 5*time.Second) {
		return fmt.Errorf("the sync loop's notification to the cleaner (SetCommitted) did not return within 5 s - the cleaner keeps its lock:\n%s", stuck("lightningstream/"))
	}
	cancel()
	if !waitChan(runDone, 5*time.Second) {
		return fmt.Errorf("the cleaner's Run did not return within 5 s of cancellation:\n%s", stuck("lightningstream/"))
	}
	nFailed := 0
	for _, op := range b.Log() {
		if op.Kind == "delete" && !op.Applied {
			nFailed++
		}
	}
	o.NonTrivial(nFailed > 0 && c.Stale > 0)
	o.ClassIf(nFailed > 0, "delete-failed-during-a-run")
	o.Class(fmt.Sprintf("stale-instances-%d", c.Stale))
	return nil
}

func TestC17Cleaner(t *testing.T) {
	vcore.Run(t, vcore.Config{Property: "C17", Inflight: true,
		Rule: "the real cleaner.Worker.Run (1 ms interval) over a bucket with 0-3 month-old instances (1-3 snapshots each, all reported merged-and-republished) while 1-3 goroutines notify it like the sync loop does (SetCommitted / GetCommitted every 0.2 ms); Delete / List outcomes from a generated plan (ok, fail, applied-but-error); under the race detector; every notification returns, Run ends within 5 s of cancellation; non-trivial = a Delete failed while stale instances existed"},
		func(t *rapid.T) CleanCase {
			c := CleanCase{Stale: rapid.IntRange(0, 3).Draw(t, "stale"), PerInst: rapid.IntRange(1, 3).Draw(t, "per"),
				Committers: rapid.IntRange(1, 3).Draw(t, "committers"), RunMs: rapid.SampledFrom([]int{5, 15, 30}).Draw(t, "run_ms")}
			for i := rapid.IntRange(0, 6).Draw(t, "ndel"); i > 0; i-- {
				c.DeletePlan = append(c.DeletePlan, rapid.SampledFrom([]string{fault.Fail, fault.Fail, fault.OK, fault.AppliedError}).Draw(t, "del"))
			}
			for i := rapid.IntRange(0, 3).Draw(t, "nlist"); i > 0; i-- {
				c.ListPlan = append(c.ListPlan, rapid.SampledFrom([]string{fault.Fail, fault.OK}).Draw(t, "list"))
			}
			return c
		}, checkCleanerConc)
}

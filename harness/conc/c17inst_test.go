package conc

import (
	"context"
	"fmt"
	"sync"
	"sync/atomic"
	"testing"
	"time"

	"github.com/PowerDNS/lightningstream/config"
	"github.com/PowerDNS/lightningstream/snapshot"
	"github.com/PowerDNS/lightningstream/syncer"
	"github.com/PowerDNS/lightningstream/syncer/events"
	"github.com/PowerDNS/lmdb-go/lmdb"
	"pgregory.net/rapid"

	"verif/harness/internal/fault"
	"verif/harness/internal/lm"
	"verif/harness/internal/model"
	"verif/harness/internal/vcore"
)

// ---- (d) a whole instance with everything running concurrently ---------------------

type InstCase struct {
	Native        bool `json:"native"`
	CancelAfterUs int  `json:"cancel_after_us"`
	Writes        int  `json:"writes"`
	PeerBlobs     int  `json:"peer_blobs"`
	SubCloseAt    int  `json:"sub_close_at"` // the Next()-subscriber closes after this many events (0 = immediately)
	HandleFailAt  int  `json:"handle_fail_at"`
	Limit         int  `json:"limit"`
	Corrupt       bool `json:"corrupt"`
	Faults        bool `json:"faults"`
	// Peers: that many other instances publish PeerBlobs snapshots each, interleaved (several downloaders
	// compete for the memory limits while newer snapshots supersede the ones not yet merged)
	Peers int `json:"peers,omitempty"`
	// StuckAtStart: a snapshot of another instance is in the bucket before the instance starts, and its download
	// fails every time: the instance is still in its start-up phase (waiting for that snapshot) when it is cancelled
	StuckAtStart bool `json:"stuck_at_start,omitempty"`
}

var instSeq atomic.Int64

func checkInstance(c InstCase, o *vcore.Obs) error {
	env := lm.New(64<<20, 24)
	// Sync returns as soon as its own loop ends; the sweeper/cleaner/downloader goroutines it started
	// wind down on their own a little later. Closing the LMDB under them would crash the process in C
	// code (the repository's own tests note the same), so give them time.
	defer func() { time.Sleep(50 * time.Millisecond); env.Close() }()
	b := fault.NewBucket()
	conf := config.Config{
		Instance: "x", LMDBPollInterval: time.Millisecond, StoragePollInterval: time.Millisecond, StorageRetryInterval: time.Millisecond,
		StorageRetryCount: 3, MemoryDownloadedSnapshots: c.Limit, MemoryDecompressedSnapshots: c.Limit, LMDBs: map[string]config.LMDB{},
		Sweeper: config.Sweeper{Enabled: true, RetentionDays: 1, Interval: time.Millisecond, FirstInterval: time.Millisecond, LockDuration: time.Millisecond, ReleaseDuration: time.Millisecond},
		Storage: config.Storage{Cleanup: config.Cleanup{Enabled: true, Interval: time.Millisecond, MustKeepInterval: time.Millisecond, RemoveOldInstancesInterval: time.Nanosecond}},
	}
	h := b.Handle("x")
	if c.Faults {
		h.SetPlan("list", []string{fault.Fail, fault.OK, fault.Fail})
		// (a streak of failing downloads, hitting the downloaders of several peers at the same time)
		h.SetPlan("load", []string{fault.Fail, fault.NotExist, fault.Fail, fault.Fail, fault.OK, fault.Fail, fault.Fail, fault.Fail, fault.OK, fault.Fail})
		h.SetPlan("store", []string{fault.Fail, fault.AppliedError})
		h.SetPlan("delete", []string{fault.Fail})
	}
	ev := events.New()
	dbname := fmt.Sprintf("cdb%d", instSeq.Add(1)%4)
	if c.StuckAtStart {
		m := model.Snap{FormatVersion: 3, CompatVersion: 1, Meta: model.Meta{InstanceID: "stuck", DatabaseName: dbname},
			DBIs: []model.DBI{{Name: "data", Entries: []model.KV{{Key: []byte("s"), Val: model.ValOf([]byte("sv")), TS: 5}}}}}
		pb, _ := m.ToGogo().Marshal()
		b.Put(snapshot.Name(dbname, "stuck", "GX", time.Now().Add(-time.Hour)), gz(pb))
		fails := make([]string, 100000)
		for i := range fails {
			fails[i] = fault.Fail
		}
		h.SetPlanFor("load", "__stuck__", fails)
	}
	s, err := syncer.New(dbname, env.Env, h, conf, config.LMDB{SchemaTracksChanges: c.Native}, syncer.Options{Events: ev})
	if err != nil {
		return err
	}
	ctx, cancel := context.WithCancel(context.Background())
	defer cancel()
	var wg sync.WaitGroup
	var syncErr atomic.Value
	syncDone := make(chan struct{})
	go func() {
		if err := s.Sync(ctx); err != nil && err != context.Canceled {
			syncErr.Store(err.Error())
		}
		close(syncDone)
	}()
	// event subscribers: one Handle with a failing callback, one Next() loop that closes mid-stream
	subCtx, subCancel := context.WithCancel(context.Background())
	defer subCancel()
	wg.Add(2)
	go func() {
		defer wg.Done()
		n := 0
		_ = ev.UpdateLoaded.Handle(subCtx, func(events.UpdateInfo) error {
			n++
			if n > c.HandleFailAt {
				return fmt.Errorf("stop")
			}
			return nil
		})
	}()
	go func() {
		defer wg.Done()
		sub := ev.UpdateStored.Subscribe(false)
		for n := 0; n < c.SubCloseAt; n++ {
			if _, err := sub.Next(subCtx); err != nil {
				break
			}
		}
		sub.Close()
	}()
	// a subscriber that follows TWO topics: when a listing shows a peer snapshot that has not been loaded yet, it waits
	// for that load before it looks at the next listing (meanwhile it does not receive on the listing topic: the
	// receiver's poll goroutine waits for it - by design - but the sync loop must get on and load the snapshot)
	if !c.Corrupt && !c.Faults && !c.StuckAtStart {
		var lmu sync.Mutex
		loaded := map[string]time.Time{}
		wg.Add(2)
		go func() {
			defer wg.Done()
			sub := ev.UpdateLoaded.Subscribe(false)
			defer sub.Close()
			for {
				u, err := sub.Next(subCtx)
				if err != nil {
					return
				}
				lmu.Lock()
				if u.NameInfo.Timestamp.After(loaded[u.NameInfo.InstanceID]) {
					loaded[u.NameInfo.InstanceID] = u.NameInfo.Timestamp
				}
				lmu.Unlock()
			}
		}()
		go func() {
			defer wg.Done()
			sub := ev.LastSeenSnapshotByInstance.Subscribe(false)
			defer sub.Close()
			for {
				m, err := sub.Next(subCtx)
				if err != nil {
					return
				}
				for inst, ni := range m {
					if inst == "x" {
						continue
					}
					for subCtx.Err() == nil {
						lmu.Lock()
						ok := !loaded[inst].Before(ni.Timestamp)
						lmu.Unlock()
						if ok {
							break
						}
						time.Sleep(200 * time.Microsecond)
					}
				}
			}
		}()
		o.Class("subscriber-that-waits-for-the-load-of-what-a-listing-announced")
	}
	// the application
	var stopWriters atomic.Bool
	wg.Add(1)
	go func() {
		defer wg.Done()
		for i := 0; i < c.Writes && !stopWriters.Load(); i++ {
			_ = env.Update(func(txn *lmdb.Txn) error {
				dbi, err := txn.OpenDBI("data", lmdb.Create)
				if err != nil {
					return err
				}
				key := []byte(fmt.Sprintf("k%d", i%5))
				if c.Native {
					fl, val := byte(0), []byte(fmt.Sprint(i))
					if i%3 == 2 {
						fl, val = 1, nil
					}
					return txn.Put(dbi, key, model.BuildHeader(uint64(time.Now().UnixNano()), uint64(txn.ID()), fl, nil, val), 0)
				}
				if i%3 == 2 {
					err := txn.Del(dbi, key, nil)
					if lmdb.IsNotFound(err) {
						return nil
					}
					return err
				}
				return txn.Put(dbi, key, []byte(fmt.Sprint(i)), 0)
			})
			time.Sleep(200 * time.Microsecond)
		}
	}()
	// a peer
	wg.Add(1)
	go func() {
		defer wg.Done()
		peers := c.Peers
		if peers < 1 {
			peers = 1
		}
		for i := 0; i < c.PeerBlobs && !stopWriters.Load(); i++ {
			for p := 0; p < peers; p++ {
				inst := "peer"
				if p > 0 {
					inst = fmt.Sprintf("peer%d", p)
				}
				name := snapshot.Name(dbname, inst, "GX", time.Now())
				if c.Corrupt && (i+p)%3 == 1 {
					b.Put(name, []byte("garbage"))
				} else {
					m := model.Snap{FormatVersion: 3, CompatVersion: 1, Meta: model.Meta{InstanceID: inst, DatabaseName: dbname},
						DBIs: []model.DBI{{Name: "data", Entries: []model.KV{{Key: []byte(fmt.Sprintf("p%d", i%4)), Val: model.ValOf([]byte("pv")), TS: uint64(time.Now().UnixNano())}}}}}
					pb, _ := m.ToGogo().Marshal()
					b.Put(name, gz(pb))
				}
			}
			time.Sleep(300 * time.Microsecond)
		}
	}()
	time.Sleep(time.Duration(c.CancelAfterUs) * time.Microsecond)
	midFlight := b.LogLen()
	cancel()
	if !waitChan(syncDone, 5*time.Second) {
		return fmt.Errorf("Sync did not return within 5 s of cancellation:\n%s", stuck("lightningstream/"))
	}
	stopWriters.Store(true)
	subCancel()
	if !waitAll(&wg, 5*time.Second) {
		return fmt.Errorf("event subscribers / writers did not finish after cancellation:\n%s", stuck("lightningstream/"))
	}
	if v := syncErr.Load(); v != nil {
		return fmt.Errorf("Sync returned an unexpected error: %v", v)
	}
	o.NonTrivial(midFlight > 4)
	o.ClassIf(c.Native, "native")
	o.ClassIf(!c.Native, "shadow")
	o.ClassIf(c.Corrupt, "corrupt-peer-blobs")
	o.ClassIf(c.Faults, "storage-faults")
	o.ClassIf(c.Peers > 1, "several-peers")
	o.ClassIf(c.Peers > 1 && c.Limit == 1, "several-peers-limit-1")
	o.ClassIf(c.StuckAtStart, "cancelled-while-still-waiting-for-a-start-up-snapshot")
	return nil
}

func TestC17Instance(t *testing.T) {
	vcore.Run(t, vcore.Config{Property: "C17", Inflight: true,
		Rule: "one real instance under the race detector with everything running: Sync (1 ms intervals), snapshot cleaner enabled (1 ms), tomb sweeper enabled (1 ms), per-instance downloaders with memory limits 1-3 for 1-4 peers that publish interleaved (newer snapshots superseding ones not yet merged), two event subscribers (a Handle whose callback fails after k events, a Next() loop that closes after k events - possibly while an event is being delivered), an application writer, a peer publishing valid and undecodable blobs; cancellation after 0-30 ms; Sync must return within 5 s, all helpers finish, no race report; non-trivial = the bucket saw > 4 operations before cancellation"},
		func(t *rapid.T) InstCase {
			return InstCase{Native: rapid.Bool().Draw(t, "native"), CancelAfterUs: rapid.SampledFrom([]int{0, 200, 2000, 8000, 30000}).Draw(t, "cancel"),
				Writes: rapid.IntRange(0, 40).Draw(t, "writes"), PeerBlobs: rapid.IntRange(0, 12).Draw(t, "peer"),
				SubCloseAt: rapid.IntRange(0, 4).Draw(t, "subclose"), HandleFailAt: rapid.IntRange(0, 4).Draw(t, "handlefail"),
				Limit: rapid.IntRange(1, 3).Draw(t, "limit"), Corrupt: rapid.Bool().Draw(t, "corrupt"), Faults: rapid.Bool().Draw(t, "faults"),
				Peers: rapid.IntRange(1, 4).Draw(t, "peers"), StuckAtStart: rapid.IntRange(0, 3).Draw(t, "stuck") == 0}
		}, checkInstance)
}

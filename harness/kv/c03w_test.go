package kv

import (
	"context"
	"encoding/binary"
	"fmt"
	"sync"
	"sync/atomic"
	"testing"
	"time"

	"github.com/PowerDNS/lightningstream/config"
	"github.com/PowerDNS/lightningstream/lmdbenv/header"
	"github.com/PowerDNS/lmdb-go/lmdb"
	"pgregory.net/rapid"

	"verif/harness/internal/lm"
	"verif/harness/internal/model"
	"verif/harness/internal/vcore"
)

// ---------------------------------------------------------------------------
// C03 with a free-running application writer. The scheduler harness places
// application commits at the named yield points; this check lets a writer
// commit as fast as it can (it is queued on the LMDB write lock most of the
// time, so it gets in at EVERY point where Lightning Stream releases the
// lock - also at points that have no name) while LoadOnce / SendOnce steps run.
// The writer owns its keys (nobody else writes them): after every step, and at
// the end, each of them holds the last value the writer committed.
// ---------------------------------------------------------------------------

type C03Writer struct {
	Native bool     `json:"native"`
	Steps  []string `json:"steps"` // load | load-noop | send
	Keys   int      `json:"keys"`
}

func checkC03Writer(c C03Writer, o *vcore.Obs) error {
	env := lm.New(64<<20, 16)
	defer env.Close()
	s, _ := newShadowSyncer(env.Env, "a", config.LMDB{SchemaTracksChanges: c.Native})
	ctx := context.Background()
	put := func(txn *lmdb.Txn, dbi lmdb.DBI, key string, val []byte) error {
		if c.Native {
			ts := uint64(time.Now().UnixNano())
			if old, err := txn.Get(dbi, []byte(key)); err == nil {
				if h, err := model.ReadHeader(old); err == nil && h.TS >= ts {
					ts = h.TS + 1
				}
			}
			val = model.BuildHeader(ts, uint64(txn.ID()), 0, nil, val)
		}
		return txn.Put(dbi, []byte(key), val, 0)
	}
	err := env.Update(func(txn *lmdb.Txn) error {
		dbi, err := txn.OpenDBI("d", lmdb.Create)
		if err != nil {
			return err
		}
		for i := 0; i < c.Keys; i++ {
			if err := put(txn, dbi, fmt.Sprintf("w%d", i), make([]byte, 8)); err != nil {
				return err
			}
		}
		return put(txn, dbi, "other", []byte("x"))
	})
	if err != nil {
		return fmt.Errorf("harness: %v", err)
	}
	last, err := s.SendOnce(ctx, env.Env)
	if err != nil {
		return fmt.Errorf("initial SendOnce: %v", err)
	}
	// the writer
	var stop atomic.Bool
	var committed atomic.Uint64 // every key holds this counter after the commit that stored it
	var werr atomic.Value
	var wg sync.WaitGroup
	wg.Add(1)
	go func() {
		defer wg.Done()
		for n := uint64(1); !stop.Load(); n++ {
			val := make([]byte, 8)
			binary.BigEndian.PutUint64(val, n)
			err := env.Update(func(txn *lmdb.Txn) error {
				dbi, err := txn.OpenDBI("d", 0)
				if err != nil {
					return err
				}
				for i := 0; i < c.Keys; i++ {
					if err := put(txn, dbi, fmt.Sprintf("w%d", i), val); err != nil {
						return err
					}
				}
				return nil
			})
			if err != nil {
				werr.Store(err.Error())
				return
			}
			committed.Store(n)
		}
	}()
	readKeys := func() ([]uint64, error) {
		out := make([]uint64, c.Keys)
		err := env.View(func(txn *lmdb.Txn) error {
			dbi, err := txn.OpenDBI("d", 0)
			if err != nil {
				return err
			}
			for i := 0; i < c.Keys; i++ {
				v, err := txn.Get(dbi, []byte(fmt.Sprintf("w%d", i)))
				if err != nil {
					return fmt.Errorf("key w%d: %w", i, err)
				}
				if c.Native {
					h, err := model.ReadHeader(v)
					if err != nil {
						return err
					}
					v = h.AppVal
				}
				if len(v) != 8 {
					return fmt.Errorf("key w%d holds %q", i, v)
				}
				out[i] = binary.BigEndian.Uint64(v)
			}
			return nil
		})
		return out, err
	}
	seq := 0
	stepErr := func() error {
		for si, st := range c.Steps {
			floor := committed.Load() // committed before the step started: may never be undercut afterwards
			switch st {
			case "send":
				id, err := s.SendOnce(ctx, env.Env)
				if err != nil {
					return fmt.Errorf("step %d: SendOnce: %v", si, err)
				}
				last = id
			default:
				seq++
				snap := model.Snap{FormatVersion: 3, CompatVersion: 1, Meta: model.Meta{InstanceID: "peer", DatabaseName: "db", TimestampNano: uint64(seq)}}
				if st == "load" {
					snap.DBIs = []model.DBI{{Name: "d", Entries: []model.KV{{Key: []byte(fmt.Sprintf("p%d", seq)), Val: model.ValOf([]byte("peer")), TS: uint64(time.Now().Add(-time.Hour).UnixNano()) + uint64(seq)}}}}
				}
				id, lc, err := s.LoadOnce(ctx, env.Env, "peer", mkUpdate(snap, time.Unix(0, int64(seq))), last)
				if err != nil {
					return fmt.Errorf("step %d: LoadOnce: %v", si, err)
				}
				if !lc {
					last = id
				}
			}
			vals, err := readKeys()
			if err != nil {
				return fmt.Errorf("step %d (%s): %v", si, st, err)
			}
			for i, v := range vals {
				if v < floor {
					return fmt.Errorf("step %d (%s): key w%d went back to the value of the writer's commit %d although commit %d was already recorded before the step began: a committed application write was reverted", si, st, i, v, floor)
				}
			}
		}
		return nil
	}()
	stop.Store(true)
	wg.Wait()
	if v := werr.Load(); v != nil {
		return fmt.Errorf("harness: writer: %v", v)
	}
	if stepErr != nil {
		return stepErr
	}
	// quiesced: one more sync step must leave the writer's last commit in place, in all keys
	final := committed.Load()
	if _, _, err := s.LoadOnce(ctx, env.Env, "peer", mkUpdate(model.Snap{FormatVersion: 3, CompatVersion: 1, Meta: model.Meta{InstanceID: "peer", DatabaseName: "db", TimestampNano: 999}}, time.Unix(0, 999)), last); err != nil {
		return fmt.Errorf("final LoadOnce: %v", err)
	}
	vals, err := readKeys()
	if err != nil {
		return err
	}
	for i, v := range vals {
		if v != final {
			return fmt.Errorf("after the writer stopped at commit %d and one more merge ran, key w%d holds the value of commit %d: a committed application write was reverted", final, i, v)
		}
	}
	o.NonTrivial(final > uint64(len(c.Steps)))
	o.ClassIf(c.Native, "native")
	o.ClassIf(!c.Native, "shadow")
	return nil
}

func TestC03Writer(t *testing.T) {
	vcore.Run(t, vcore.Config{Property: "C03", Inflight: true,
		Rule: "rapid: 3-12 sync steps (LoadOnce of a peer snapshot with new keys, LoadOnce of an empty one, SendOnce) on one instance while a writer goroutine commits a counter into 1-3 keys of its own as fast as the write lock lets it (so it commits wherever Lightning Stream releases the lock between two of its transactions); after every step no key is older than what was committed before the step began, and after the writer stops and one more merge ran every key holds its last commit; native and shadow; non-trivial = the writer committed more often than there were steps"},
		func(t *rapid.T) C03Writer {
			c := C03Writer{Native: rapid.Bool().Draw(t, "native"), Keys: rapid.IntRange(1, 3).Draw(t, "keys")}
			for i := rapid.IntRange(3, 12).Draw(t, "nsteps"); i > 0; i-- {
				c.Steps = append(c.Steps, rapid.SampledFrom([]string{"load", "load", "load-noop", "send"}).Draw(t, "step"))
			}
			return c
		}, checkC03Writer)
}

var _ = header.TxnID(0)

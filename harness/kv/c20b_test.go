package kv

import (
	"bytes"
	"context"
	"fmt"
	"sort"
	"strings"
	"testing"
	"time"

	"github.com/PowerDNS/lightningstream/config"
	"github.com/PowerDNS/lightningstream/snapshot"
	"github.com/PowerDNS/lightningstream/syncer"
	"github.com/PowerDNS/lmdb-go/lmdb"
	"pgregory.net/rapid"

	"verif/harness/internal/gen"
	"verif/harness/internal/lm"
	"verif/harness/internal/model"
	"verif/harness/internal/vcore"
)

// ---------------------------------------------------------------------------
// C20, the receiving and the refusing side:
//  (1) a peer snapshot that states the transform but carries shadow keys that
//      are no images of any pair is refused as a whole (LMDB untouched) or,
//      if accepted, the application's DBI is exactly the decoded live shadow
//      entries - never silently altered data, never a crash;
//  (2) a duplicate-keys DBI while the hack is disabled is refused by every
//      pass instead of being flattened.
// ---------------------------------------------------------------------------

// refDecode: the documented inverse (last byte = key length, four zero bytes after the key).
func refDecode(enc []byte) (key []byte, ok bool) {
	if len(enc) < 6 {
		return nil, false
	}
	kl := int(enc[len(enc)-1])
	if kl < 1 || len(enc) < kl+5 {
		return nil, false
	}
	if !bytes.Equal(enc[kl:kl+4], []byte{0, 0, 0, 0}) {
		return nil, false
	}
	return enc[:kl], true
}

type C20HostileEntry struct {
	Kind string      `json:"kind"` // valid | short | nolen | nosep | len0 | lenbig | raw
	K    model.Bytes `json:"k"`
	V    model.Val   `json:"v"`
	Raw  model.Bytes `json:"raw,omitempty"`
	Del  bool        `json:"del,omitempty"`
}

type C20Hostile struct {
	Initial []Pair            `json:"initial"`
	Remote  []C20HostileEntry `json:"remote"`
}

func (e C20HostileEntry) shadowKey() []byte {
	v := e.V.Bytes()
	good, _ := refEncode(e.K, v)
	switch e.Kind {
	case "valid":
		return good
	case "short":
		if len(e.Raw) > 5 {
			return e.Raw[:5]
		}
		return e.Raw
	case "nolen": // length byte replaced by something else
		b := append([]byte{}, good...)
		b[len(b)-1] = byte(len(e.K) + 1 + len(e.Raw)%7)
		return b
	case "nosep": // a non-zero byte inside the separator
		b := append([]byte{}, good...)
		b[len(e.K)+len(e.Raw)%4] = 0x01
		return b
	case "len0":
		b := append([]byte{}, good...)
		b[len(b)-1] = 0
		return b
	case "lenbig":
		b := append([]byte{}, good...)
		b[len(b)-1] = 0xff
		return b
	}
	return e.Raw
}

func checkC20Hostile(c C20Hostile, o *vcore.Obs) error {
	env := lm.New(32<<20, 16)
	defer env.Close()
	s, _ := newShadowSyncer(env.Env, "a", config.LMDB{SchemaTracksChanges: false, DupSortHack: true})
	ctx := context.Background()
	err := env.Update(func(txn *lmdb.Txn) error {
		dbi, err := txn.OpenDBI("dup", lmdb.Create|lmdb.DupSort)
		if err != nil {
			return err
		}
		for _, p := range c.Initial {
			if err := txn.Put(dbi, p.K, p.V.Bytes(), 0); err != nil {
				return err
			}
		}
		return nil
	})
	if err != nil {
		return fmt.Errorf("harness: %v", err)
	}
	// steady state: one capture
	if err := env.Update(func(txn *lmdb.Txn) error { return s.VerifMainToShadow(ctx, txn, 1000) }); err != nil {
		o.Class("initial-content-refused")
		o.NonTrivial(false)
		return nil // unmappable local content: that refusal is TestC20DBI / TestC20Cycle
	}
	before, err := lm.DumpEnv(env.Env)
	if err != nil {
		return err
	}
	// peer snapshot
	ents := map[string]model.KV{}
	hostile := 0
	for i, e := range c.Remote {
		k := e.shadowKey()
		if len(k) == 0 || len(k) > 511 {
			continue
		}
		kv := model.KV{Key: k, Val: e.V, TS: uint64(2_000_000_000_000_000_000 + i)}
		if e.Del {
			kv.Val, kv.Flags = model.Val{}, 1
		}
		if _, ok := refDecode(k); !ok {
			hostile++ // (a marker under such a key is no image of a pair either)
		}
		ents[string(k)] = kv
	}
	var keys []string
	for k := range ents {
		keys = append(keys, k)
	}
	sort.Strings(keys)
	d := model.DBI{Name: "dup", Flags: uint64(lmdb.DupSort), Transform: snapshot.TransformDupSortHackV1}
	for _, k := range keys {
		d.Entries = append(d.Entries, ents[k])
	}
	snap := model.Snap{FormatVersion: 3, CompatVersion: 1, Meta: model.Meta{InstanceID: "peer", DatabaseName: "db", TimestampNano: 77}, DBIs: []model.DBI{d}}
	upd := mkUpdate(snap, time.Unix(0, 77))
	_, _, loadErr := s.LoadOnce(ctx, env.Env, "peer", upd, headerTxn(uint64(before.LastTxnID)))
	after, err := lm.DumpEnv(env.Env)
	if err != nil {
		return err
	}
	o.ClassIf(hostile > 0, "live-entry-that-is-no-image-of-a-pair")
	if loadErr != nil {
		o.Class("refused")
		if hostile == 0 {
			return fmt.Errorf("peer snapshot with only well-formed shadow keys refused: %v", loadErr)
		}
		if d := before.Diff(after); d != "" {
			return fmt.Errorf("refused (%v) but the LMDB changed: %s", loadErr, d)
		}
		o.NonTrivial(len(c.Remote) > 1)
		return nil
	}
	o.Class("accepted")
	// accepted: the application's DBI is exactly the decoded live entries of the shadow DBI
	sh := after.DBI(syncer.SyncDBIShadowPrefix + "dup")
	app := after.DBI("dup")
	want := map[string]bool{}
	if sh != nil {
		for _, e := range sh.Entries {
			h, err := model.ReadHeader(e.Val)
			if err != nil {
				return fmt.Errorf("shadow value unreadable: %v", err)
			}
			if h.Flags&1 != 0 {
				continue
			}
			k, ok := refDecode(e.Key)
			if !ok {
				return fmt.Errorf("accepted a snapshot that leaves the live shadow key %x, which is no image of any pair; the application's DBI can no longer be rebuilt from it", e.Key)
			}
			want[pairKey(k, h.AppVal)] = true
		}
	}
	got := map[string]bool{}
	if app != nil {
		for _, e := range app.Entries {
			got[pairKey(e.Key, e.Val)] = true
		}
	}
	for p := range want {
		if !got[p] {
			return fmt.Errorf("pair %q is live in the shadow DBI but missing from the application's DBI", p)
		}
	}
	for p := range got {
		if !want[p] {
			return fmt.Errorf("application's DBI holds pair %q that the shadow DBI does not", p)
		}
	}
	o.NonTrivial(len(want) > 0 && len(c.Remote) > 1)
	return nil
}

func genC20Hostile(t *rapid.T) C20Hostile {
	var c C20Hostile
	for i := rapid.IntRange(0, 4).Draw(t, "ninit"); i > 0; i-- {
		k := []byte(rapid.StringMatching("[a-c]{1,2}").Draw(t, "ik"))
		c.Initial = append(c.Initial, Pair{K: k, V: model.ValOf([]byte(rapid.StringMatching("[x-z]{1,3}").Draw(t, "iv")))})
	}
	n := rapid.IntRange(1, 6).Draw(t, "nremote")
	bad := rapid.IntRange(0, 2).Draw(t, "anybad") > 0
	for i := 0; i < n; i++ {
		e := C20HostileEntry{Kind: "valid", K: genDupKey(t, "rk", 255), Del: rapid.IntRange(0, 5).Draw(t, "del") == 0}
		e.V = genDupVal(t, "rv", len(e.K))
		if e.V.Len == 0 {
			e.V = model.ValOf([]byte("v")) // known finding shadow-empty-value
		}
		if bad && rapid.IntRange(0, 2).Draw(t, "bad") == 0 {
			e.Kind = rapid.SampledFrom([]string{"short", "nolen", "nosep", "len0", "lenbig", "raw"}).Draw(t, "kind")
			e.Raw = gen.BytesN(t, "raw", 1, 40)
		}
		c.Remote = append(c.Remote, e)
	}
	return c
}

func TestC20Hostile(t *testing.T) {
	vcore.Run(t, vcore.Config{Property: "C20", Inflight: true,
		Rule: "rapid: dupsort application DBI in steady state + a peer snapshot stating dupsort_hack_v1 whose shadow keys are images of pairs or not (too short, wrong length byte, damaged separator, length 0 / 255, arbitrary bytes), live or deleted; LoadOnce either refuses with the LMDB byte-identical or leaves the application's DBI equal to the independently decoded live shadow entries; well-formed snapshots are never refused; no panic; " +
			"non-trivial = >= 2 remote entries and (refused, or accepted with live pairs)"},
		genC20Hostile, checkC20Hostile)
}

// ---- hack disabled --------------------------------------------------------------

type C20Disabled struct {
	Native bool   `json:"native"`
	Pairs  []Pair `json:"pairs"`
	Plain  []Pair `json:"plain"` // a second, ordinary DBI
}

func checkC20Disabled(c C20Disabled, o *vcore.Obs) error {
	env := lm.New(32<<20, 16)
	defer env.Close()
	s, st := newShadowSyncer(env.Env, "a", config.LMDB{SchemaTracksChanges: c.Native, DupSortHack: false})
	ctx := context.Background()
	err := env.Update(func(txn *lmdb.Txn) error {
		dbi, err := txn.OpenDBI("dup", lmdb.Create|lmdb.DupSort)
		if err != nil {
			return err
		}
		for _, p := range c.Pairs {
			v := p.V.Bytes()
			if c.Native {
				v = model.BuildHeader(50, uint64(txn.ID()), 0, nil, v)
			}
			if err := txn.Put(dbi, p.K, v, 0); err != nil {
				return err
			}
		}
		pd, err := txn.OpenDBI("plain", lmdb.Create)
		if err != nil {
			return err
		}
		for _, p := range c.Plain {
			v := p.V.Bytes()
			if c.Native {
				v = model.BuildHeader(50, uint64(txn.ID()), 0, nil, v)
			}
			if err := txn.Put(pd, p.K, v, 0); err != nil {
				return err
			}
		}
		return nil
	})
	if err != nil {
		return fmt.Errorf("harness: %v", err)
	}
	before, err := lm.DumpEnv(env.Env)
	if err != nil {
		return err
	}
	_, sendErr := s.SendOnce(ctx, env.Env)
	after, err := lm.DumpEnv(env.Env)
	if err != nil {
		return err
	}
	ls, _ := st.List(ctx, "")
	if sendErr == nil {
		return fmt.Errorf("a duplicate-keys DBI was dumped although dupsort_hack is disabled (stored: %v)", ls.Names())
	}
	if !strings.Contains(sendErr.Error(), "dupsort") {
		return fmt.Errorf("SendOnce failed, but not with a refusal of the duplicate-keys DBI: %v", sendErr)
	}
	if len(ls.Names()) != 0 {
		return fmt.Errorf("SendOnce refused (%v) but stored %v", sendErr, ls.Names())
	}
	// the application's data is untouched (in shadow mode the failed transaction is rolled back as a whole)
	if d := before.Diff(after); d != "" {
		return fmt.Errorf("SendOnce refused (%v) but the LMDB changed: %s", sendErr, d)
	}
	dups := 0
	seen := map[string]bool{}
	for _, p := range c.Pairs {
		if seen[string(p.K)] {
			dups++
		}
		seen[string(p.K)] = true
	}
	o.NonTrivial(dups > 0)
	o.ClassIf(c.Native, "native")
	o.ClassIf(!c.Native, "shadow")
	return nil
}

func TestC20Disabled(t *testing.T) {
	vcore.Run(t, vcore.Config{Property: "C20",
		Rule: "rapid: LMDB with a duplicate-keys DBI (and an ordinary one) while dupsort_hack is disabled, native and shadow mode: SendOnce must refuse (error naming dupsort), store nothing and leave the LMDB byte-identical; non-trivial = some key really has two values"},
		func(t *rapid.T) C20Disabled {
			c := C20Disabled{Native: rapid.Bool().Draw(t, "native")}
			for i := rapid.IntRange(1, 6).Draw(t, "np"); i > 0; i-- {
				c.Pairs = append(c.Pairs, Pair{K: []byte(rapid.StringMatching("[a-b]{1,2}").Draw(t, "k")), V: model.ValOf([]byte(rapid.StringMatching("[x-z]{1,3}").Draw(t, "v")))})
			}
			for i := rapid.IntRange(0, 3).Draw(t, "npl"); i > 0; i-- {
				c.Plain = append(c.Plain, Pair{K: []byte(rapid.StringMatching("[a-c]{1,2}").Draw(t, "pk")), V: model.ValOf([]byte(rapid.StringMatching("[x-z]{1,3}").Draw(t, "pv")))})
			}
			return c
		}, checkC20Disabled)
}

package kv

import (
	"bytes"
	"context"
	"fmt"
	"strings"
	"sync"
	"sync/atomic"
	"testing"
	"time"

	"github.com/PowerDNS/lightningstream/config"
	"github.com/PowerDNS/lightningstream/lmdbenv/dbiflags"
	"github.com/PowerDNS/lightningstream/lmdbenv/header"
	"github.com/PowerDNS/lightningstream/snapshot"
	"github.com/PowerDNS/lightningstream/syncer"
	"github.com/PowerDNS/lmdb-go/lmdb"
	"pgregory.net/rapid"

	"verif/harness/internal/lm"
	"verif/harness/internal/model"
	"verif/harness/internal/vcore"
)

// ---------------------------------------------------------------------------
// C18 A snapshot is merged all-or-nothing, for every supported format version
// ---------------------------------------------------------------------------

type C18Entry struct {
	Key model.Bytes `json:"key"`
	TS  uint64      `json:"ts"`
	Del bool        `json:"del,omitempty"`
	Val model.Val   `json:"val"`
}

type C18Pre struct {
	Name    string     `json:"name"`
	Int4    bool       `json:"int4,omitempty"`
	Entries []C18Entry `json:"entries"`
	// RawKey: native mode only - a value stored without a header under this key
	RawKey model.Bytes `json:"raw_key,omitempty"`
}

type C18SnapDBI struct {
	Name      string     `json:"name"`
	Flags     uint64     `json:"flags"`
	Transform string     `json:"transform,omitempty"`
	Entries   []C18Entry `json:"entries"`
	Override  *uint64    `json:"override,omitempty"` // override_create_flags for this DBI
}

type C18Case struct {
	Mode   string       `json:"mode"` // native | shadow
	FV     uint32       `json:"fv"`
	CV     uint32       `json:"cv"`
	Pre    []C18Pre     `json:"pre"`
	Snap   []C18SnapDBI `json:"snap"`
	MapKB  int          `json:"map_kb"`
	Cancel bool         `json:"cancel,omitempty"`
	Reader bool         `json:"reader,omitempty"`
	Inject string       `json:"inject"` // label of the injected failure (generator's intent; the oracle does not trust it)
	// Wire: one entry of the encoded snapshot is damaged at the protobuf wire
	// level (the DBI framing stays valid, the entry's content is not a
	// well-formed message any more)
	Wire *C18Wire `json:"wire,omitempty"`
}

type C18Wire struct {
	DBI   int    `json:"dbi"`   // index into Snap
	Entry int    `json:"entry"` // index into its entries
	Kind  string `json:"kind"`  // fixed64 | fixed32 | bytes | varint | tag | wt6 | wt7 | cut
	Field int    `json:"field"` // unknown field number carrying the damage
	Keep  int    `json:"keep"`  // payload bytes present (kind specific)
	Len   int    `json:"len"`   // declared payload length (kind bytes)
	Head  bool   `json:"head"`  // damage placed before the known fields instead of after them
}

// c18Damage returns the damaged content of one encoded entry, or nil when the
// result would still be a well-formed message.
func c18Damage(content []byte, w C18Wire) []byte {
	var junk []byte
	tag := func(wt int) []byte { return model.AppendVarint(nil, uint64(w.Field)<<3|uint64(wt)) }
	fill := func(n int) []byte { return bytes.Repeat([]byte{0x41}, n) }
	switch w.Kind {
	case "fixed64":
		junk = append(tag(model.WTFixed64), fill(w.Keep%8)...)
	case "fixed32":
		junk = append(tag(model.WTFixed32), fill(w.Keep%4)...)
	case "bytes":
		l := w.Len
		if l < 1 {
			l = 1
		}
		junk = append(model.AppendVarint(tag(model.WTBytes), uint64(l)), fill(w.Keep%l)...)
	case "varint":
		junk = append(tag(model.WTVarint), bytes.Repeat([]byte{0x80}, 1+w.Keep%3)...)
	case "tag":
		junk = bytes.Repeat([]byte{0xff}, 1+w.Keep%3)
	case "wt6":
		junk = tag(6)
	case "wt7":
		junk = tag(7)
	case "cut":
		k := 1 + w.Keep
		if k >= len(content) {
			return nil
		}
		out := append([]byte(nil), content[:len(content)-k]...)
		if _, err := model.ParseMsg(out); err == nil {
			return nil
		}
		return out
	default:
		return nil
	}
	var out []byte
	if w.Head && w.Kind != "tag" && w.Kind != "varint" {
		// a truncated field can only sit at the end of the message: at the head it
		// swallows the following bytes instead. Only self-contained damage goes first.
		if w.Kind == "wt6" || w.Kind == "wt7" {
			out = append(append(out, junk...), content...)
		} else {
			out = append(append(out, content...), junk...)
		}
	} else {
		out = append(append(out, content...), junk...)
	}
	if _, err := model.ParseMsg(out); err == nil {
		return nil
	}
	return out
}

// c18Encode encodes the snapshot with the reference codec and applies the wire
// damage. It reports whether an entry of a non-private DBI is now malformed.
func c18Encode(m model.Snap, w *C18Wire) (pb []byte, damaged bool, err error) {
	pb, err = m.ToGogo().Marshal()
	if err != nil || w == nil {
		return pb, false, err
	}
	tree, err := model.ParseSnapshotTree(pb)
	if err != nil {
		return nil, false, err
	}
	dbs := model.Messages(&tree, model.LevelDBI)
	if w.DBI >= len(dbs) {
		return pb, false, nil
	}
	n := 0
	for i := range *dbs[w.DBI] {
		it := &(*dbs[w.DBI])[i]
		if it.Field != model.DBIEntries || !it.IsSub {
			continue
		}
		if n == w.Entry {
			content := c18Damage(model.EncodeMsg(it.Sub), *w)
			if content == nil {
				return pb, false, nil
			}
			it.IsSub, it.Sub, it.Bytes = false, nil, content
			out := model.EncodeMsg(tree)
			// framing must still be valid down to the DBI level
			top, err := model.ParseMsg(out)
			if err != nil {
				return nil, false, fmt.Errorf("harness: damaged snapshot lost its framing: %v", err)
			}
			for _, t := range top {
				if t.Field == model.SnapDatabases && t.WT == model.WTBytes {
					if _, err := model.ParseMsg(t.Bytes); err != nil {
						return nil, false, fmt.Errorf("harness: damaged snapshot lost its DBI framing: %v", err)
					}
				}
			}
			return out, true, nil
		}
		n++
	}
	return pb, false, nil
}

var c18Names = []string{"d0", "d1", "d2", "d3", "n0", "n1"}

const c18Marker = "~marker"

func c18Key(int4 bool, i int) []byte {
	if int4 {
		return intKey("int4", []uint64{0, 1, 7, 256, 1 << 31, 1<<32 - 1}[i%6])
	}
	return [][]byte{[]byte("a"), []byte("b"), []byte("c"), {0}, {0xff, 0xff}, []byte("key-with-a-longer-name")}[i%6]
}

// expectation derived from the snapshot itself (not from the generator's label)
type c18Expect struct {
	mustErr string // non-empty: LoadOnce must refuse, with this reason
	clean   bool   // nothing that could legitimately fail: must succeed
}

func c18Classify(c C18Case, existing map[string]bool, damaged bool) c18Expect {
	exp := c18Expect{clean: true}
	if damaged && !strings.HasPrefix(c.Snap[c.Wire.DBI].Name, "_sync") {
		exp.mustErr = "entry that is not a well-formed protobuf message"
	}
	nonPrivate := 0
	for _, d := range c.Snap {
		if strings.HasPrefix(d.Name, "_sync") {
			continue
		}
		nonPrivate++
		native := c.Mode == "native"
		switch {
		case d.Transform != "" && d.Transform != "dupsort_hack_v1":
			exp.mustErr = "unsupported transform"
		case native && d.Transform != "":
			exp.mustErr = "transform on native schema"
		case c.FV >= 3 && (d.Flags&uint64(lmdb.DupSort) != 0) != (d.Transform == "dupsort_hack_v1"):
			exp.mustErr = "inconsistent transform/flags"
		case !native && !existing[d.Name] && c.FV < 3 && d.Override == nil:
			exp.mustErr = "DBI cannot be created safely from a pre-v3 snapshot"
		}
		if d.Transform != "" || d.Flags&uint64(lmdb.DupSort) != 0 {
			exp.clean = false
		}
		for _, e := range d.Entries {
			if len(e.Key) == 0 || len(e.Key) > 511 {
				if exp.mustErr == "" {
					exp.mustErr = "malformed entry key"
				}
			}
			if d.Flags&0x08 != 0 && len(e.Key) != 4 {
				exp.clean = false // wrong integer key size: LMDB refuses
			}
		}
	}
	if nonPrivate > 0 {
		if c.FV == 0 {
			exp.mustErr = "format version 0"
		}
		if c.CV > 3 {
			exp.mustErr = "compat version newer than this build"
		}
	}
	if exp.mustErr != "" || c.Cancel || c.MapKB < 4096 {
		exp.clean = false
	}
	for _, p := range c.Pre {
		if len(p.RawKey) > 0 {
			exp.clean = false
		}
	}
	return exp
}

func checkC18(c C18Case, o *vcore.Obs) error {
	env := lm.New(int64(c.MapKB)<<10, 16)
	defer env.Close()
	native := c.Mode == "native"
	lc := config.LMDB{SchemaTracksChanges: native, DBIOptions: map[string]config.DBIOptions{}}
	for _, d := range c.Snap {
		if d.Override != nil {
			f := dbiflags.Flags(*d.Override)
			lc.DBIOptions[d.Name] = config.DBIOptions{OverrideCreateFlags: &f}
		}
	}
	s, _ := newShadowSyncer(env.Env, "a", lc)
	ctx, cancel := context.WithCancel(context.Background())
	defer cancel()

	// ---- pre-existing content
	mir := model.NewMirror()              // shadow mode reference
	nat := map[string]map[string][]byte{} // native mode reference: dbi -> key -> stored bytes
	natKind := map[string]string{}
	natNewFlags := map[string]uint{}
	existing := map[string]bool{}
	err := env.Update(func(txn *lmdb.Txn) error {
		for _, p := range c.Pre {
			fl := uint(0)
			kind := "plain"
			if p.Int4 {
				fl, kind = 0x08, "int4"
			}
			dbi, err := txn.OpenDBI(p.Name, lmdb.Create|fl)
			if err != nil {
				return err
			}
			existing[p.Name] = true
			natKind[p.Name] = kind
			if native {
				nat[p.Name] = map[string][]byte{}
			} else {
				mir.AppCreate(p.Name, kind)
			}
			for _, e := range p.Entries {
				if native {
					flb := byte(0)
					val := e.Val.Bytes()
					if e.Del {
						flb, val = 1, nil
					}
					b := model.BuildHeader(e.TS, uint64(txn.ID()), flb, nil, val)
					if err := txn.Put(dbi, e.Key, b, 0); err != nil {
						return err
					}
					nat[p.Name][string(e.Key)] = b
				} else if !e.Del {
					val := e.Val.Bytes()
					if len(val) == 0 {
						val = []byte("x")
					}
					if err := txn.Put(dbi, e.Key, val, 0); err != nil {
						return err
					}
					mir.AppPut(p.Name, kind, e.Key, val)
				}
			}
			if native && len(p.RawKey) > 0 {
				raw := []byte("no-header")
				if err := txn.Put(dbi, p.RawKey, raw, 0); err != nil {
					return err
				}
				nat[p.Name][string(p.RawKey)] = raw
			}
		}
		return nil
	})
	if err != nil {
		return fmt.Errorf("harness: prefill: %v", err)
	}
	if !native {
		// steady state: the shadow DBIs reflect the application data (stamp: even, below every remote ts pool)
		err := env.Update(func(txn *lmdb.Txn) error {
			tid := uint64(txn.ID())
			if err := s.VerifMainToShadow(ctx, txn, 1000); err != nil {
				return err
			}
			mir.Capture(1000, tid)
			return nil
		})
		if err != nil {
			return fmt.Errorf("harness: initial capture: %v", err)
		}
	}
	before, err := lm.DumpEnv(env.Env)
	if err != nil {
		return err
	}

	// ---- snapshot
	snap := model.Snap{FormatVersion: c.FV, CompatVersion: c.CV, Meta: model.Meta{InstanceID: "peer", DatabaseName: "db", TimestampNano: 77}}
	for _, d := range c.Snap {
		md := model.DBI{Name: d.Name, Flags: d.Flags, Transform: d.Transform}
		for _, e := range d.Entries {
			fl := uint32(0)
			val := e.Val
			if e.Del {
				val = model.Val{}
				if c.FV >= 2 {
					fl = 1
				}
			}
			md.Entries = append(md.Entries, model.KV{Key: e.Key, Val: val, TS: e.TS, Flags: fl})
		}
		snap.DBIs = append(snap.DBIs, md)
	}
	pb, damaged, err := c18Encode(snap, c.Wire)
	if err != nil {
		return err
	}
	exp := c18Classify(c, existing, damaged)
	var cs snapshot.Snapshot
	if err := cs.Unmarshal(pb); err != nil {
		if !damaged {
			return fmt.Errorf("harness: snapshot does not load: %v", err)
		}
		o.Class("wire-refused-at-decode")
		o.NonTrivial(false)
		return nil
	}
	upd := snapshot.Update{Snapshot: &cs, NameInfo: snapshot.NameInfo{Kind: snapshot.KindSnapshot, InstanceID: "peer", Timestamp: time.Unix(0, 77), SyncerName: "db", GenerationID: "GX", Extension: snapshot.DefaultExtension}}
	if damaged {
		o.Class("wire-" + c.Wire.Kind)
	}

	// ---- concurrent reader over two pre-existing DBIs (handles opened before the merge starts)
	var readerErr atomic.Value
	var stop atomic.Bool
	var wg sync.WaitGroup
	readerOn := false
	if c.Reader {
		var first, last string
		for _, d := range c.Snap {
			if strings.HasPrefix(d.Name, "_sync") || !existing[d.Name] {
				continue
			}
			has := false
			for _, e := range d.Entries {
				if string(e.Key) == c18Marker {
					has = true
				}
			}
			if !has {
				continue
			}
			if first == "" {
				first = d.Name
			}
			last = d.Name
		}
		if first != "" && last != first {
			readerOn = true
			var h1, h2 lmdb.DBI
			_ = env.View(func(txn *lmdb.Txn) error {
				h1, _ = txn.OpenDBI(first, 0)
				h2, _ = txn.OpenDBI(last, 0)
				return nil
			})
			wg.Add(1)
			go func() {
				defer wg.Done()
				for !stop.Load() {
					_ = env.View(func(txn *lmdb.Txn) error {
						_, e1 := txn.Get(h1, []byte(c18Marker))
						_, e2 := txn.Get(h2, []byte(c18Marker))
						if lmdb.IsNotFound(e1) != lmdb.IsNotFound(e2) {
							readerErr.Store(fmt.Sprintf("reader saw the marker in one of %q/%q but not the other (txn %d)", first, last, txn.ID()))
						}
						return nil
					})
				}
			}()
		}
	}

	if c.Cancel {
		cancel()
	}
	lastTxn := header.TxnID(before.LastTxnID)
	_, _, loadErr := s.LoadOnce(ctx, env.Env, "peer", upd, lastTxn)
	stop.Store(true)
	wg.Wait()
	if v := readerErr.Load(); v != nil {
		return fmt.Errorf("partially merged snapshot observed: %s", v.(string))
	}
	after, err := lm.DumpEnv(env.Env)
	if err != nil {
		return err
	}

	o.Class("inject-" + c.Inject)
	o.Class("mode-" + c.Mode)
	o.Class(fmt.Sprintf("fv-%d", c.FV))
	for _, d := range c.Snap {
		for _, e := range d.Entries {
			o.ClassIf(!e.Del && len(e.Val.Bytes()) == 0, "snapshot-entry-live-with-empty-value")
		}
	}
	o.ClassIf(readerOn, "concurrent-reader")
	if loadErr != nil {
		o.Class("load-refused")
		if exp.clean {
			return fmt.Errorf("valid snapshot (fv=%d cv=%d) refused: %v", c.FV, c.CV, loadErr)
		}
		if d := before.Diff(after); d != "" {
			return fmt.Errorf("LoadOnce failed (%v) but the LMDB changed: %s", loadErr, d)
		}
		if before.LastTxnID != after.LastTxnID {
			return fmt.Errorf("LoadOnce failed (%v) but committed a transaction (%d -> %d)", loadErr, before.LastTxnID, after.LastTxnID)
		}
		// non-trivial: the failure is located after at least one entry / DBI was applied
		applied := false
		for i, d := range c.Snap {
			if strings.HasPrefix(d.Name, "_sync") {
				continue
			}
			if i > 0 || len(d.Entries) > 1 {
				applied = true
			}
		}
		o.NonTrivial(applied)
		return nil
	}
	o.Class("load-accepted")
	if exp.mustErr != "" {
		return fmt.Errorf("snapshot must be refused (%s) but LoadOnce returned nil", exp.mustErr)
	}
	lsTxn := uint64(after.LastTxnID)
	wrote := after.LastTxnID != before.LastTxnID

	// ---- reference merge
	if native {
		type change struct{ v model.SVer }
		changed := map[string]map[string]model.SVer{}
		for _, d := range c.Snap {
			if strings.HasPrefix(d.Name, "_sync") {
				continue
			}
			if nat[d.Name] == nil {
				nat[d.Name] = map[string][]byte{}
				kind := "plain"
				fl := d.Flags
				if d.Override != nil {
					fl = *d.Override
				}
				if fl&0x08 != 0 {
					kind = "int4"
				}
				natKind[d.Name] = kind
				natNewFlags[d.Name] = uint(fl)
			}
			for _, e := range d.Entries {
				in := model.SVer{TS: e.TS, Del: e.Del, Val: e.Val.Bytes()}
				if c.FV < 2 {
					in.Del = len(in.Val) == 0 || e.Del
				}
				if in.Del {
					in.Val = nil
				}
				cur, ok := nat[d.Name][string(e.Key)]
				if ok {
					h, err := model.ReadHeader(cur)
					if err != nil {
						return fmt.Errorf("harness: stored value unparsable but load succeeded")
					}
					old := model.SVer{TS: h.TS, Del: h.Flags&1 != 0, Val: h.AppVal}
					if pv, isChanged := changed[d.Name][string(e.Key)]; isChanged {
						old = pv
					}
					if !model.Wins(old, in) {
						continue
					}
				} else if pv, isChanged := changed[d.Name][string(e.Key)]; isChanged && !model.Wins(pv, in) {
					continue
				}
				if changed[d.Name] == nil {
					changed[d.Name] = map[string]model.SVer{}
				}
				changed[d.Name][string(e.Key)] = in
				nat[d.Name][string(e.Key)] = nil // marker: compare logically
			}
		}
		// compare
		for name, mp := range nat {
			got := after.DBI(name)
			if got == nil {
				return fmt.Errorf("DBI %q missing after merge", name)
			}
			wantFlags := uint(0)
			if natKind[name] == "int4" {
				wantFlags = 0x08
			}
			if f, ok := natNewFlags[name]; ok {
				wantFlags = f // created by the merge: flags as stated by the snapshot (or the override)
			}
			if got.Flags != wantFlags {
				return fmt.Errorf("DBI %q has flags %#x, want %#x", name, got.Flags, wantFlags)
			}
			if len(got.Entries) != len(mp) {
				return fmt.Errorf("DBI %q: %d entries, reference merge has %d", name, len(got.Entries), len(mp))
			}
			for _, e := range got.Entries {
				want, ok := mp[string(e.Key)]
				if !ok {
					return fmt.Errorf("DBI %q: unexpected key %x", name, e.Key)
				}
				if want != nil {
					if !bytes.Equal(want, e.Val) {
						return fmt.Errorf("DBI %q key %x: entry the snapshot did not win was rewritten: %x -> %x", name, e.Key, want, e.Val)
					}
					continue
				}
				cv := changed[name][string(e.Key)]
				h, err := model.CheckLSWritten(e.Val, lsTxn, false)
				if err != nil {
					return fmt.Errorf("DBI %q key %x: %v", name, e.Key, err)
				}
				if h.TS != cv.TS || (h.Flags&1 != 0) != cv.Del || !bytes.Equal(h.AppVal, cv.Val) {
					return fmt.Errorf("DBI %q key %x: got (ts=%d del=%v %x), reference merge (ts=%d del=%v %x)", name, e.Key, h.TS, h.Flags&1 != 0, h.AppVal, cv.TS, cv.Del, cv.Val)
				}
			}
		}
		for _, d := range after.DBIs {
			if nat[d.Name] == nil {
				return fmt.Errorf("unexpected DBI %q after merge (private DBIs in a snapshot must be ignored)", d.Name)
			}
		}
	} else {
		for _, d := range c.Snap {
			if strings.HasPrefix(d.Name, "_sync") {
				continue
			}
			fl := d.Flags
			if d.Override != nil {
				fl = *d.Override
			}
			kind := "plain"
			if fl&0x08 != 0 {
				kind = "int4"
			}
			if ex := mir.DBIs[d.Name]; ex != nil {
				kind = ex.Kind
			}
			if len(d.Entries) == 0 {
				// DBI is created even without entries
				md := mir.DBIs[d.Name]
				if md == nil {
					mir.AppCreate(d.Name, kind)
					mir.DBIs[d.Name].HasShadow = true
				}
			}
			for _, e := range d.Entries {
				in := model.SVer{TS: e.TS, Del: e.Del, Val: e.Val.Bytes()}
				if c.FV < 2 {
					in.Del = len(in.Val) == 0 || e.Del
				}
				mir.MergeRemote(d.Name, kind, e.Key, in, lsTxn)
			}
		}
		mir.Project()
		if err := compareMirror(env.Env, mir, lsTxn, nil); err != nil {
			return fmt.Errorf("after successful merge: %v", err)
		}
	}
	_ = wrote
	multi := 0
	for _, d := range c.Snap {
		if !strings.HasPrefix(d.Name, "_sync") && len(d.Entries) > 0 {
			multi++
		}
	}
	o.NonTrivial(multi >= 2 && c.FV != 3)
	return nil
}

func genC18(t *rapid.T) C18Case {
	var c C18Case
	c.Mode = rapid.SampledFrom([]string{"native", "native", "shadow"}).Draw(t, "mode")
	native := c.Mode == "native"
	c.FV, c.CV = 3, 1
	c.MapKB = 16 << 10
	// pre-existing DBIs
	npre := rapid.IntRange(0, 3).Draw(t, "npre")
	preInt := map[string]bool{}
	for i := 0; i < npre; i++ {
		p := C18Pre{Name: c18Names[i], Int4: rapid.IntRange(0, 3).Draw(t, "int4") == 0}
		preInt[p.Name] = p.Int4
		ne := rapid.IntRange(0, 5).Draw(t, "npe")
		seen := map[string]bool{}
		for j := 0; j < ne; j++ {
			k := c18Key(p.Int4, rapid.IntRange(0, 5).Draw(t, "pk"))
			if seen[string(k)] {
				continue
			}
			seen[string(k)] = true
			e := C18Entry{Key: k, TS: uint64(2 * rapid.IntRange(1, 10).Draw(t, "pts")), Del: native && rapid.IntRange(0, 4).Draw(t, "pdel") == 0}
			if !e.Del {
				e.Val = model.ValOf(rapid.SampledFrom([][]byte{[]byte("old"), []byte("x"), {0}, {}}).Draw(t, "pval"))
			}
			p.Entries = append(p.Entries, e)
		}
		c.Pre = append(c.Pre, p)
	}
	// snapshot DBIs
	ns := rapid.IntRange(1, 4).Draw(t, "nsnap")
	used := map[string]bool{}
	for i := 0; i < ns; i++ {
		name := c18Names[rapid.IntRange(0, len(c18Names)-1).Draw(t, "sname")]
		if used[name] {
			continue
		}
		used[name] = true
		d := C18SnapDBI{Name: name}
		int4 := preInt[name]
		_, exists := preInt[name]
		if !exists {
			int4 = rapid.IntRange(0, 3).Draw(t, "newint4") == 0
		}
		if int4 {
			d.Flags = 0x08
		}
		ne := rapid.IntRange(0, 5).Draw(t, "nse")
		seen := map[string]bool{}
		for j := 0; j < ne; j++ {
			k := c18Key(int4, rapid.IntRange(0, 5).Draw(t, "sk"))
			if seen[string(k)] {
				continue
			}
			seen[string(k)] = true
			e := C18Entry{Key: k, TS: uint64(2*rapid.IntRange(0, 12).Draw(t, "sts") + 1), Del: rapid.IntRange(0, 3).Draw(t, "sdel") == 0}
			if !e.Del {
				v := rapid.SampledFrom([][]byte{[]byte("new"), []byte("y"), {0, 0}, []byte("a longer new value"), {}}).Draw(t, "sval")
				if len(v) == 0 && !native {
					// live empty values in shadow mode: listed known finding shadow-empty-value (the projection deletes the key)
					v = []byte("e")
				}
				// native mode: a live entry with an empty value (a deletion only under format version 1)
				e.Val = model.ValOf(v)
			}
			d.Entries = append(d.Entries, e)
		}
		sortC18(int4, d.Entries)
		c.Snap = append(c.Snap, d)
	}
	// version space
	switch rapid.IntRange(0, 5).Draw(t, "vers") {
	case 0:
		c.FV = uint32(rapid.IntRange(0, 4).Draw(t, "fv"))
		c.CV = uint32(rapid.IntRange(0, 4).Draw(t, "cv"))
	case 1:
		c.FV = uint32(rapid.IntRange(1, 2).Draw(t, "fv_old"))
		c.CV = 1
	case 2:
		// written by a newer release that declares itself readable by this build: current meaning of every field
		c.FV = uint32(rapid.IntRange(4, 6).Draw(t, "fv_new"))
		c.CV = uint32(rapid.IntRange(0, 3).Draw(t, "cv_new"))
	}
	if c.FV == 1 {
		// v1 has no flags: deletion is the empty value
		for i := range c.Snap {
			for j := range c.Snap[i].Entries {
				if c.Snap[i].Entries[j].Del {
					c.Snap[i].Entries[j].Val = model.Val{}
				}
			}
		}
	}
	// injected failure
	c.Inject = rapid.SampledFrom([]string{"none", "none", "transform", "malformed", "wire", "rawvalue", "mapfull", "cancel", "private", "override", "dupsort"}).Draw(t, "inject")
	pick := func() *C18SnapDBI { return &c.Snap[rapid.IntRange(0, len(c.Snap)-1).Draw(t, "which")] }
	switch c.Inject {
	case "transform":
		d := pick()
		d.Transform = rapid.SampledFrom([]string{"dupsort_hack_v1", "dupsort_hack_v2", "rot13", "DUPSORT_HACK_V1"}).Draw(t, "transform")
	case "dupsort":
		// dupsort flag, with or without the matching transform, on a DBI that does not exist locally
		d := pick()
		if _, exists := preInt[d.Name]; !exists {
			d.Flags = uint64(lmdb.DupSort)
			if rapid.Bool().Draw(t, "with_transform") {
				d.Transform = "dupsort_hack_v1"
			}
			d.Entries = nil
		} else {
			c.Inject = "none"
		}
	case "malformed":
		d := pick()
		var k []byte
		switch rapid.IntRange(0, 3).Draw(t, "mk") {
		case 0:
			k = []byte{}
		case 1:
			k = bytes.Repeat([]byte{'L'}, 512)
		case 2:
			k = bytes.Repeat([]byte{'M'}, 600)
		default:
			// wrong size for an integer-key DBI (harmless, in-range key for a plain DBI)
			k = bytes.Repeat([]byte{'W'}, rapid.SampledFrom([]int{3, 5, 100, 511}).Draw(t, "wsize"))
		}
		e := C18Entry{Key: k, TS: 99, Val: model.ValOf([]byte("bad"))}
		pos := rapid.IntRange(0, len(d.Entries)).Draw(t, "mpos")
		d.Entries = append(d.Entries[:pos:pos], append([]C18Entry{e}, d.Entries[pos:]...)...)
	case "wire":
		var cands []int
		for i, d := range c.Snap {
			if len(d.Entries) > 0 {
				cands = append(cands, i)
			}
		}
		if len(cands) == 0 {
			c.Inject = "none"
			break
		}
		di := cands[rapid.IntRange(0, len(cands)-1).Draw(t, "wdbi")]
		c.Wire = &C18Wire{DBI: di,
			Entry: rapid.IntRange(0, len(c.Snap[di].Entries)-1).Draw(t, "wentry"),
			Kind:  rapid.SampledFrom([]string{"fixed64", "fixed32", "bytes", "bytes", "varint", "tag", "wt6", "wt7", "cut"}).Draw(t, "wkind"),
			Field: rapid.SampledFrom([]int{5, 15, 16, 100, 2047, 2048, 1 << 20}).Draw(t, "wfield"),
			Keep:  rapid.IntRange(0, 12).Draw(t, "wkeep"),
			Len:   rapid.SampledFrom([]int{1, 1, 2, 5, 127, 128, 300}).Draw(t, "wlen"),
			Head:  rapid.Bool().Draw(t, "whead"),
		}
	case "rawvalue":
		if native && len(c.Pre) > 0 {
			pi := rapid.IntRange(0, len(c.Pre)-1).Draw(t, "rawdbi")
			p := &c.Pre[pi]
			p.RawKey = c18Key(p.Int4, rapid.IntRange(0, 5).Draw(t, "rawkey"))
			for j := 0; j < len(p.Entries); j++ {
				if bytes.Equal(p.Entries[j].Key, p.RawKey) {
					p.Entries = append(p.Entries[:j], p.Entries[j+1:]...)
					j--
				}
			}
			// make sure some snapshot DBI touches that key (maybe not the first one)
			found := false
			for i := range c.Snap {
				if c.Snap[i].Name == p.Name {
					found = true
					has := false
					for _, e := range c.Snap[i].Entries {
						if bytes.Equal(e.Key, p.RawKey) {
							has = true
						}
					}
					if !has {
						c.Snap[i].Entries = append(c.Snap[i].Entries, C18Entry{Key: p.RawKey, TS: 51, Val: model.ValOf([]byte("z"))})
						sortC18(p.Int4, c.Snap[i].Entries)
					}
				}
			}
			if !found {
				d := C18SnapDBI{Name: p.Name, Entries: []C18Entry{{Key: p.RawKey, TS: 51, Val: model.ValOf([]byte("z"))}}}
				if p.Int4 {
					d.Flags = 0x08
				}
				c.Snap = append(c.Snap, d)
			}
		} else {
			c.Inject = "none"
		}
	case "mapfull":
		c.MapKB = rapid.SampledFrom([]int{256, 512, 1024}).Draw(t, "mapkb")
		d := pick()
		if !preInt[d.Name] && d.Flags&0x08 == 0 {
			n := rapid.IntRange(20, 120).Draw(t, "nbig")
			for j := 0; j < n; j++ {
				d.Entries = append(d.Entries, C18Entry{Key: []byte(fmt.Sprintf("zz-big-%04d", j)), TS: 31, Val: model.Val{Len: 8000, Fill: byte('A' + j%26)}})
			}
		}
	case "cancel":
		c.Cancel = true
	case "private":
		priv := C18SnapDBI{Name: rapid.SampledFrom([]string{"_sync_shadow_d0", "_sync_meta", "_sync"}).Draw(t, "pname"),
			Entries: []C18Entry{{Key: []byte("a"), TS: 9999, Val: model.ValOf([]byte("evil"))}}}
		// whatever a private DBI declares (transform, flags) is of no concern: it is ignored as a whole
		switch rapid.IntRange(0, 4).Draw(t, "pshape") {
		case 1:
			priv.Transform = rapid.SampledFrom([]string{"dupsort_hack_v1", "zstd_dict_v1", "rot13"}).Draw(t, "ptransform")
		case 2:
			priv.Flags = uint64(lmdb.DupSort)
		case 3:
			priv.Transform, priv.Flags = "dupsort_hack_v1", 0x08
		}
		pos := rapid.IntRange(0, len(c.Snap)).Draw(t, "ppos")
		c.Snap = append(c.Snap[:pos:pos], append([]C18SnapDBI{priv}, c.Snap[pos:]...)...)
	case "override":
		d := pick()
		f := d.Flags
		d.Override = &f
	}
	// concurrent reader: marker key in two pre-existing, non-integer DBIs
	if rapid.IntRange(0, 3).Draw(t, "reader") == 0 {
		var cands []int
		for i, d := range c.Snap {
			if int4, ok := preInt[d.Name]; ok && !int4 {
				cands = append(cands, i)
			}
		}
		if len(cands) >= 2 {
			c.Reader = true
			for _, i := range []int{cands[0], cands[len(cands)-1]} {
				c.Snap[i].Entries = append(c.Snap[i].Entries, C18Entry{Key: []byte(c18Marker), TS: 71, Val: model.ValOf([]byte("m"))})
				sortC18(false, c.Snap[i].Entries)
			}
		}
	}
	return c
}

func sortC18(int4 bool, es []C18Entry) {
	kind := "plain"
	if int4 {
		kind = "int4"
	}
	for i := 1; i < len(es); i++ {
		for j := i; j > 0 && len(es[j].Key) > 0 && len(es[j-1].Key) > 0 && keyLess(kind, es[j].Key, es[j-1].Key); j-- {
			es[j], es[j-1] = es[j-1], es[j]
		}
	}
}

func TestC18Atomic(t *testing.T) {
	vcore.Run(t, vcore.Config{Property: "C18", Inflight: true,
		Rule: "rapid: pre-existing native or shadow LMDB (0-3 DBIs, plain / integer keys) + snapshot of 1-4 DBIs under format version 0..4 / compat 0..4 with one injected failure class (unsupported or inconsistent transform, dupsort flag, malformed key at any position, one entry damaged at the protobuf wire level (truncated unknown fixed32/fixed64/bytes/varint field, cut tag, invalid wire type, entry cut short; DBI framing intact), stored value without header, map full at a generated fill, cancellation, private DBIs (plain, or declaring transforms / flags that would be refused on an application DBI), override_create_flags) and optionally a concurrent reader; error => byte-exact dump and LastTxnID unchanged; nil => reference merge (v1: empty = deletion); must-refuse and must-accept classes derived from the snapshot; " +
			"non-trivial = refused after >=1 entry/DBI was applied, or accepted with >=2 DBIs under a non-current format version"},
		genC18, checkC18)
}

var _ = syncer.SyncDBIPrefix

package kv

import (
	"bytes"
	"crypto/sha1"
	"encoding/binary"
	"errors"
	"fmt"
	"io"
	"sort"
	"testing"

	"github.com/PowerDNS/lightningstream/lmdbenv/strategy"
	"github.com/PowerDNS/lmdb-go/lmdb"
	"pgregory.net/rapid"

	"verif/harness/internal/gen"
	"verif/harness/internal/lm"
	"verif/harness/internal/model"
	"verif/harness/internal/vcore"
)

// ---------------------------------------------------------------------------
// C19 Update strategies apply exactly the iterator's decisions, in the DBI's key order
// ---------------------------------------------------------------------------

const (
	decKeep    = "keep"    // return the old value (nil when absent)
	decReplace = "replace" // return Val
	decDelete  = "delete"  // return nil
	decAppend  = "append"  // return the old value + "+" + Val: a decision that depends on the stored value
)

type ScriptItem struct {
	Key   model.Bytes `json:"key"`
	Merge string      `json:"merge"`
	Val   model.Bytes `json:"val,omitempty"`
}

type StoredItem struct {
	Key   model.Bytes `json:"key"`
	Val   model.Bytes `json:"val"`
	Clean string      `json:"clean"` // decision when the key is absent from the input
	CVal  model.Bytes `json:"cval,omitempty"`
}

type C19Case struct {
	Strategy string       `json:"strategy"` // update | iterupdate | emptyput
	Kind     string       `json:"kind"`     // plain | int4 | int8 | dupsort
	Stored   []StoredItem `json:"stored"`
	Input    []ScriptItem `json:"input"`
	// Unsorted: the input deliberately violates the DBI order (IterUpdate must refuse it)
	Unsorted bool `json:"unsorted,omitempty"`
}

// scripted implements strategy.Iterator with pure decisions.
type scripted struct {
	items []ScriptItem
	clean map[string]StoredItem // by stored value (values are unique per key)
	cur   int
}

func (s *scripted) Next() ([]byte, error) {
	s.cur++
	if s.cur >= len(s.items) {
		return nil, io.EOF
	}
	return s.items[s.cur].Key, nil
}

func (s *scripted) Merge(old []byte) ([]byte, error) {
	it := s.items[s.cur]
	switch it.Merge {
	case decKeep:
		if len(old) == 0 {
			return nil, nil
		}
		return old, nil
	case decReplace:
		return append([]byte(nil), it.Val...), nil
	case decAppend:
		return append(append(append([]byte(nil), old...), '+'), it.Val...), nil
	default:
		return nil, nil
	}
}

func (s *scripted) Clean(old []byte) ([]byte, error) {
	st, ok := s.clean[string(old)]
	if !ok {
		return nil, fmt.Errorf("harness: Clean called with a value that is not stored: %x", old)
	}
	switch st.Clean {
	case decKeep:
		return old, nil
	case decReplace:
		return append([]byte(nil), st.CVal...), nil
	default:
		return nil, nil
	}
}

func keyLess(kind string, a, b []byte) bool {
	switch kind {
	case "int4":
		return binary.LittleEndian.Uint32(a) < binary.LittleEndian.Uint32(b)
	case "int8":
		return binary.LittleEndian.Uint64(a) < binary.LittleEndian.Uint64(b)
	}
	return bytes.Compare(a, b) < 0
}

func dbiFlags(kind string) uint {
	switch kind {
	case "int4", "int8":
		return 0x08 // MDB_INTEGERKEY
	case "dupsort":
		return lmdb.DupSort
	}
	return 0
}

type pair struct{ k, v string }

func checkC19(c C19Case, o *vcore.Obs) error {
	env := lm.New(16<<20, 4)
	defer env.Close()
	// model
	mdl := map[string][]byte{}
	for _, s := range c.Stored {
		mdl[string(s.Key)] = s.Val
	}
	pairs := map[pair]bool{} // dupsort
	it := &scripted{items: c.Input, clean: map[string]StoredItem{}, cur: -1}
	for _, s := range c.Stored {
		it.clean[string(s.Val)] = s
	}
	var stratErr error
	err := env.Update(func(txn *lmdb.Txn) error {
		dbi, err := txn.OpenDBI("d", lmdb.Create|dbiFlags(c.Kind))
		if err != nil {
			return err
		}
		for _, s := range c.Stored {
			if err := txn.Put(dbi, s.Key, s.Val, 0); err != nil {
				return fmt.Errorf("harness: put stored: %w", err)
			}
		}
		switch c.Strategy {
		case "update":
			stratErr = strategy.Update(txn, dbi, it)
		case "iterupdate":
			stratErr = strategy.IterUpdate(txn, dbi, it)
		case "emptyput":
			stratErr = strategy.EmptyPut(txn, dbi, it)
		}
		return nil
	})
	if err != nil {
		return err
	}
	if c.Unsorted {
		if c.Strategy == "iterupdate" {
			if stratErr == nil {
				return fmt.Errorf("IterUpdate accepted input that violates the DBI order")
			}
			// (the property asks for "an error"; which one is not prescribed)
			o.ClassIf(errors.Is(stratErr, strategy.ErrNotSorted), "refused-with-ErrNotSorted")
			o.NonTrivial(len(c.Input) >= 3)
			o.Class("unsorted-refused")
			return nil
		}
	}
	if stratErr != nil {
		return fmt.Errorf("strategy %s refused valid input: %v", c.Strategy, stratErr)
	}
	// expected content
	switch c.Strategy {
	case "update", "iterupdate":
		inInput := map[string]bool{}
		for _, in := range c.Input {
			inInput[string(in.Key)] = true
			old := mdl[string(in.Key)]
			var nv []byte
			switch in.Merge {
			case decKeep:
				nv = old
			case decReplace:
				nv = in.Val
			case decAppend:
				nv = append(append(append([]byte(nil), old...), '+'), in.Val...)
			}
			if len(nv) == 0 {
				delete(mdl, string(in.Key))
			} else {
				mdl[string(in.Key)] = nv
			}
		}
		if c.Strategy == "iterupdate" {
			for _, s := range c.Stored {
				if inInput[string(s.Key)] {
					continue
				}
				switch s.Clean {
				case decReplace:
					mdl[string(s.Key)] = s.CVal
				case decDelete:
					delete(mdl, string(s.Key))
				}
			}
		}
	case "emptyput":
		for _, in := range c.Input {
			if in.Merge == decReplace && len(in.Val) > 0 {
				pairs[pair{string(in.Key), string(in.Val)}] = true
			}
		}
	}
	dump, err := lm.DumpEnv(env.Env)
	if err != nil {
		return err
	}
	got := dump.DBI("d").Entries
	if c.Strategy == "emptyput" {
		gp := map[pair]bool{}
		for _, e := range got {
			gp[pair{string(e.Key), string(e.Val)}] = true
		}
		if len(gp) != len(got) {
			return fmt.Errorf("duplicate pairs in DBI")
		}
		for p := range pairs {
			if !gp[p] {
				return fmt.Errorf("EmptyPut: pair (%x,%x) missing", p.k, p.v)
			}
		}
		for p := range gp {
			if !pairs[p] {
				return fmt.Errorf("EmptyPut: unexpected pair (%x,%x)", p.k, p.v)
			}
		}
	} else {
		if len(got) != len(mdl) {
			return fmt.Errorf("%s: %d entries, model has %d (got %s)", c.Strategy, len(got), len(mdl), fmtEntries(got))
		}
		for i, e := range got {
			want, ok := mdl[string(e.Key)]
			if !ok {
				return fmt.Errorf("%s: unexpected key %x", c.Strategy, e.Key)
			}
			if !bytes.Equal(want, e.Val) {
				return fmt.Errorf("%s: key %x has %x, model %x", c.Strategy, e.Key, e.Val, want)
			}
			if i > 0 && !keyLess(c.Kind, got[i-1].Key, e.Key) {
				return fmt.Errorf("harness: comparator disagrees with LMDB order")
			}
		}
	}
	// classes
	nEq, decs := 0, map[string]bool{}
	storedKeys := map[string]bool{}
	for _, s := range c.Stored {
		storedKeys[string(s.Key)] = true
	}
	for _, in := range c.Input {
		if storedKeys[string(in.Key)] {
			nEq++
		}
		decs["m-"+in.Merge] = true
		o.Class("merge-" + in.Merge)
	}
	for _, s := range c.Stored {
		decs["c-"+s.Clean] = true
	}
	o.NonTrivial(len(c.Stored) >= 3 && len(c.Input) >= 3 && nEq >= 1 && len(decs) >= 4)
	o.Class("strategy-" + c.Strategy)
	o.Class("kind-" + c.Kind)
	o.ClassIf(len(c.Input) >= 30, "bulk-insertions-before-stored-keys")
	if c.Strategy == "emptyput" {
		asc := true
		for i := 1; i < len(c.Input); i++ {
			if keyLess(c.Kind, c.Input[i].Key, c.Input[i-1].Key) {
				asc = false
			}
		}
		o.ClassIf(!asc, "emptyput-input-not-in-DBI-order")
	}
	o.ClassIf(len(c.Stored) == 0, "stored-empty")
	o.ClassIf(len(c.Input) == 0, "input-empty")
	for _, st := range c.Stored {
		o.ClassIf(len(st.Val) == 0, "stored-empty-value")
	}
	if len(c.Input) > 0 && (c.Kind == "int4" || c.Kind == "int8") {
		z := true
		for _, b := range c.Input[0].Key {
			if b != 0 {
				z = false
			}
		}
		o.ClassIf(z, "first-input-key-integer-0")
	}
	return nil
}

func fmtEntries(es []lm.Entry) string {
	var b bytes.Buffer
	for _, e := range es {
		fmt.Fprintf(&b, "%x=%x ", e.Key, e.Val)
	}
	return b.String()
}

func intKey(kind string, v uint64) []byte {
	if kind == "int4" {
		b := make([]byte, 4)
		binary.LittleEndian.PutUint32(b, uint32(v))
		return b
	}
	b := make([]byte, 8)
	binary.LittleEndian.PutUint64(b, v)
	return b
}

func genKeyUniverse(t *rapid.T, kind string) [][]byte {
	var keys [][]byte
	n := rapid.IntRange(1, 9).Draw(t, "nuniv")
	switch kind {
	case "int4", "int8":
		for i := 0; i < n; i++ {
			var v uint64
			switch rapid.IntRange(0, 5).Draw(t, "ik") {
			case 0:
				v = 0
			case 1:
				v = uint64(rapid.IntRange(1, 5).Draw(t, "ismall"))
			case 2:
				v = rapid.SampledFrom([]uint64{255, 256, 257, 65535, 65536, 1 << 24, 1<<31 - 1, 1 << 31, 1<<32 - 1}).Draw(t, "ibound")
			case 3:
				if kind == "int8" {
					v = rapid.SampledFrom([]uint64{1 << 32, 1<<32 + 1, 1 << 40, 1<<63 - 1, 1 << 63, ^uint64(0)}).Draw(t, "ibig")
				} else {
					v = uint64(rapid.Uint32().Draw(t, "i32"))
				}
			default:
				v = uint64(rapid.Uint32().Draw(t, "iany"))
			}
			keys = append(keys, intKey(kind, v))
		}
	default:
		maxLen := 511
		for i := 0; i < n; i++ {
			var k []byte
			if len(keys) > 0 && rapid.IntRange(0, 2).Draw(t, "derive") == 0 {
				base := keys[rapid.IntRange(0, len(keys)-1).Draw(t, "base")]
				switch rapid.IntRange(0, 3).Draw(t, "dk") {
				case 0:
					k = append(append([]byte{}, base...), 0x00)
				case 1:
					k = append(append([]byte{}, base...), 0xff)
				case 2:
					if len(base) > 1 {
						k = append([]byte{}, base[:len(base)-1]...)
					} else {
						k = []byte{base[0] ^ 1}
					}
				default:
					k = append([]byte{}, base...)
					k[len(k)-1]++
				}
				if len(k) > maxLen {
					k = k[:maxLen]
				}
			} else {
				k = gen.Key(t, "k", maxLen)
			}
			keys = append(keys, k)
		}
	}
	// dedupe + sort in DBI order
	sort.Slice(keys, func(i, j int) bool { return keyLess(kind, keys[i], keys[j]) })
	var out [][]byte
	for i, k := range keys {
		if i == 0 || !bytes.Equal(keys[i-1], k) {
			out = append(out, k)
		}
	}
	return out
}

func genC19(t *rapid.T) C19Case {
	var c C19Case
	c.Strategy = rapid.SampledFrom([]string{"update", "iterupdate", "iterupdate", "emptyput"}).Draw(t, "strategy")
	if c.Strategy == "emptyput" {
		// the syncer rebuilds duplicate-keys DBIs this way; the strategy itself accepts any DBI kind
		c.Kind = rapid.SampledFrom([]string{"dupsort", "dupsort", "dupsort", "plain", "int4", "int8"}).Draw(t, "ekind")
	} else {
		c.Kind = rapid.SampledFrom([]string{"plain", "plain", "int4", "int8"}).Draw(t, "kind")
	}
	univ := genKeyUniverse(t, c.Kind)
	val := func(label string, k []byte, salt byte) model.Bytes {
		// unique per key so that Clean (which gets no key) can find its decision
		h := sha1.Sum(k)
		v := append([]byte{salt}, h[:8]...)
		if len(k) <= 8 {
			v = append(v, k...)
		}
		v = append(v, []byte(fmt.Sprintf("#%d", rapid.IntRange(0, 2).Draw(t, label)))...)
		return v
	}
	// relative position classes by construction
	mode := rapid.SampledFrom([]string{"mixed", "mixed", "mixed", "disjoint-before", "disjoint-after", "equal", "stored-empty", "input-empty"}).Draw(t, "layout")
	for i, k := range univ {
		var st, in bool
		switch mode {
		case "mixed":
			st, in = rapid.Bool().Draw(t, "st"), rapid.Bool().Draw(t, "in")
		case "disjoint-before":
			st, in = i >= len(univ)/2, i < len(univ)/2
		case "disjoint-after":
			st, in = i < len(univ)/2, i >= len(univ)/2
		case "equal":
			st, in = true, true
		case "stored-empty":
			st, in = false, true
		case "input-empty":
			st, in = true, false
		}
		if st && c.Strategy != "emptyput" {
			s := StoredItem{Key: k, Val: val("sv", k, 'S'), Clean: rapid.SampledFrom([]string{decKeep, decReplace, decDelete}).Draw(t, "clean")}
			if s.Clean == decReplace {
				s.CVal = val("cv", k, 'C')
			}
			c.Stored = append(c.Stored, s)
		} else if st {
			// dupsort: stored pairs that EmptyPut must drop
			c.Stored = append(c.Stored, StoredItem{Key: k, Val: val("sv", k, 'S'), Clean: decKeep})
		}
		if in {
			reps := 1
			if c.Strategy == "emptyput" && c.Kind == "dupsort" {
				reps = rapid.IntRange(1, 3).Draw(t, "dups")
			}
			for r := 0; r < reps; r++ {
				item := ScriptItem{Key: k, Merge: rapid.SampledFrom([]string{decKeep, decReplace, decReplace, decDelete, decAppend}).Draw(t, "merge")}
				if item.Merge == decAppend && c.Strategy == "emptyput" {
					item.Merge = decReplace
				}
				if item.Merge == decAppend {
					item.Val = model.Bytes("x")
					if st && c.Strategy != "emptyput" && rapid.IntRange(0, 2).Draw(t, "same_as_merge_nil") == 0 {
						// the stored value happens to be exactly what this decision yields for an ABSENT key ("" + "+" + val): the
						// decision for the STORED value is still another one (stored + "+" + val)
						item.Val = val("av", k, 'A')
						c.Stored[len(c.Stored)-1].Val = append(model.Bytes("+"), item.Val...)
					}
				}
				if item.Merge == decReplace {
					item.Val = val("iv", k, byte('I'+r))
					if rapid.IntRange(0, 5).Draw(t, "same") == 0 && st && c.Strategy != "emptyput" {
						item.Val = c.Stored[len(c.Stored)-1].Val // replace with the identical value: no write
					}
				}
				c.Input = append(c.Input, item)
			}
		}
	}
	// bulk layout (byte-ordered DBI): a few stored keys at the end of the key space, one small stored key that
	// the input replaces first, and several kilobytes of new input keys in between - the stored entries are
	// looked at long before their turn comes, while the pages they live on are rewritten by the insertions
	if c.Strategy != "emptyput" && c.Kind == "plain" && rapid.IntRange(0, 9).Draw(t, "bulk") == 0 {
		c.Stored, c.Input = nil, nil
		c.Stored = append(c.Stored, StoredItem{Key: []byte("0-first"), Val: model.Bytes("S-first"), Clean: decKeep})
		tail := []string{"m", "p", "z"}
		for _, k := range tail {
			s := StoredItem{Key: []byte(k), Val: model.Bytes("stored-value-of-" + k), Clean: rapid.SampledFrom([]string{decKeep, decReplace, decDelete}).Draw(t, "bclean")}
			if s.Clean == decReplace {
				s.CVal = model.Bytes("cleaned-" + k)
			}
			c.Stored = append(c.Stored, s)
		}
		c.Input = append(c.Input, ScriptItem{Key: []byte("0-first"), Merge: decReplace, Val: model.Bytes("I-first")})
		nb := rapid.IntRange(30, 90).Draw(t, "nbulk")
		vl := rapid.SampledFrom([]int{60, 100, 200}).Draw(t, "bulkval")
		for i := 0; i < nb; i++ {
			c.Input = append(c.Input, ScriptItem{Key: []byte(fmt.Sprintf("a%04d", i)), Merge: decReplace, Val: bytes.Repeat([]byte{byte('a' + i%26)}, vl)})
		}
		for _, k := range tail {
			if rapid.Bool().Draw(t, "btail_in") {
				c.Input = append(c.Input, ScriptItem{Key: []byte(k), Merge: rapid.SampledFrom([]string{decAppend, decAppend, decKeep}).Draw(t, "bmerge"), Val: model.Bytes("X")})
			}
		}
		if c.Strategy == "update" && rapid.Bool().Draw(t, "bshuffle") {
			c.Input = rapid.Permutation(c.Input).Draw(t, "bperm")
		}
		return c
	}
	// a stored key with an EMPTY value (legal in LMDB): always also in the input, so that its fate is decided
	// by a merge decision (the value-keyed Clean lookup needs unique stored values)
	if c.Strategy != "emptyput" && len(c.Stored) > 0 && rapid.IntRange(0, 2).Draw(t, "emptystored") == 0 {
		si := rapid.IntRange(0, len(c.Stored)-1).Draw(t, "emptyidx")
		c.Stored[si].Val = model.Bytes{}
		found := false
		for ii := range c.Input {
			if bytes.Equal(c.Input[ii].Key, c.Stored[si].Key) {
				found = true
				if bytes.Equal(c.Input[ii].Val, c.Stored[si].Val) {
					c.Input[ii].Val = model.Bytes("nonempty")
				}
			}
		}
		if !found {
			it := ScriptItem{Key: c.Stored[si].Key, Merge: rapid.SampledFrom([]string{decKeep, decReplace, decDelete}).Draw(t, "emerge")}
			if it.Merge == decReplace {
				it.Val = model.Bytes("was-empty")
			}
			c.Input = append(c.Input, it)
			sort.SliceStable(c.Input, func(i, j int) bool { return keyLess(c.Kind, c.Input[i].Key, c.Input[j].Key) })
		}
	}
	if c.Strategy == "update" && len(c.Input) > 0 && rapid.IntRange(0, 2).Draw(t, "repeat") == 0 {
		// the point update needs neither sorted nor unique input: the same key may come again, and the later
		// decision then applies to what the earlier one left (also when the DBI was empty to begin with)
		for r := rapid.IntRange(1, 3).Draw(t, "nrepeat"); r > 0; r-- {
			src := c.Input[rapid.IntRange(0, len(c.Input)-1).Draw(t, "rep_of")]
			again := ScriptItem{Key: src.Key, Merge: rapid.SampledFrom([]string{decKeep, decAppend, decAppend, decReplace, decDelete}).Draw(t, "rep_merge")}
			switch again.Merge {
			case decAppend:
				again.Val = model.Bytes("r")
			case decReplace:
				again.Val = val("rv", src.Key, 'R')
			}
			c.Input = append(c.Input, again)
		}
	}
	if c.Strategy == "update" && len(c.Input) > 1 && rapid.Bool().Draw(t, "shuffle") {
		// Update does not need sorted input
		perm := rapid.Permutation(c.Input).Draw(t, "perm")
		c.Input = perm
	}
	if c.Strategy == "emptyput" && len(c.Input) > 1 && rapid.Bool().Draw(t, "eshuffle") {
		// rebuild-from-empty does not need sorted input either (the decoded keys of a duplicate-keys DBI do not
		// come in the application DBI's order): any permutation is valid input
		c.Input = rapid.Permutation(c.Input).Draw(t, "eperm")
	}
	if c.Strategy == "iterupdate" && len(c.Input) >= 2 && rapid.IntRange(0, 5).Draw(t, "unsorted?") == 0 {
		c.Unsorted = true
		i := rapid.IntRange(0, len(c.Input)-2).Draw(t, "swap_i")
		if rapid.Bool().Draw(t, "dupkey") {
			c.Input[i+1] = c.Input[i] // duplicate key
		} else {
			c.Input[i], c.Input[i+1] = c.Input[i+1], c.Input[i]
		}
	}
	return c
}

func TestC19Strategies(t *testing.T) {
	vcore.Run(t, vcore.Config{Property: "C19",
		Rule: "rapid: DBI kind {plain, MDB_INTEGERKEY 4/8 bytes, dupsort for EmptyPut}, key universe (1-511 byte keys with 0x00/0xff/prefix neighbours; integers incl. 0, 2^31, 2^32-1, 2^63), stored/input subsets by layout class (mixed, disjoint before/after, equal, one side empty), scripted pure merge/clean decisions {keep, replace, delete}; Update/IterUpdate/EmptyPut vs map model; unsorted or duplicate input must give ErrNotSorted; " +
			"non-trivial = >=3 stored and >=3 input keys, >=1 common key, >=4 distinct decisions"},
		genC19, checkC19)
}

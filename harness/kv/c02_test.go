package kv

import (
	"bytes"
	"fmt"
	"io"
	"testing"

	"github.com/PowerDNS/lightningstream/lmdbenv/header"
	"github.com/PowerDNS/lightningstream/lmdbenv/strategy"
	"github.com/PowerDNS/lightningstream/snapshot"
	"github.com/PowerDNS/lightningstream/syncer"
	"github.com/PowerDNS/lmdb-go/lmdb"
	"pgregory.net/rapid"

	"verif/harness/internal/lm"
	"verif/harness/internal/model"
	"verif/harness/internal/vcore"
)

// ---------------------------------------------------------------------------
// C02 Merging is an order-insensitive join that never moves a key backwards
// ---------------------------------------------------------------------------

// Ver is the logical content of one version of a key.
type Ver struct {
	TS  uint64      `json:"ts"`
	Del bool        `json:"del,omitempty"`
	Val model.Bytes `json:"val"`
	// representation noise that must not matter:
	XFlags byte `json:"xflags,omitempty"` // unknown flag bits set next to the deleted bit
	// JunkVal: an incoming *deleted* entry that nevertheless carries a value (a peer violating the
	// documented MUST); LS must not write it through.
	JunkVal model.Bytes `json:"junk_val,omitempty"`
	// FV: format version of the snapshot this incoming version arrives in (0 = the case's default);
	// versions of one key may arrive in snapshots of different format versions
	FV  uint32 `json:"fv,omitempty"`
	Ext int    `json:"ext,omitempty"` // extension blocks (stored versions only)
}

func (v Ver) String() string {
	if v.Del {
		return fmt.Sprintf("(ts=%d DELETED)", v.TS)
	}
	return fmt.Sprintf("(ts=%d %q)", v.TS, []byte(v.Val))
}

func (v Ver) sameLogical(o Ver) bool {
	return v.TS == o.TS && v.Del == o.Del && bytes.Equal(v.Val, o.Val)
}

// stored encodes the version the way an application (or LS) stores it.
func (v Ver) stored(txn uint64) []byte {
	fl := v.XFlags &^ 1
	if v.Del {
		fl |= 1
	}
	ext := make([]byte, 8*v.Ext)
	for i := range ext {
		ext[i] = byte(0xE0 + i)
	}
	return model.BuildHeader(v.TS, txn, fl, ext, v.Val)
}

func (v Ver) incoming(key []byte, fv uint32) snapshot.KV {
	kv := snapshot.KV{Key: key, Value: v.Val, TimestampNano: v.TS}
	if fv >= 2 && v.Del && len(v.JunkVal) > 0 {
		kv.Value = v.JunkVal
	}
	if fv >= 2 {
		fl := uint32(v.XFlags &^ 1)
		if v.Del {
			fl |= 1
		}
		kv.Flags = fl
	}
	return kv
}

// logicalOf parses stored bytes with the independent header reader.
func logicalOf(b []byte) (Ver, bool, error) {
	if b == nil {
		return Ver{}, false, nil
	}
	h, err := model.ReadHeader(b)
	if err != nil {
		return Ver{}, false, err
	}
	return Ver{TS: h.TS, Del: h.Flags&1 != 0, Val: append(model.Bytes{}, h.AppVal...)}, true, nil
}

type mergeEnv struct {
	FV      uint32 `json:"fv"`
	Cutoff  uint64 `json:"cutoff"`
	Default uint64 `json:"default_ts"`
	Pad     bool   `json:"pad,omitempty"`
}

const c02Txn = 77

func (e mergeEnv) forVer(v Ver) mergeEnv {
	if v.FV != 0 {
		e.FV = v.FV
	}
	return e
}

// mergeOnce runs the merge routine of the code under test for one incoming
// version against stored bytes (nil = absent). It returns a private copy of the
// result (nil = key absent afterwards) and whether the returned slice was the
// stored slice itself.
func mergeOnce(stored []byte, in Ver, e mergeEnv) (out []byte, same bool, err error) {
	e = e.forVer(in)
	d := snapshot.NewDBISize(64 + len(in.Val))
	d.SetName("x")
	d.Append(in.incoming([]byte("k"), e.FV))
	it, err := syncer.NewNativeIterator(e.FV, 1, d, header.Timestamp(e.Default), c02Txn, header.Timestamp(e.Cutoff))
	if err != nil {
		return nil, false, err
	}
	it.HeaderPaddingBlock = e.Pad
	if _, err := it.Next(); err != nil {
		return nil, false, err
	}
	res, err := it.Merge(stored)
	if err != nil {
		return nil, false, err
	}
	if len(res) == 0 {
		return nil, false, nil
	}
	same = len(stored) > 0 && &res[0] == &stored[0] && len(res) == len(stored)
	return append([]byte(nil), res...), same, nil
}

// normIncoming is what the incoming version means logically under the format version.
func normIncoming(in Ver, e mergeEnv) Ver {
	e = e.forVer(in)
	n := Ver{TS: in.TS, Del: in.Del, Val: in.Val}
	if e.FV < 2 {
		n.Del = len(in.Val) == 0
	}
	if n.Del {
		n.Val = model.Bytes{}
	}
	if n.TS == 0 {
		n.TS = e.Default
	}
	if n.Val == nil {
		n.Val = model.Bytes{}
	}
	return n
}

// isStale: a deletion *marker* (deleted flag, format version >= 2) older than the cutoff.
// Version-1 snapshots have no deleted flag; their empty-value deletions are not subject to the
// sweeper clause (DESIGN.md C04 LIM) and are merged like any other version.
func isStale(v Ver, e mergeEnv) bool {
	e = e.forVer(v)
	n := normIncoming(v, e)
	return e.FV >= 2 && n.Del && n.TS < e.Cutoff
}

// checkStep verifies the single-merge clauses and returns the new stored bytes.
func checkStep(stored []byte, in Ver, e mergeEnv) ([]byte, error) {
	before := append([]byte(nil), stored...)
	if stored == nil {
		before = nil
	}
	res, same, err := mergeOnce(stored, in, e)
	if err != nil {
		return nil, fmt.Errorf("merge of %v into %x failed: %v", in, stored, err)
	}
	if !bytes.Equal(before, stored) {
		return nil, fmt.Errorf("merge modified the stored bytes in place")
	}
	old, hadOld, err := logicalOf(stored)
	if err != nil {
		return nil, fmt.Errorf("harness: stored value does not parse: %v", err)
	}
	ni := normIncoming(in, e)
	if res == nil {
		if hadOld {
			return nil, fmt.Errorf("merge of %v removed the stored version %v", in, old)
		}
		if !isStale(in, e) {
			return nil, fmt.Errorf("merge of %v into an absent key added nothing (cutoff %d)", in, e.Cutoff)
		}
		return nil, nil
	}
	got, _, err := logicalOf(res)
	if err != nil {
		return nil, fmt.Errorf("merge result does not parse: %v (%x)", err, res)
	}
	if !hadOld {
		if isStale(in, e) {
			return nil, fmt.Errorf("stale deletion marker %v (cutoff %d) created an entry", in, e.Cutoff)
		}
		if !got.sameLogical(ni) {
			return nil, fmt.Errorf("merge of %v into an absent key stored %v", in, got)
		}
	} else {
		switch {
		case got.sameLogical(old):
			// the incoming version did not win: stored bytes must be returned untouched
			if !bytes.Equal(res, stored) {
				return nil, fmt.Errorf("incoming %v did not win against %v but the stored bytes changed: %x -> %x", in, old, stored, res)
			}
			_ = same
		case got.sameLogical(ni):
			if ni.TS < old.TS {
				return nil, fmt.Errorf("stored %v replaced by older %v", old, ni)
			}
		default:
			return nil, fmt.Errorf("merge of %v into %v produced %v, which is neither", in, old, got)
		}
		if got.TS < old.TS {
			return nil, fmt.Errorf("timestamp moved backwards: %v -> %v", old, got)
		}
		// a strictly newer incoming version replaces the stored one - also when it is a deletion marker
		// older than the stale cutoff: that cutoff only concerns keys that are absent
		if in.TS != 0 && ni.TS > old.TS && !got.sameLogical(ni) {
			return nil, fmt.Errorf("incoming %v is newer than stored %v but did not replace it (cutoff %d): result %v", ni, old, e.Cutoff, got)
		}
	}
	// a value LS wrote is well-formed (C14 clause, checked here for every written value)
	if !bytes.Equal(res, stored) {
		if _, err := model.CheckLSWritten(res, c02Txn, e.Pad); err != nil {
			return nil, fmt.Errorf("value written by merge: %v", err)
		}
	}
	// idempotence: merging the same version again changes nothing, byte for byte
	res2, _, err := mergeOnce(res, in, e)
	if err != nil {
		return nil, err
	}
	if !bytes.Equal(res2, res) {
		return nil, fmt.Errorf("merge not idempotent: %v merged twice gives %x then %x", in, res, res2)
	}
	return res, nil
}

func foldOrder(start []byte, vs []Ver, order []int, e mergeEnv) ([]byte, error) {
	cur := start
	for _, i := range order {
		var err error
		cur, err = checkStep(cur, vs[i], e)
		if err != nil {
			return nil, err
		}
	}
	return cur, nil
}

func perms(n int) [][]int {
	if n == 1 {
		return [][]int{{0}}
	}
	var out [][]int
	for _, p := range perms(n - 1) {
		for i := 0; i <= len(p); i++ {
			q := append(append(append([]int{}, p[:i]...), n-1), p[i:]...)
			out = append(out, q)
		}
	}
	return out
}

type C02Case struct {
	Stored *Ver     `json:"stored"` // nil = absent
	In     []Ver    `json:"in"`
	Env    mergeEnv `json:"env"`
	Dup    bool     `json:"dup,omitempty"` // also merge duplicates
}

func checkC02(c C02Case, o *vcore.Obs) error {
	var start []byte
	if c.Stored != nil {
		start = c.Stored.stored(5)
	}
	// single-step clauses for every incoming version against the stored one
	for _, in := range c.In {
		if _, err := checkStep(start, in, c.Env); err != nil {
			return err
		}
	}
	// order insensitivity over version sets without stale markers (see DESIGN C02 soundness note)
	anyStale := false
	for _, in := range c.In {
		if isStale(in, c.Env) {
			anyStale = true
		}
	}
	// the default-timestamp use is a single capture per step: no order relation there
	usesDefault := false
	for _, in := range c.In {
		if in.TS == 0 && c.Env.Default != 0 {
			usesDefault = true
		}
	}
	// deleted entries that carry a value violate the documented MUST; only the single-step
	// clauses (what LS writes is well-formed) are asserted for them, not the order relations
	anyJunk := false
	for _, in := range c.In {
		if in.Del && len(in.JunkVal) > 0 {
			anyJunk = true
		}
	}
	o.ClassIf(anyJunk, "incoming-deleted-with-junk-value")
	if len(c.In) >= 2 && !anyStale && !usesDefault && !anyJunk {
		var ref *Ver
		var refOrder []int
		for _, p := range perms(len(c.In)) {
			order := p
			if c.Dup {
				order = append(append([]int{}, p...), p[0], p[len(p)-1])
			}
			res, err := foldOrder(start, c.In, order, c.Env)
			if err != nil {
				return err
			}
			got, ok, err := logicalOf(res)
			if err != nil || !ok {
				return fmt.Errorf("fold result missing/unparsable: %v", err)
			}
			if ref == nil {
				g := got
				ref, refOrder = &g, order
				// the winner has the maximal timestamp of the set
				maxTS := uint64(0)
				if c.Stored != nil {
					maxTS = c.Stored.TS
				}
				for _, in := range c.In {
					if n := normIncoming(in, c.Env); n.TS > maxTS {
						maxTS = n.TS
					}
				}
				if got.TS != maxTS {
					return fmt.Errorf("winner %v does not carry the highest timestamp %d", got, maxTS)
				}
			} else if !got.sameLogical(*ref) {
				return fmt.Errorf("merge order matters: order %v gives %v, order %v gives %v (stored %v, incoming %v)", refOrder, *ref, order, got, c.Stored, c.In)
			}
		}
		o.Class("order-relation-checked")
	}
	// classes
	nt := false
	for _, in := range c.In {
		ni := normIncoming(in, c.Env)
		if c.Stored != nil && !ni.sameLogical(Ver{TS: c.Stored.TS, Del: c.Stored.Del, Val: c.Stored.Val}) {
			nt = true
		}
		if c.Stored != nil && ni.TS == c.Stored.TS {
			o.Class("tie")
			if ni.Del != c.Stored.Del || len(ni.Val) == 0 || len(c.Stored.Val) == 0 {
				o.Class("tie-with-deleted-or-empty")
			}
		}
		o.ClassIf(in.TS == 0, "ts-0")
	}
	for i := range c.In {
		for j := i + 1; j < len(c.In); j++ {
			a, b := normIncoming(c.In[i], c.Env), normIncoming(c.In[j], c.Env)
			if a.TS == b.TS && !a.sameLogical(b) {
				o.Class("tie-among-incoming")
				nt = true
			}
		}
	}
	o.ClassIf(c.Env.FV == 1, "format-v1")
	o.ClassIf(anyStale, "stale-marker")
	o.ClassIf(usesDefault, "default-timestamp")
	o.ClassIf(usesDefault && c.Stored != nil && c.Env.Default <= c.Stored.TS, "default-timestamp-not-later-than-stored")
	o.NonTrivial(nt)
	return nil
}

// ---- exhaustive pair grid ---------------------------------------------------

func gridVersions() []Ver {
	var vs []Ver
	for _, ts := range []uint64{0, 1, 2, 3, 5, 9} {
		for _, val := range []string{"", "a", "b", "ab", "\x00"} {
			vs = append(vs, Ver{TS: ts, Val: model.Bytes(val)})
		}
		vs = append(vs, Ver{TS: ts, Del: true, Val: model.Bytes{}})
	}
	return vs
}

func TestC02PairGrid(t *testing.T) {
	vs := gridVersions()
	vcore.RunEnum(t, vcore.Config{Property: "C02",
		Rule: "exhaustive grid: stored in {absent} + 36 versions (6 timestamps incl. 0 x {5 values incl. empty and 0x00, deleted}) x 2 incoming versions from the same 36 x format versions of the two snapshots {(1,1),(2,2),(3,3),(1,3),(3,1)} x cutoff {0, 3, 100}: single-step clauses, idempotence, both orders; non-trivial = stored present and an incoming version differs from it, or two incoming versions tie"},
		func(yield func(C02Case) bool) {
			for si := -1; si < len(vs); si++ {
				for ai := range vs {
					for bi := ai; bi < len(vs); bi++ {
						for _, fvp := range [][2]uint32{{1, 1}, {2, 2}, {3, 3}, {1, 3}, {3, 1}} {
							if (fvp[0] == 1 && vs[ai].Del) || (fvp[1] == 1 && vs[bi].Del) {
								continue // v1 has no flag; deletion is the empty value
							}
							for _, cut := range []uint64{0, 3, 100} {
								a, b := vs[ai], vs[bi]
								a.FV, b.FV = fvp[0], fvp[1]
								c := C02Case{In: []Ver{a, b}, Env: mergeEnv{FV: 3, Cutoff: cut}}
								if si >= 0 {
									s := vs[si]
									c.Stored = &s
								}
								if !yield(c) {
									return
								}
							}
						}
					}
				}
			}
		}, checkC02)
}

// ---- rapid: triples, representation noise, default timestamp ------------------

func genVer(t *rapid.T, label string, stored bool) Ver {
	v := Ver{}
	switch rapid.IntRange(0, 5).Draw(t, label+"_tsk") {
	case 0:
		v.TS = 0
	case 1, 2, 3:
		v.TS = uint64(rapid.IntRange(1, 4).Draw(t, label+"_ts"))
	case 4:
		v.TS = 1_700_000_000_000_000_000 + uint64(rapid.IntRange(0, 3).Draw(t, label+"_tsr"))
	default:
		v.TS = rapid.Uint64Range(0, 1<<63).Draw(t, label+"_tsany")
	}
	if rapid.IntRange(0, 3).Draw(t, label+"_del") == 0 {
		v.Del = true
		v.Val = model.Bytes{}
		if !stored && rapid.IntRange(0, 4).Draw(t, label+"_junk") == 0 {
			v.JunkVal = model.Bytes("junk")
		}
	} else {
		v.Val = rapid.SampledFrom([]model.Bytes{{}, {}, []byte("a"), []byte("b"), []byte("ab"), {0}, {0, 0}, {0xff}, []byte("a\x00"),
			// long values that agree on their first 127 / 128 / 300 bytes and differ after that, or only in length
			c02Long(127, "x"), c02Long(127, "y"), c02Long(128, "x"), c02Long(128, "y"), c02Long(128, ""), c02Long(300, "a"), c02Long(300, "b")}).Draw(t, label+"_val")
		if rapid.IntRange(0, 9).Draw(t, label+"_long") == 0 {
			v.Val = bytes.Repeat([]byte{'z'}, rapid.IntRange(1000, 1100).Draw(t, label+"_vlen")) // beyond the iterator's 1 KiB buffer
		}
	}
	if rapid.IntRange(0, 4).Draw(t, label+"_xf") == 0 {
		v.XFlags = rapid.SampledFrom([]byte{0x02, 0x80, 0xfe}).Draw(t, label+"_xflags")
	}
	if stored && rapid.IntRange(0, 4).Draw(t, label+"_ext") == 0 {
		v.Ext = rapid.IntRange(1, 3).Draw(t, label+"_next")
	}
	return v
}

func genC02(t *rapid.T) C02Case {
	var c C02Case
	c.Env.FV = uint32(rapid.IntRange(1, 3).Draw(t, "fv"))
	c.Env.Pad = rapid.IntRange(0, 5).Draw(t, "pad") == 0
	if rapid.IntRange(0, 2).Draw(t, "stored?") > 0 {
		s := genVer(t, "stored", true)
		c.Stored = &s
	}
	n := rapid.IntRange(1, 3).Draw(t, "n_in")
	for i := 0; i < n; i++ {
		v := genVer(t, fmt.Sprintf("in%d", i), false)
		if rapid.IntRange(0, 2).Draw(t, "ownfv") == 0 {
			v.FV = uint32(rapid.IntRange(1, 3).Draw(t, "vfv"))
		}
		if c.Env.forVer(v).FV == 1 {
			v.Del = len(v.Val) == 0
			v.XFlags = 0
			v.JunkVal = nil
		}
		c.In = append(c.In, v)
	}
	maxTS := uint64(0)
	if c.Stored != nil {
		maxTS = c.Stored.TS
	}
	for _, v := range c.In {
		if v.TS > maxTS {
			maxTS = v.TS
		}
	}
	switch rapid.IntRange(0, 3).Draw(t, "cutoff_k") {
	case 0, 1:
		c.Env.Cutoff = 0
	case 2:
		c.Env.Cutoff = uint64(rapid.IntRange(1, 5).Draw(t, "cutoff"))
	default:
		c.Env.Cutoff = maxTS + 1 // above all
		if c.Env.Cutoff == 0 {
			c.Env.Cutoff = maxTS
		}
	}
	if rapid.IntRange(0, 3).Draw(t, "default?") == 0 && maxTS < 1<<63 {
		// shadow-capture use: normally the default timestamp (the detection time) is later than every
		// stored timestamp; it is not when a peer's clock runs ahead, and the start-up capture of data
		// changed while the syncer was down deliberately uses timestamp 1 - then the captured version
		// is an ordinary older (or equal) version and must not replace a newer stored one
		c.Env.Default = maxTS + 1 + uint64(rapid.IntRange(0, 3).Draw(t, "default_d"))
		if rapid.IntRange(0, 2).Draw(t, "default_low") == 0 {
			c.Env.Default = 1
			if c.Stored != nil && c.Stored.TS > 1 {
				c.Env.Default = rapid.SampledFrom([]uint64{1, c.Stored.TS - 1, c.Stored.TS}).Draw(t, "default_v")
			}
		}
		c.Env.FV = 3
		for i := range c.In {
			c.In[i].TS = 0 // captured versions carry no timestamp
			c.In[i].XFlags = 0
			c.In[i].FV = 0
		}
		c.Env.Cutoff = 0
	}
	c.Dup = rapid.Bool().Draw(t, "dup")
	return c
}

func TestC02Merge(t *testing.T) {
	vcore.Run(t, vcore.Config{Property: "C02",
		Rule: "rapid: stored in {absent, live, deleted} with unknown flag bits / extension blocks, 1-3 incoming versions (tie-prone timestamps incl. 0, values incl. empty, > 1 KiB), format version 1..3, cutoff {0, small, above all}, optional default timestamp (later than, equal to or earlier than the stored timestamp), header padding option; all orders (+duplicates) of the incoming set; non-trivial = stored present and an incoming version differs from it, or incoming versions tie"},
		genC02, checkC02)
}

// ---- through strategy.Update on a real DBI -----------------------------------

type C02Upd struct {
	Keys   []model.Bytes `json:"keys"`
	Stored []*Ver        `json:"stored"` // per key, nil = absent
	Snaps  [][]*Ver      `json:"snaps"`  // snapshot -> per key version or nil
	FV     uint32        `json:"fv"`
	Cutoff uint64        `json:"cutoff"`
	// OneMsg: all rows travel in ONE snapshot DBI message (the same key several times, in the given
	// order) and are merged by a single strategy.Update call - multiplicity and order inside a message
	// must not matter either, also when the DBI is empty to begin with
	OneMsg bool `json:"one_msg,omitempty"`
}

func runUpdates(c C02Upd, order []int) (map[string]Ver, []bool, error) {
	env := lm.New(16<<20, 4)
	defer env.Close()
	err := env.Update(func(txn *lmdb.Txn) error {
		dbi, err := txn.OpenDBI("d", lmdb.Create)
		if err != nil {
			return err
		}
		for i, k := range c.Keys {
			if c.Stored[i] != nil {
				if err := txn.Put(dbi, k, c.Stored[i].stored(uint64(txn.ID())), 0); err != nil {
					return err
				}
			}
		}
		return nil
	})
	if err != nil {
		return nil, nil, err
	}
	wrote := make([]bool, len(order))
	if c.OneMsg {
		err := env.Update(func(txn *lmdb.Txn) error {
			dbi, err := txn.OpenDBI("d", 0)
			if err != nil {
				return err
			}
			d := snapshot.NewDBISize(4096)
			d.SetName("d")
			for _, si := range order {
				for ki, v := range c.Snaps[si] {
					if v != nil {
						d.Append(v.incoming(c.Keys[ki], c.FV))
					}
				}
			}
			it, err := syncer.NewNativeIterator(c.FV, 1, d, 0, header.TxnID(txn.ID()), header.Timestamp(c.Cutoff))
			if err != nil {
				return err
			}
			return strategy.Update(txn, dbi, it)
		})
		if err != nil {
			return nil, nil, fmt.Errorf("strategy.Update: %w", err)
		}
		order = nil
	}
	for oi, si := range order {
		before := lm.LastTxnID(env.Env)
		var beforeDump lm.Dump
		beforeDump, _ = lm.DumpEnv(env.Env)
		err := env.Update(func(txn *lmdb.Txn) error {
			dbi, err := txn.OpenDBI("d", 0)
			if err != nil {
				return err
			}
			d := snapshot.NewDBISize(4096)
			d.SetName("d")
			for ki, v := range c.Snaps[si] {
				if v != nil {
					d.Append(v.incoming(c.Keys[ki], c.FV))
				}
			}
			it, err := syncer.NewNativeIterator(c.FV, 1, d, 0, header.TxnID(txn.ID()), header.Timestamp(c.Cutoff))
			if err != nil {
				return err
			}
			return strategy.Update(txn, dbi, it)
		})
		if err != nil {
			return nil, nil, fmt.Errorf("strategy.Update: %w", err)
		}
		wrote[oi] = lm.LastTxnID(env.Env) != before
		if !wrote[oi] {
			afterDump, _ := lm.DumpEnv(env.Env)
			if d := beforeDump.Diff(afterDump); d != "" {
				return nil, nil, fmt.Errorf("content changed without a recorded transaction: %s", d)
			}
		}
	}
	out := map[string]Ver{}
	dump, err := lm.DumpEnv(env.Env)
	if err != nil {
		return nil, nil, err
	}
	for _, e := range dump.DBI("d").Entries {
		v, _, err := logicalOf(e.Val)
		if err != nil {
			return nil, nil, fmt.Errorf("stored value of %x does not parse after merge: %v", e.Key, err)
		}
		out[string(e.Key)] = v
	}
	return out, wrote, nil
}

func checkC02Upd(c C02Upd, o *vcore.Obs) error {
	e := mergeEnv{FV: c.FV, Cutoff: c.Cutoff}
	stale := false
	for _, s := range c.Snaps {
		for _, v := range s {
			if v != nil && isStale(*v, e) {
				stale = true
			}
		}
	}
	var ref map[string]Ver
	var refOrder []int
	for _, p := range perms(len(c.Snaps)) {
		res, wrote, err := runUpdates(c, p)
		if err != nil {
			return err
		}
		// re-merging a snapshot that was already merged performs no write (checked on the first order)
		if ref == nil {
			again := append(append([]int{}, p...), p...)
			_, w2, err := runUpdates(c, again)
			if err != nil {
				return err
			}
			for i := len(p); i < len(again); i++ {
				if w2[i] && !stale {
					return fmt.Errorf("re-merging already merged snapshot %d committed a write transaction", again[i])
				}
			}
			_ = wrote
			ref, refOrder = res, p
			// argmax per key
			for ki, k := range c.Keys {
				maxTS, any := uint64(0), false
				if c.Stored[ki] != nil {
					maxTS, any = c.Stored[ki].TS, true
				}
				for _, s := range c.Snaps {
					if s[ki] != nil && !isStale(*s[ki], e) {
						any = true
						if n := normIncoming(*s[ki], e); n.TS > maxTS {
							maxTS = n.TS
						}
					}
				}
				got, present := res[string(k)]
				if any && !stale {
					if !present {
						return fmt.Errorf("key %x lost", []byte(k))
					}
					if got.TS != maxTS {
						return fmt.Errorf("key %x: winner %v does not carry the highest timestamp %d", []byte(k), got, maxTS)
					}
				}
				if !any && present {
					return fmt.Errorf("key %x appeared from nowhere: %v", []byte(k), got)
				}
			}
			continue
		}
		if stale {
			continue // order relation not asserted with stale markers
		}
		if len(res) != len(ref) {
			return fmt.Errorf("snapshot order matters: order %v leaves %d keys, order %v leaves %d", refOrder, len(ref), p, len(res))
		}
		for k, v := range ref {
			if g, ok := res[k]; !ok || !g.sameLogical(v) {
				return fmt.Errorf("snapshot order matters for key %x: order %v gives %v, order %v gives %v", k, refOrder, v, p, g)
			}
		}
	}
	conflicts := 0
	for ki := range c.Keys {
		n := 0
		if c.Stored[ki] != nil {
			n++
		}
		for _, s := range c.Snaps {
			if s[ki] != nil {
				n++
			}
		}
		if n >= 2 {
			conflicts++
		}
	}
	o.NonTrivial(conflicts > 0 && len(c.Snaps) >= 2)
	o.ClassIf(stale, "stale-marker")
	return nil
}

func genC02Upd(t *rapid.T) C02Upd {
	var c C02Upd
	nk := rapid.IntRange(1, 4).Draw(t, "nkeys")
	for i := 0; i < nk; i++ {
		c.Keys = append(c.Keys, []byte{byte('a' + i)})
	}
	c.FV = uint32(rapid.IntRange(1, 3).Draw(t, "fv"))
	fix := func(v Ver) *Ver {
		v.JunkVal = nil
		if c.FV == 1 {
			v.Del = len(v.Val) == 0
			v.XFlags = 0
		}
		return &v
	}
	for i := 0; i < nk; i++ {
		if rapid.Bool().Draw(t, "stored?") {
			v := genVer(t, "st", true)
			c.Stored = append(c.Stored, &v)
		} else {
			c.Stored = append(c.Stored, nil)
		}
	}
	ns := rapid.IntRange(1, 3).Draw(t, "nsnaps")
	for s := 0; s < ns; s++ {
		var row []*Ver
		for i := 0; i < nk; i++ {
			if rapid.IntRange(0, 3).Draw(t, "has?") > 0 {
				row = append(row, fix(genVer(t, "sv", false)))
			} else {
				row = append(row, nil)
			}
		}
		c.Snaps = append(c.Snaps, row)
	}
	if rapid.IntRange(0, 3).Draw(t, "cut?") == 0 {
		c.Cutoff = uint64(rapid.IntRange(1, 5).Draw(t, "cut"))
	}
	c.OneMsg = rapid.IntRange(0, 2).Draw(t, "one_msg") == 0
	return c
}

func TestC02Update(t *testing.T) {
	vcore.Run(t, vcore.Config{Property: "C02",
		Rule: "rapid: real LMDB DBI with 1-4 keys (stored versions optional) and 1-3 multi-key snapshots merged with strategy.Update in every order (one call per snapshot, or all of them as one message with repeated keys): same logical content, winner = highest timestamp, re-merge commits no transaction; non-trivial = >=2 snapshots and >=1 key with >=2 versions"},
		genC02Upd, checkC02Upd)
}

var _ = io.EOF

func c02Long(n int, tail string) model.Bytes {
	b := make([]byte, 0, n+len(tail))
	for i := 0; i < n; i++ {
		b = append(b, 'P')
	}
	return append(b, tail...)
}

package kv

import (
	"context"
	"fmt"
	"testing"
	"time"

	"github.com/PowerDNS/lightningstream/config"
	"github.com/PowerDNS/lightningstream/lmdbenv/header"
	"github.com/PowerDNS/lightningstream/snapshot"
	"github.com/PowerDNS/lightningstream/syncer"
	"github.com/PowerDNS/lmdb-go/lmdb"
	"github.com/PowerDNS/simpleblob/backends/memory"
	"pgregory.net/rapid"

	"verif/harness/internal/lm"
	"verif/harness/internal/model"
	"verif/harness/internal/vcore"
)

// ---------------------------------------------------------------------------
// C01 for duplicate-keys DBIs (shadow mode with the dupsort hack): two
// instances, each with its own pairs (one of them possibly without the DBI at
// all, so that it is created from the peer's snapshot), exchange snapshots in
// both directions until nothing changes; optionally one side deletes pairs in
// between. Afterwards the application DBIs are identical: same DBI flags, same
// set of (key, value) pairs.
// ---------------------------------------------------------------------------

type C01Dup struct {
	PairsA []Pair `json:"pairs_a"`
	PairsB []Pair `json:"pairs_b"`
	DelA   []int  `json:"del_a,omitempty"` // indexes into PairsA deleted by A after the first exchange
	BFirst bool   `json:"b_first,omitempty"`
	Rounds int    `json:"rounds"`
}

type dupInst struct {
	name string
	env  *lm.Env
	s    *syncer.Syncer
	st   *memory.Backend
	last header.TxnID
}

func (d *dupInst) send(ctx context.Context) (*snapshot.Snapshot, error) {
	id, err := d.s.SendOnce(ctx, d.env.Env)
	if err != nil {
		return nil, err
	}
	d.last = id
	ls, _ := d.st.List(ctx, "")
	names := ls.Names()
	if len(names) == 0 {
		return nil, nil
	}
	blob, err := d.st.Load(ctx, names[len(names)-1])
	if err != nil {
		return nil, err
	}
	return snapshot.LoadData(blob)
}

func (d *dupInst) load(ctx context.Context, from string, sn *snapshot.Snapshot, seq int) error {
	upd := snapshot.Update{Snapshot: sn, NameInfo: snapshot.NameInfo{Kind: snapshot.KindSnapshot, InstanceID: from, Timestamp: time.Unix(0, int64(seq)), SyncerName: "db", GenerationID: "GX", Extension: snapshot.DefaultExtension}}
	id, lc, err := d.s.LoadOnce(ctx, d.env.Env, from, upd, d.last)
	if err != nil {
		return err
	}
	if !lc {
		d.last = id
	}
	return nil
}

func checkC01Dup(c C01Dup, o *vcore.Obs) error {
	ctx := context.Background()
	mk := func(name string, pairs []Pair) (*dupInst, error) {
		env := lm.New(32<<20, 16)
		s, st := newShadowSyncer(env.Env, name, config.LMDB{SchemaTracksChanges: false, DupSortHack: true})
		d := &dupInst{name: name, env: env, s: s, st: st}
		if len(pairs) == 0 {
			return d, nil
		}
		return d, env.Update(func(txn *lmdb.Txn) error {
			dbi, err := txn.OpenDBI("dup", lmdb.Create|lmdb.DupSort)
			if err != nil {
				return err
			}
			for _, p := range pairs {
				if err := txn.Put(dbi, p.K, p.V.Bytes(), 0); err != nil {
					return err
				}
			}
			return nil
		})
	}
	a, err := mk("a", c.PairsA)
	if err != nil {
		return fmt.Errorf("harness: %v", err)
	}
	defer a.env.Close()
	b, err := mk("b", c.PairsB)
	if err != nil {
		return fmt.Errorf("harness: %v", err)
	}
	defer b.env.Close()
	seq := 0
	exchange := func(x, y *dupInst) error {
		sn, err := x.send(ctx)
		if err != nil {
			return fmt.Errorf("SendOnce on %s: %v", x.name, err)
		}
		if sn == nil {
			return nil
		}
		seq++
		if err := y.load(ctx, x.name, sn, seq); err != nil {
			return fmt.Errorf("LoadOnce of %s's snapshot on %s: %v", x.name, y.name, err)
		}
		return nil
	}
	first, second := a, b
	if c.BFirst {
		first, second = b, a
	}
	hasData := func(d *dupInst) bool { return lm.LastTxnID(d.env.Env) > 0 }
	for r := 0; r < c.Rounds+2; r++ {
		for _, pr := range [][2]*dupInst{{first, second}, {second, first}} {
			if !hasData(pr[0]) {
				continue
			}
			if err := exchange(pr[0], pr[1]); err != nil {
				return fmt.Errorf("round %d: %w", r, err)
			}
		}
		if r == 0 && len(c.DelA) > 0 && len(c.PairsA) > 0 {
			err := a.env.Update(func(txn *lmdb.Txn) error {
				dbi, err := txn.OpenDBI("dup", 0)
				if err != nil {
					return err
				}
				for _, i := range c.DelA {
					p := c.PairsA[i%len(c.PairsA)]
					if err := txn.Del(dbi, p.K, p.V.Bytes()); err != nil && !lmdb.IsNotFound(err) {
						return err
					}
				}
				return nil
			})
			if err != nil {
				return fmt.Errorf("harness: delete: %v", err)
			}
		}
	}
	da, err := lm.DumpEnv(a.env.Env)
	if err != nil {
		return err
	}
	db, err := lm.DumpEnv(b.env.Env)
	if err != nil {
		return err
	}
	xa, xb := da.DBI("dup"), db.DBI("dup")
	if xa == nil && xb == nil {
		o.NonTrivial(false)
		return nil
	}
	if xa == nil || xb == nil {
		return fmt.Errorf("after exchanging snapshots in both directions only one instance has the application DBI (a: %v, b: %v)", xa != nil, xb != nil)
	}
	if xa.Flags != xb.Flags {
		return fmt.Errorf("application DBIs differ after exchanging snapshots in both directions: flags %#x on a, %#x on b", xa.Flags, xb.Flags)
	}
	if xa.Flags&uint(lmdb.DupSort) == 0 {
		return fmt.Errorf("the duplicate-keys DBI has flags %#x", xa.Flags)
	}
	pa, pb := map[string]bool{}, map[string]bool{}
	for _, e := range xa.Entries {
		pa[pairKey(e.Key, e.Val)] = true
	}
	for _, e := range xb.Entries {
		pb[pairKey(e.Key, e.Val)] = true
	}
	for p := range pa {
		if !pb[p] {
			return fmt.Errorf("application DBIs differ after exchanging snapshots in both directions: pair %q only on a (a has %d pairs, b %d)", p, len(pa), len(pb))
		}
	}
	for p := range pb {
		if !pa[p] {
			return fmt.Errorf("application DBIs differ after exchanging snapshots in both directions: pair %q only on b (a has %d pairs, b %d)", p, len(pa), len(pb))
		}
	}
	// nothing written anywhere got lost, except what A deleted
	deleted := map[string]bool{}
	for _, i := range c.DelA {
		if len(c.PairsA) > 0 {
			p := c.PairsA[i%len(c.PairsA)]
			deleted[pairKey(p.K, p.V.Bytes())] = true
		}
	}
	for _, p := range append(append([]Pair{}, c.PairsA...), c.PairsB...) {
		k := pairKey(p.K, p.V.Bytes())
		if !deleted[k] && !pa[k] {
			return fmt.Errorf("pair %q was written and never deleted but is absent everywhere", k)
		}
	}
	o.NonTrivial(len(c.PairsA) > 0 && len(c.PairsB) > 0)
	o.ClassIf(len(c.PairsA) == 0 || len(c.PairsB) == 0, "dbi-created-from-the-peer-snapshot")
	o.ClassIf(len(c.DelA) > 0, "with-deletes")
	return nil
}

func TestC01Dup(t *testing.T) {
	vcore.Run(t, vcore.Config{Property: "C01",
		Rule: "rapid: two shadow-mode instances with the dupsort hack, each with 0-6 pairs in a duplicate-keys DBI (an instance with none gets the DBI created from the peer's snapshot), snapshots exchanged in both directions for 2-4 rounds, optionally with deletions on one side after the first exchange; afterwards identical application DBIs (flags and pair sets), nothing lost; non-trivial = both sides wrote pairs"},
		func(t *rapid.T) C01Dup {
			var c C01Dup
			gp := func(label string) []Pair {
				var ps []Pair
				for i := rapid.IntRange(0, 6).Draw(t, label+"_n"); i > 0; i-- {
					ps = append(ps, Pair{K: []byte(rapid.StringMatching("[a-c]{1,2}").Draw(t, label+"_k")), V: model.ValOf([]byte(rapid.StringMatching("[x-z]{1,3}").Draw(t, label+"_v")))})
				}
				return ps
			}
			c.PairsA, c.PairsB = gp("a"), gp("b")
			if rapid.Bool().Draw(t, "del") {
				c.DelA = rapid.SliceOfN(rapid.IntRange(0, 5), 1, 3).Draw(t, "del_a")
			}
			c.BFirst = rapid.Bool().Draw(t, "b_first")
			c.Rounds = rapid.IntRange(0, 2).Draw(t, "rounds")
			return c
		}, checkC01Dup)
}

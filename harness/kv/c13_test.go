package kv

import (
	"bytes"
	"context"
	"fmt"
	"sort"
	"strings"
	"sync"
	"sync/atomic"
	"testing"
	"time"

	"github.com/PowerDNS/lightningstream/config"
	"github.com/PowerDNS/lightningstream/syncer/sweeper"
	"github.com/PowerDNS/lightningstream/utils/vhook"
	"github.com/PowerDNS/lmdb-go/lmdb"
	"github.com/sirupsen/logrus"
	"pgregory.net/rapid"

	"verif/harness/internal/lm"
	"verif/harness/internal/model"
	"verif/harness/internal/vcore"
)

// ---------------------------------------------------------------------------
// C13 The tomb sweeper removes exactly the expired deletion markers
// ---------------------------------------------------------------------------

// entry kinds (timestamps relative to now - retention)
const (
	kLiveOld = iota // live entry, very old timestamp
	kLiveNew
	kMarkFar    // marker, days older than the cutoff
	kMarkNear   // marker, 10 s older than the cutoff
	kMarkYoung  // marker, 10 s younger than the cutoff
	kMarkNow    // marker stamped now
	kMarkFuture // marker from the future
	kMarkZero   // marker with timestamp 0
	kLiveZero   // live entry with timestamp 0
	nKinds
)

type C13DBI struct {
	Name    string `json:"name"`
	N       int    `json:"n"`
	Pattern []int  `json:"pattern"`         // entry i has kind Pattern[i % len]
	Plain   bool   `json:"plain,omitempty"` // application DBI in non-native mode: plain values (some look like expired markers)
}

type C13Op struct {
	Kind string `json:"kind"` // rewrite-last | delete-last | insert-after | marker-after | touch | revive-last
	Off  int    `json:"off"`
	K    int    `json:"k"` // entry kind for written values
}

type C13Case struct {
	Native        bool      `json:"native"`
	RetentionDays float32   `json:"retention_days"`
	LockNs        int64     `json:"lock_ns"`
	DBIs          []C13DBI  `json:"dbis"`
	Ops           [][]C13Op `json:"ops"` // ops executed at the i-th between-slices yield
	FreeWriter    bool      `json:"free_writer,omitempty"`
	// Held: an application transaction with these changes (on the first swept DBI) is OPEN - holding the LMDB write
	// lock - when the pass starts and commits 3 ms later: whatever the sweeper looked at before it got the lock is
	// stale by then
	Held []C13Op `json:"held,omitempty"`
}

func c13Key(i int) []byte { return []byte(fmt.Sprintf("k%07d", i)) }

// nanoClamp: timestamps are unsigned; times before 1970 do not exist as timestamps
func nanoClamp(t time.Time) uint64 {
	n := t.UnixNano()
	if n < 0 {
		return 0
	}
	return uint64(n)
}

func c13TS(kind int, base time.Time, r time.Duration) uint64 {
	cut := base.Add(-r)
	switch kind {
	case kLiveOld, kMarkFar:
		return nanoClamp(cut.Add(-72 * time.Hour))
	case kLiveNew, kMarkNow:
		return uint64(base.UnixNano())
	case kMarkNear:
		return nanoClamp(cut.Add(-10 * time.Second))
	case kMarkYoung:
		if cut.UnixNano() < 0 {
			return uint64(base.Add(-24 * time.Hour).UnixNano()) // retention reaches before 1970: any past time is young
		}
		return nanoClamp(cut.Add(10 * time.Second))
	case kMarkFuture:
		return uint64(base.Add(48 * time.Hour).UnixNano())
	}
	return 0
}

func c13IsMarker(kind int) bool {
	switch kind {
	case kMarkFar, kMarkNear, kMarkYoung, kMarkNow, kMarkFuture, kMarkZero:
		return true
	}
	return false
}

func c13Val(kind int, base time.Time, r time.Duration, salt int) []byte {
	ts := c13TS(kind, base, r)
	// a header may carry 8-byte extension blocks (Lightning Stream itself writes one with the padding option), and a
	// native application may leave bytes behind the header of an entry it flags as deleted: "any database contents"
	var ext []byte
	switch salt % 7 {
	case 3:
		ext = make([]byte, 8)
	case 5:
		ext = make([]byte, 24)
	}
	// flag bits outside the synced set (application-local flags) may be set on any entry: only the deleted flag
	// makes an entry a marker
	local := byte(0)
	switch salt % 13 {
	case 4:
		local = 0x02
	case 9:
		local = 0xc0
	}
	if c13IsMarker(kind) {
		var left []byte
		if salt%11 == 6 {
			left = []byte("left-over payload of a deleted entry")
		}
		return model.BuildHeader(ts, 3, 1|local, ext, left)
	}
	return model.BuildHeader(ts, 3, local, ext, []byte(fmt.Sprintf("v%d", salt)))
}

type c13State struct {
	val     []byte
	touched bool // written or deleted by the application during the pass
	present bool
}

func checkC13(c C13Case, o *vcore.Obs) error {
	env := lm.New(256<<20, 16)
	defer env.Close()
	r := time.Duration(c.RetentionDays * float32(24*time.Hour))
	base := time.Now()
	states := map[string]map[string]*c13State{}
	var names []string
	err := env.Update(func(txn *lmdb.Txn) error {
		for _, d := range c.DBIs {
			dbi, err := txn.OpenDBI(d.Name, lmdb.Create)
			if err != nil {
				return err
			}
			names = append(names, d.Name)
			states[d.Name] = map[string]*c13State{}
			for i := 0; i < d.N; i++ {
				kind := d.Pattern[i%len(d.Pattern)]
				v := c13Val(kind, base, r, i)
				k := c13Key(2 * i) // even numbers: room to insert between
				if err := txn.Put(dbi, k, v, lmdb.Append); err != nil {
					return err
				}
				states[d.Name][string(k)] = &c13State{val: v, present: true}
			}
		}
		return nil
	})
	if err != nil {
		return fmt.Errorf("harness: prefill: %v", err)
	}
	sort.Strings(names)
	swept := func(name string) bool {
		return c.Native || strings.HasPrefix(name, "_sync")
	}

	// --- simulation of the scan position (only used to aim the application's writes)
	var mu sync.Mutex
	sortedKeys := func(name string) []string {
		var ks []string
		for k, st := range states[name] {
			if st.present {
				ks = append(ks, k)
			}
		}
		sort.Strings(ks)
		return ks
	}
	simDBI := 0
	var simLast string
	simLastVal := []byte(nil)
	advanceSim := func() (dbiName string, lastKey string, ok bool) {
		// one slice = 1000 records after the previous position in the current swept DBI
		for simDBI < len(names) {
			name := names[simDBI]
			if !swept(name) {
				simDBI++
				simLast, simLastVal = "", nil
				continue
			}
			ks := sortedKeys(name)
			start := 0
			if simLast != "" {
				start = sort.SearchStrings(ks, simLast)
				if start < len(ks) && ks[start] == simLast && bytes.Equal(states[name][simLast].val, simLastVal) {
					start++
				}
			}
			if len(ks)-start >= 1000 {
				lk := ks[start+999]
				simLast, simLastVal = lk, states[name][lk].val
				return name, lk, true
			}
			// DBI finishes within this slice: no yield for it, go to the next DBI
			simDBI++
			simLast, simLastVal = "", nil
		}
		return "", "", false
	}
	// the sweeper removes expired markers as it goes; mirror that in the simulation so the
	// positions stay aligned (aiming only)
	simSweep := func(name, upTo string) {
		cut := uint64(base.Add(-r).UnixNano())
		for k, st := range states[name] {
			if st.present && !st.touched && k <= upTo {
				if h, err := model.ReadHeader(st.val); err == nil && h.Flags&1 != 0 && h.TS < cut-uint64(5*time.Second) {
					_ = h
				}
			}
		}
	}
	_ = simSweep

	var applyOpsHold func(name, lastKey string, ops []C13Op, hold func()) error
	applyOps := func(name, lastKey string, ops []C13Op) error { return applyOpsHold(name, lastKey, ops, nil) }
	applyOpsHold = func(name, lastKey string, ops []C13Op, hold func()) error {
		return env.Update(func(txn *lmdb.Txn) error {
			if hold != nil {
				defer hold()
			}
			dbi, err := txn.OpenDBI(name, 0)
			if err != nil {
				return err
			}
			put := func(k string, v []byte) error {
				if err := txn.Put(dbi, []byte(k), v, 0); err != nil {
					return err
				}
				st := states[name][k]
				if st == nil {
					st = &c13State{}
					states[name][k] = st
				}
				st.val, st.present, st.touched = v, true, true
				return nil
			}
			del := func(k string) error {
				if err := txn.Del(dbi, []byte(k), nil); err != nil && !lmdb.IsNotFound(err) {
					return err
				}
				if st := states[name][k]; st != nil {
					st.present, st.touched = false, true
				}
				return nil
			}
			var idx int
			fmt.Sscanf(lastKey, "k%07d", &idx)
			for oi, op := range ops {
				switch op.Kind {
				case "rewrite-last":
					if err := put(lastKey, c13Val(op.K%nKinds, base, r, 900000+oi)); err != nil {
						return err
					}
				case "delete-last":
					if err := del(lastKey); err != nil {
						return err
					}
				case "insert-after":
					if err := put(string(c13Key(idx+1)), c13Val(op.K%nKinds, base, r, 800000+oi)); err != nil {
						return err
					}
				case "marker-after":
					if err := put(string(c13Key(idx+1)), c13Val(kMarkFar, base, r, 0)); err != nil {
						return err
					}
				case "touch":
					k := string(c13Key(2 * (op.Off % 4000)))
					if err := put(k, c13Val(op.K%nKinds, base, r, 700000+oi)); err != nil {
						return err
					}
				case "delete-any":
					if err := del(string(c13Key(2 * (op.Off % 4000)))); err != nil {
						return err
					}
				}
			}
			return nil
		})
	}

	yields := 0
	var hookErr atomic.Value
	sliced := false
	lastTouched := false
	vhook.Set(func(scope, point string, n uint64) {
		if scope != "c13db" || point != "sweep.between-slices" {
			return
		}
		mu.Lock()
		defer mu.Unlock()
		sliced = true
		name, lastKey, ok := advanceSim()
		if ok && yields < len(c.Ops) && len(c.Ops[yields]) > 0 {
			if err := applyOps(name, lastKey, c.Ops[yields]); err != nil {
				hookErr.Store(err.Error())
			}
			for _, op := range c.Ops[yields] {
				if op.Kind == "rewrite-last" || op.Kind == "delete-last" {
					lastTouched = true
				}
			}
		}
		yields++
	})
	defer vhook.Set(nil)

	conf := config.Sweeper{Enabled: true, RetentionDays: c.RetentionDays, LockDuration: time.Duration(c.LockNs), ReleaseDuration: 0}
	sw := sweeper.New("c13db", conf, env.Env, logrus.StandardLogger(), c.Native)

	// optional free-running application writer
	var wg sync.WaitGroup
	var stop atomic.Bool
	if c.FreeWriter {
		wg.Add(1)
		go func() {
			defer wg.Done()
			i := 0
			for !stop.Load() {
				i++
				mu.Lock()
				name := names[i%len(names)]
				if swept(name) {
					_ = applyOps(name, string(c13Key(2*((i*37)%3000))), []C13Op{{Kind: []string{"rewrite-last", "delete-last", "insert-after", "marker-after"}[i%4], K: i}})
				}
				mu.Unlock()
				time.Sleep(50 * time.Microsecond)
			}
		}()
	}

	var heldDone chan error
	if len(c.Held) > 0 {
		first := ""
		for _, n := range names {
			if swept(n) && first == "" {
				first = n
			}
		}
		if first != "" {
			holding, release := make(chan struct{}), make(chan struct{})
			heldDone = make(chan error, 1)
			go func() {
				mu.Lock()
				defer mu.Unlock()
				heldDone <- applyOpsHold(first, string(c13Key(0)), c.Held, func() { close(holding); <-release })
			}()
			select {
			case <-holding:
			case <-time.After(20 * time.Second):
				close(release)
				return fmt.Errorf("harness: no write lock within 20 s")
			}
			go func() { time.Sleep(3 * time.Millisecond); close(release) }()
		}
	}
	tStart := time.Now()
	err = sw.VerifSweepOnce(context.Background())
	tEnd := time.Now()
	if heldDone != nil {
		if herr := <-heldDone; herr != nil {
			return fmt.Errorf("harness: held application transaction: %v", herr)
		}
	}
	stop.Store(true)
	wg.Wait()
	if err != nil {
		return fmt.Errorf("sweep pass failed: %v", err)
	}
	if v := hookErr.Load(); v != nil {
		return fmt.Errorf("harness: application write between slices failed: %v", v)
	}

	cutGone := nanoClamp(tStart.Add(-r)) // markers older than this at the start of the pass must be gone
	cutKeep := nanoClamp(tEnd.Add(-r))   // markers at least this young must stay
	dump, err := lm.DumpEnv(env.Env)
	if err != nil {
		return err
	}
	nExpired, nYoung, nLive := 0, 0, 0
	for _, name := range names {
		got := map[string][]byte{}
		d := dump.DBI(name)
		if d == nil {
			return fmt.Errorf("DBI %q disappeared", name)
		}
		for _, e := range d.Entries {
			got[string(e.Key)] = e.Val
		}
		for k, st := range states[name] {
			gv, present := got[k]
			if !swept(name) {
				// application data in non-native mode: never touched
				if st.present != present || (present && !bytes.Equal(gv, st.val)) {
					return fmt.Errorf("non-native mode: application DBI %q key %s changed by the sweeper", name, k)
				}
				continue
			}
			if !st.present {
				if present {
					return fmt.Errorf("DBI %q key %s: deleted by the application but present after the pass", name, k)
				}
				continue
			}
			h, herr := model.ReadHeader(st.val)
			if herr != nil {
				return fmt.Errorf("harness: bad value")
			}
			isMarker := h.Flags&1 != 0
			switch {
			case !isMarker:
				nLive++
				if !present || !bytes.Equal(gv, st.val) {
					return fmt.Errorf("DBI %q key %s: live entry (ts %d) removed or altered by the sweeper (present=%v)", name, k, h.TS, present)
				}
			case h.TS >= cutKeep:
				nYoung++
				if !present || !bytes.Equal(gv, st.val) {
					return fmt.Errorf("DBI %q key %s: marker younger than the retention (ts %d >= %d) removed or altered", name, k, h.TS, cutKeep)
				}
			case h.TS < cutGone:
				nExpired++
				if st.touched {
					// written during the pass: may or may not have been visited afterwards
					if present && !bytes.Equal(gv, st.val) {
						return fmt.Errorf("DBI %q key %s: value altered", name, k)
					}
				} else if present {
					return fmt.Errorf("DBI %q key %s: expired marker (ts %d < %d) that stayed unchanged survived the pass", name, k, h.TS, cutGone)
				}
			default:
				if present && !bytes.Equal(gv, st.val) {
					return fmt.Errorf("DBI %q key %s: value altered", name, k)
				}
			}
		}
		for k := range got {
			if states[name][k] == nil {
				return fmt.Errorf("DBI %q: unexpected key %s", name, k)
			}
		}
	}
	if len(dump.DBIs) != len(names) {
		return fmt.Errorf("DBI set changed")
	}
	o.NonTrivial(nExpired >= 1 && nYoung >= 1 && nLive >= 1)
	o.ClassIf(sliced, "pass-sliced")
	o.ClassIf(lastTouched, "slice-boundary-key-rewritten-or-deleted")
	o.ClassIf(c.FreeWriter, "free-running-writer")
	o.ClassIf(heldDone != nil, "app-txn-open-when-the-pass-started")
	o.ClassIf(!c.Native, "non-native")
	o.ClassIf(tStart.Add(-r).UnixNano() < 0, "retention-reaches-before-1970")
	return nil
}

func genC13(t *rapid.T) C13Case {
	var c C13Case
	c.Native = rapid.IntRange(0, 3).Draw(t, "native") > 0
	c.RetentionDays = rapid.SampledFrom([]float32{0.5, 1, 7, 370, 370, 20000, 36500, 106751}).Draw(t, "retention")
	c.LockNs = rapid.SampledFrom([]int64{1, 1, int64(time.Hour)}).Draw(t, "lock")
	nd := rapid.IntRange(1, 3).Draw(t, "ndbi")
	for i := 0; i < nd; i++ {
		d := C13DBI{}
		if c.Native {
			d.Name = fmt.Sprintf("data%d", i)
		} else if i == 0 {
			d.Name = "_sync_shadow_app"
		} else if i == 1 {
			// application DBI; values crafted to look like expired markers; whatever its name contains, only
			// a name that STARTS with the private prefix belongs to Lightning Stream
			d.Name = rapid.SampledFrom([]string{"app", "app", "zone_sync_state", "jobs_sync", "old_sync_shadow_app", "a_sync"}).Draw(t, "appname")
			d.Plain = true
		} else {
			d.Name = "_sync_shadow_other"
		}
		switch rapid.IntRange(0, 5).Draw(t, "size") {
		case 0:
			d.N = rapid.IntRange(0, 5).Draw(t, "n_tiny")
		case 1, 2:
			d.N = rapid.IntRange(6, 300).Draw(t, "n_small")
		case 3:
			d.N = rapid.SampledFrom([]int{999, 1000, 1001, 2000, 2001}).Draw(t, "n_boundary")
		default:
			d.N = rapid.IntRange(1001, 3500).Draw(t, "n_big")
		}
		pl := rapid.IntRange(1, 7).Draw(t, "plen")
		for j := 0; j < pl; j++ {
			d.Pattern = append(d.Pattern, rapid.IntRange(0, nKinds-1).Draw(t, "kind"))
		}
		c.DBIs = append(c.DBIs, d)
	}
	ny := rapid.IntRange(0, 6).Draw(t, "nyields")
	for i := 0; i < ny; i++ {
		n := rapid.IntRange(0, 3).Draw(t, "nops")
		var ops []C13Op
		for j := 0; j < n; j++ {
			ops = append(ops, C13Op{
				Kind: rapid.SampledFrom([]string{"rewrite-last", "delete-last", "insert-after", "marker-after", "touch", "delete-any"}).Draw(t, "opkind"),
				Off:  rapid.IntRange(0, 3999).Draw(t, "off"),
				K:    rapid.IntRange(0, nKinds-1).Draw(t, "opk"),
			})
		}
		c.Ops = append(c.Ops, ops)
	}
	if rapid.IntRange(0, 2).Draw(t, "held?") == 0 {
		// rewrite entries near the start of the first DBI (expired markers among them) as live entries / fresh markers
		for j := rapid.IntRange(1, 4).Draw(t, "nheld"); j > 0; j-- {
			c.Held = append(c.Held, C13Op{Kind: rapid.SampledFrom([]string{"touch", "touch", "touch", "delete-any"}).Draw(t, "hkind"),
				Off: rapid.IntRange(0, 40).Draw(t, "hoff"), K: rapid.SampledFrom([]int{kLiveNew, kLiveNew, kMarkNow, kMarkYoung, kLiveOld}).Draw(t, "hk")})
		}
	}
	c.FreeWriter = vcore.Thorough() && rapid.IntRange(0, 4).Draw(t, "free") == 0
	return c
}

func TestC13Sweeper(t *testing.T) {
	vcore.Run(t, vcore.Config{Property: "C13",
		Rule: "rapid: 1-3 DBIs x 0-3500 entries from a generated kind pattern (live old/new/ts 0, markers days/10 s older than the cutoff, 10 s younger, now, future, ts 0), retention {0.5, 1, 7, 370, 20000, 36500, 106751} days (the last ones reach back before 1970), lock duration {1 ns => a slice every 1000 records, 1 h}, native and non-native (application DBI holding values that look like expired markers, under names that may contain but never start with the private prefix), application writes injected at the between-slices yield point aimed at the last scanned key (rewrite / delete / insert after / expired marker after / random touch), free-running writer in the thorough tier; " +
			"non-trivial = >=1 expired marker, >=1 young marker and >=1 live entry in swept DBIs"},
		genC13, checkC13)
}

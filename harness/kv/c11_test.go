package kv

import (
	"bytes"
	"context"
	"fmt"
	"testing"
	"time"

	"github.com/PowerDNS/lightningstream/config"
	"github.com/PowerDNS/lightningstream/lmdbenv/header"
	"github.com/PowerDNS/lightningstream/snapshot"
	"github.com/PowerDNS/lightningstream/syncer"
	"github.com/PowerDNS/lmdb-go/lmdb"
	"github.com/PowerDNS/simpleblob/backends/memory"
	"pgregory.net/rapid"

	"verif/harness/internal/lm"
	"verif/harness/internal/model"
	"verif/harness/internal/vcore"
)

// ---------------------------------------------------------------------------
// C11 Shadow mode mirrors application data faithfully in both directions
// ---------------------------------------------------------------------------

type AppChange struct {
	DBI int         `json:"dbi"`
	Key int         `json:"key"` // index into the key pool of that DBI
	Op  string      `json:"op"`  // put | del
	Val model.Bytes `json:"val,omitempty"`
}

type RemoteEntry struct {
	DBI int         `json:"dbi"`
	Key int         `json:"key"`
	Age int         `json:"age"` // timestamp = some earlier clock value (see remoteTS)
	Del bool        `json:"del,omitempty"`
	Val model.Bytes `json:"val,omitempty"`
	// Payload (Del): the deletion marker still carries a value on the wire (written by another tool / version, or by
	// a native-schema application that flags an entry and leaves the payload in place): it is a deletion all the same
	Payload model.Bytes `json:"payload,omitempty"`
}

type C11Op struct {
	Kind    string        `json:"kind"` // app | capture | remote | send
	Changes []AppChange   `json:"changes,omitempty"`
	Remote  []RemoteEntry `json:"remote,omitempty"`
}

type C11Case struct {
	Drive string   `json:"drive"` // a: explicit capture timestamps through the guarded wrappers; b: SendOnce/LoadOnce with wall-clock stamps
	Kinds []string `json:"kinds"` // per DBI: plain | int4 | int8
	Ops   []C11Op  `json:"ops"`
	// ExcludedEmpty counts live empty values redirected to non-empty because of known finding
	// "shadow-empty-value".
	ExcludedEmpty int  `json:"excluded_empty,omitempty"`
	AllowEmpty    bool `json:"allow_empty,omitempty"` // only set by the known-finding reproduction
	// Pad: header_extra_padding_block (merged values are written with an 8-byte zero extension block, also
	// into shadow DBIs): the extension is not part of the application's value
	Pad bool `json:"pad,omitempty"`
	// CaptureOnly: the history consists of application changes and capture passes only. Live empty values
	// are then part of the domain: the listed known finding is about the copy-back of a merge, the capture
	// of an empty value (insert or overwrite) as a live version is not affected by it.
	CaptureOnly bool `json:"capture_only,omitempty"`
	// Sweeper: sweeper.enabled is set (retention 370 days): every merge gets a stale-marker cutoff
	Sweeper bool `json:"sweeper,omitempty"`
}

var c11DBINames = []string{"alpha", "beta", "gamma"}

func c11Key(kind string, idx int) []byte {
	switch kind {
	case "int4":
		vals := []uint64{0, 1, 2, 255, 256, 1 << 31, 1<<32 - 1, 70000}
		return intKey("int4", vals[idx%len(vals)])
	case "int8":
		vals := []uint64{0, 1, 1 << 32, 1<<32 - 1, 1 << 63, ^uint64(0), 258, 3}
		return intKey("int8", vals[idx%len(vals)])
	}
	keys := [][]byte{[]byte("a"), []byte("b"), []byte("ab"), {0}, {0xff}, []byte("a\x00"), bytes.Repeat([]byte{'k'}, 511), []byte("c")}
	return keys[idx%len(keys)]
}

func newShadowSyncer(env *lmdb.Env, inst string, lc config.LMDB) (*syncer.Syncer, *memory.Backend) {
	return newShadowSyncerSw(env, inst, lc, false)
}

// newShadowSyncerSw: with the tomb sweeper enabled or disabled in the configuration (it never runs here; the
// setting changes the stale-marker cutoff handed to every merge).
func newShadowSyncerSw(env *lmdb.Env, inst string, lc config.LMDB, sweeperEnabled bool) (*syncer.Syncer, *memory.Backend) {
	st := memory.New()
	conf := config.Config{Instance: inst, StorageRetryCount: 1, StorageRetryInterval: time.Millisecond,
		LMDBPollInterval: time.Millisecond, StoragePollInterval: time.Millisecond,
		MemoryDownloadedSnapshots: 2, MemoryDecompressedSnapshots: 2,
		// shipped defaults: sweeper disabled, with its parameters set
		Sweeper: config.Sweeper{Enabled: sweeperEnabled, RetentionDays: 370, Interval: 6 * time.Hour, FirstInterval: 10 * time.Minute,
			LockDuration: 50 * time.Millisecond, ReleaseDuration: 50 * time.Millisecond}}
	s, err := syncer.New("db", env, st, conf, lc, syncer.Options{})
	if err != nil {
		panic(err)
	}
	return s, st
}

func mkUpdate(m model.Snap, ts time.Time) snapshot.Update {
	pb, err := m.ToGogo().Marshal()
	if err != nil {
		panic(err)
	}
	var s snapshot.Snapshot
	if err := s.Unmarshal(pb); err != nil {
		panic(fmt.Sprintf("harness: snapshot does not load: %v", err))
	}
	return snapshot.Update{Snapshot: &s, NameInfo: snapshot.NameInfo{Kind: snapshot.KindSnapshot, InstanceID: m.Meta.InstanceID, Timestamp: ts, SyncerName: "db", GenerationID: "GX", Extension: snapshot.DefaultExtension}}
}

func kindFlags(kind string) uint64 {
	if kind == "int4" || kind == "int8" {
		return 0x08
	}
	return 0
}

// compareMirror checks application DBIs and shadow DBIs against the model.
// shadowTS: when non-nil, entries whose model timestamp equals tsPending are
// accepted with any timestamp in [lo,hi] (wall-clock drive), all the same, and
// the model adopts the observed value.
func compareMirror(env *lmdb.Env, m *model.Mirror, lastLSTxn uint64, bracket *[2]uint64, pad ...bool) error {
	padOK := len(pad) > 0 && pad[0] // header_extra_padding_block: values written by a merge carry one zero extension block
	dump, err := lm.DumpEnv(env)
	if err != nil {
		return err
	}
	seen := map[string]bool{}
	var adopted uint64
	for name, d := range m.DBIs {
		if d.HasMain {
			seen[name] = true
			got := dump.DBI(name)
			if got == nil {
				return fmt.Errorf("application DBI %q missing", name)
			}
			if uint64(got.Flags)&0x08 != kindFlags(d.Kind) {
				return fmt.Errorf("application DBI %q has flags %#x", name, got.Flags)
			}
			keys := model.SortedKeys(d.Kind, d.Main)
			if len(keys) != len(got.Entries) {
				return fmt.Errorf("application DBI %q: %d entries, model %d: got %s want keys %x", name, len(got.Entries), len(keys), fmtEntries(got.Entries), keys)
			}
			for i, k := range keys {
				if string(got.Entries[i].Key) != k || !bytes.Equal(got.Entries[i].Val, d.Main[k]) {
					return fmt.Errorf("application DBI %q entry %d: got %x=%x, model %x=%x", name, i, got.Entries[i].Key, got.Entries[i].Val, k, d.Main[k])
				}
			}
		}
		if d.HasShadow {
			sname := syncer.SyncDBIShadowPrefix + name
			seen[sname] = true
			got := dump.DBI(sname)
			if got == nil {
				return fmt.Errorf("shadow DBI %q missing", sname)
			}
			if uint64(got.Flags) != kindFlags(d.Kind) {
				return fmt.Errorf("shadow DBI %q has flags %#x, want only MDB_INTEGERKEY from the original (%#x)", sname, got.Flags, kindFlags(d.Kind))
			}
			keys := model.SortedKeys(d.Kind, d.Shadow)
			if len(keys) != len(got.Entries) {
				return fmt.Errorf("shadow DBI %q: %d entries, model %d: got %s", sname, len(got.Entries), len(keys), fmtEntries(got.Entries))
			}
			for i, k := range keys {
				e := got.Entries[i]
				want := d.Shadow[k]
				if string(e.Key) != k {
					return fmt.Errorf("shadow DBI %q entry %d: key %x, model %x", sname, i, e.Key, k)
				}
				h, err := model.ReadHeader(e.Val)
				if err != nil {
					return fmt.Errorf("shadow DBI %q key %x: %v", sname, e.Key, err)
				}
				wantTS := want.TS
				if bracket != nil && want.TS == tsPending {
					if h.TS < bracket[0] || h.TS > bracket[1] {
						return fmt.Errorf("shadow %q key %x: detection timestamp %d outside the step's bracket [%d,%d]", sname, e.Key, h.TS, bracket[0], bracket[1])
					}
					if adopted != 0 && adopted != h.TS {
						return fmt.Errorf("shadow %q key %x: changes of one step stamped with different times %d / %d", sname, e.Key, adopted, h.TS)
					}
					adopted = h.TS
					wantTS = h.TS
					want.TS = h.TS
					d.Shadow[k] = want
				}
				if h.TS != wantTS || (h.Flags&1 != 0) != want.Del || !bytes.Equal(h.AppVal, want.Val) {
					return fmt.Errorf("shadow %q key %x: got (ts=%d del=%v val=%x), model (ts=%d del=%v val=%x)", sname, e.Key, h.TS, h.Flags&1 != 0, h.AppVal, wantTS, want.Del, want.Val)
				}
				// header well-formedness of every value LS wrote (C14 invariant)
				if _, err := model.CheckLSWritten(e.Val, h.TxnID, padOK && h.NumExt == 1); err != nil {
					return fmt.Errorf("shadow %q key %x: %v", sname, e.Key, err)
				}
				if want.Txn != 0 && h.TxnID != want.Txn {
					return fmt.Errorf("shadow %q key %x: header carries transaction id %d, written by transaction %d", sname, e.Key, h.TxnID, want.Txn)
				}
			}
		}
	}
	for _, d := range dump.DBIs {
		if !seen[d.Name] {
			return fmt.Errorf("unexpected DBI %q in the environment", d.Name)
		}
	}
	return nil
}

const tsPending = ^uint64(0) - 12345

func checkC11(c C11Case, o *vcore.Obs) error {
	env := lm.New(32<<20, 16)
	defer env.Close()
	s, _ := newShadowSyncerSw(env.Env, "a", config.LMDB{SchemaTracksChanges: false, HeaderExtraPaddingBlock: c.Pad}, c.Sweeper)
	ctx := context.Background()
	m := model.NewMirror()
	clock := uint64(1000) // drive a: logical clock, captures take even values
	var remoteTSPool []uint64
	uncaptured := false
	var lastSynced header.TxnID
	nt := false
	remoteBetween := false
	payloadMarkers := 0
	captures := 0
	staleSkipped := 0

	capture := func() error {
		clock += 2
		var txnid uint64
		err := env.Update(func(txn *lmdb.Txn) error {
			txnid = uint64(txn.ID())
			return s.VerifMainToShadow(ctx, txn, header.Timestamp(clock))
		})
		if err != nil {
			return fmt.Errorf("mainToShadow: %v", err)
		}
		m.Capture(clock, txnid)
		uncaptured = false
		lastSynced = header.TxnID(lm.LastTxnID(env.Env))
		captures++
		return nil
	}

	for oi, op := range c.Ops {
		step := fmt.Sprintf("step %d (%s)", oi, op.Kind)
		var bracket *[2]uint64
		switch op.Kind {
		case "app":
			changed, unchanged := 0, 0
			appBefore := lm.LastTxnID(env.Env)
			err := env.Update(func(txn *lmdb.Txn) error {
				for _, ch := range op.Changes {
					di := ch.DBI % len(c.Kinds)
					kind := c.Kinds[di]
					name := c11DBINames[di]
					dbi, err := txn.OpenDBI(name, lmdb.Create|uint(kindFlags(kind)))
					if err != nil {
						return err
					}
					m.AppCreate(name, kind)
					key := c11Key(kind, ch.Key)
					if ch.Op == "del" {
						if err := txn.Del(dbi, key, nil); err != nil && !lmdb.IsNotFound(err) {
							return err
						}
						m.AppDel(name, key)
						changed++
					} else {
						val := ch.Val
						if len(val) == 0 && !c.AllowEmpty {
							val = model.Bytes("E") // harness bug guard: generator never emits empty values unless allowed
						}
						if old, ok := m.DBIs[name].Main[string(key)]; ok && bytes.Equal(old, val) {
							unchanged++
						} else {
							changed++
						}
						if err := txn.Put(dbi, key, val, 0); err != nil {
							return err
						}
						m.AppPut(name, kind, key, val)
					}
				}
				return nil
			})
			if err != nil {
				return fmt.Errorf("harness: app txn: %v", err)
			}
			if lm.LastTxnID(env.Env) != appBefore {
				uncaptured = true // LMDB recorded the application's transaction
			}
			untouched := 0
			for _, d := range m.DBIs {
				untouched += len(d.Shadow)
			}
			if changed >= 1 && (unchanged >= 1 || untouched > changed) {
				nt = true
			}
			continue // nothing to compare: LS has not run
		case "capture":
			if c.Drive == "a" {
				if err := capture(); err != nil {
					return fmt.Errorf("%s: %v", step, err)
				}
			} else {
				t0 := uint64(time.Now().UnixNano())
				txnid, err := s.SendOnce(ctx, env.Env)
				t1 := uint64(time.Now().UnixNano())
				if err != nil {
					return fmt.Errorf("%s: SendOnce: %v", step, err)
				}
				lastSynced = txnid
				bracket = &[2]uint64{t0, t1}
				m.Capture(tsPending, uint64(lm.LastTxnID(env.Env)))
				uncaptured = false
				captures++
			}
		case "remote":
			var lsTxn uint64
			if c.Drive == "a" && uncaptured {
				if err := capture(); err != nil {
					return fmt.Errorf("%s: %v", step, err)
				}
			}
			// build the remote snapshot
			snap := model.Snap{FormatVersion: 3, CompatVersion: 1, Meta: model.Meta{InstanceID: "peer", DatabaseName: "db", TimestampNano: 5}}
			byDBI := map[int][]RemoteEntry{}
			var order []int
			for _, r := range op.Remote {
				di := r.DBI % len(c.Kinds)
				if _, ok := byDBI[di]; !ok {
					order = append(order, di)
				}
				byDBI[di] = append(byDBI[di], r)
			}
			type mergeItem struct {
				name, kind string
				key        []byte
				v          model.SVer
			}
			var items []mergeItem
			for _, di := range order {
				kind := c.Kinds[di]
				d := model.DBI{Name: c11DBINames[di], Flags: kindFlags(kind)}
				seenKey := map[string]bool{}
				var es []model.KV
				for _, r := range byDBI[di] {
					key := c11Key(kind, r.Key)
					if seenKey[string(key)] {
						continue
					}
					seenKey[string(key)] = true
					ts := remoteTS(c.Drive, clock, r.Age)
					val := r.Val
					if r.Del {
						val = nil
					} else if len(val) == 0 && !c.AllowEmpty {
						val = model.Bytes("R")
					}
					fl := uint32(0)
					if r.Del {
						fl = 1
					}
					wire := val
					if r.Del && len(r.Payload) > 0 {
						// (not where it would tie with the stored version: the tie-break between a live entry and a
						// marker that carries a value is outside the documented domain - a deleted entry has no value)
						tie := false
						if md := m.DBIs[d.Name]; md != nil {
							if sv, ok := md.Shadow[string(key)]; ok && sv.TS == ts {
								tie = true
							}
						}
						if !tie {
							wire = r.Payload
							payloadMarkers++
						}
					}
					es = append(es, model.KV{Key: key, Val: model.ValOf(wire), TS: ts, Flags: fl})
					items = append(items, mergeItem{d.Name, kind, key, model.SVer{TS: ts, Del: r.Del, Val: val}})
				}
				// snapshot entries in DBI order, as a real dump has them
				sortKVs(kind, es)
				d.Entries = es
				snap.DBIs = append(snap.DBIs, d)
			}
			upd := mkUpdate(snap, time.Unix(0, 5))
			t0 := uint64(time.Now().UnixNano())
			retTxn, localChanged, err := s.LoadOnce(ctx, env.Env, "peer", upd, lastSynced)
			t1 := uint64(time.Now().UnixNano())
			if err != nil {
				return fmt.Errorf("%s: LoadOnce: %v", step, err)
			}
			lsTxn = uint64(lm.LastTxnID(env.Env))
			if localChanged != uncaptured {
				return fmt.Errorf("%s: LoadOnce reports localChanged=%v, application changed data since the last step: %v", step, localChanged, uncaptured)
			}
			if uncaptured {
				// drive b: LoadOnce captured with the wall clock first
				bracket = &[2]uint64{t0, t1}
				m.Capture(tsPending, lsTxn)
				uncaptured = false
				captures++
			}
			staleBefore := uint64(time.Now().Add(-367 * 24 * time.Hour).UnixNano())
			for _, it := range items {
				if c.Sweeper && it.v.Del && it.v.TS < staleBefore && !m.HasShadowEntry(it.name, it.key) {
					// with the sweeper enabled a deletion marker older than the retention is not created for a key
					// the instance has no entry for (by design, C04); the DBI itself is still created
					m.EnsureDBI(it.name, it.kind)
					staleSkipped++
					continue
				}
				m.MergeRemote(it.name, it.kind, it.key, it.v, lsTxn)
			}
			m.Project()
			if !localChanged {
				lastSynced = retTxn
			} else {
				// the sync loop now uploads; mirror that so the next step starts from a synced state
				if err := compareMirror(env.Env, m, lsTxn, bracket, c.Pad); err != nil {
					return fmt.Errorf("%s (after load): %v", step, err)
				}
				bracket = nil
				txnid, err := s.SendOnce(ctx, env.Env)
				if err != nil {
					return fmt.Errorf("%s: SendOnce: %v", step, err)
				}
				lastSynced = txnid
			}
			if captures > 0 {
				remoteBetween = true
			}
		}
		if err := compareMirror(env.Env, m, 0, bracket, c.Pad); err != nil {
			return fmt.Errorf("%s: %v", step, err)
		}
		_ = remoteTSPool
	}
	o.NonTrivial(nt && captures >= 2)
	o.Class("drive-" + c.Drive)
	o.ClassIf(c.Pad, "header-padding-option")
	o.ClassIf(c.Sweeper, "sweeper-enabled-in-configuration")
	o.ClassIf(staleSkipped > 0, "stale-remote-marker-for-an-unknown-key-not-created")
	o.ClassIf(c.CaptureOnly, "capture-only-history-with-live-empty-values")
	for _, k := range c.Kinds {
		o.Class("kind-" + k)
	}
	o.ClassIf(remoteBetween, "remote-between-captures")
	o.ClassIf(payloadMarkers > 0, "remote-deletion-marker-carrying-a-payload")
	for i := 0; i < c.ExcludedEmpty; i++ {
		o.Excluded("shadow-empty-value")
	}
	for _, op := range c.Ops {
		for _, ch := range op.Changes {
			o.ClassIf(ch.Op == "del", "app-delete")
			kind := c.Kinds[ch.DBI%len(c.Kinds)]
			if kind != "plain" {
				k := c11Key(kind, ch.Key)
				o.ClassIf(bytes.Equal(k, make([]byte, len(k))), "integer-key-0")
			}
		}
	}
	return nil
}

// remoteTS: remote versions carry timestamps of the shared monotone clock, i.e.
// not later than "now". Drive a: odd values below the logical clock (captures
// are even, so no ties with local stamps). Drive b: far in the past relative to
// the wall clock (year 2001 + age), so nothing depends on sub-millisecond timing.
func remoteTS(drive string, clock uint64, age int) uint64 {
	if drive == "a" {
		t := clock - uint64(2*(age%400)) - 1
		return t
	}
	return 1_000_000_000_000_000_001 + uint64(age)
}

func sortKVs(kind string, es []model.KV) {
	for i := 1; i < len(es); i++ {
		for j := i; j > 0 && model.KeyLess(kind, es[j].Key, es[j-1].Key); j-- {
			es[j], es[j-1] = es[j-1], es[j]
		}
	}
}

func genC11(t *rapid.T) C11Case {
	var c C11Case
	c.Drive = rapid.SampledFrom([]string{"a", "a", "a", "b"}).Draw(t, "drive")
	c.Pad = rapid.IntRange(0, 4).Draw(t, "pad") == 0
	c.Sweeper = rapid.IntRange(0, 2).Draw(t, "sweeper") == 0
	c.CaptureOnly = rapid.IntRange(0, 3).Draw(t, "capture_only") == 0
	c.AllowEmpty = c.CaptureOnly
	nd := rapid.IntRange(1, 3).Draw(t, "ndbi")
	for i := 0; i < nd; i++ {
		c.Kinds = append(c.Kinds, rapid.SampledFrom([]string{"plain", "plain", "int4", "int8"}).Draw(t, "kind"))
	}
	genVal := func(label string) model.Bytes {
		v := rapid.SampledFrom([]model.Bytes{[]byte("v1"), []byte("v2"), []byte("x"), {0}, {}, []byte("a longer value \x00 with zero"), bytes.Repeat([]byte{'L'}, 2000),
			// values that are a tail of other values ("1" of "v1", "v1" of "cfg-v1", "L"x100 of "L"x2000)
			[]byte("1"), []byte("cfg-v1"), bytes.Repeat([]byte{'L'}, 100)}).Draw(t, label)
		if len(v) == 0 && !c.CaptureOnly {
			c.ExcludedEmpty++ // known finding: live empty values in shadow mode
			v = []byte("e")
		}
		return v
	}
	nops := rapid.IntRange(1, 12).Draw(t, "nops")
	for i := 0; i < nops; i++ {
		var op C11Op
		op.Kind = rapid.SampledFrom([]string{"app", "app", "capture", "remote"}).Draw(t, "op")
		if c.CaptureOnly && op.Kind == "remote" {
			op.Kind = "capture"
		}
		switch op.Kind {
		case "app":
			n := rapid.IntRange(1, 5).Draw(t, "nch")
			for j := 0; j < n; j++ {
				ch := AppChange{DBI: rapid.IntRange(0, nd-1).Draw(t, "dbi"), Key: rapid.IntRange(0, 7).Draw(t, "key"),
					Op: rapid.SampledFrom([]string{"put", "put", "del"}).Draw(t, "chop")}
				if ch.Op == "put" {
					ch.Val = genVal("val")
				}
				op.Changes = append(op.Changes, ch)
			}
		case "remote":
			n := rapid.IntRange(0, 5).Draw(t, "nre")
			for j := 0; j < n; j++ {
				r := RemoteEntry{DBI: rapid.IntRange(0, nd-1).Draw(t, "rdbi"), Key: rapid.IntRange(0, 7).Draw(t, "rkey"),
					Age: rapid.IntRange(0, 30).Draw(t, "age"), Del: rapid.IntRange(0, 3).Draw(t, "rdel") == 0}
				if !r.Del {
					r.Val = genVal("rval")
				} else if rapid.IntRange(0, 2).Draw(t, "payload") == 0 {
					r.Payload = model.Bytes("left-over")
				}
				op.Remote = append(op.Remote, r)
			}
		}
		c.Ops = append(c.Ops, op)
	}
	return c
}

func TestC11Mirror(t *testing.T) {
	vcore.Run(t, vcore.Config{Property: "C11", Inflight: true,
		Rule: "rapid histories over 1-3 application DBIs (plain / MDB_INTEGERKEY 4 / 8 bytes incl. key 0): application change sets (put/overwrite/same-value/delete/new DBI), captures (drive a: VerifMainToShadow with generated increasing timestamps; drive b: SendOnce/LoadOnce with bracketed wall-clock stamps), remote snapshots (older/newer versions, markers, new DBIs) merged through LoadOnce, a quarter of the histories without merges and then WITH live empty values (inserted / overwriting), a third with sweeper.enabled, a fifth with the padding option; after every step application DBIs and shadow DBIs equal the map-based mirror model byte for byte; " +
			"non-trivial = a step with >=1 changed and >=1 unchanged key and >=2 captures"},
		genC11, checkC11)
}

// Known finding: a live empty value in shadow mode is removed from the application's DBI.
func TestKnownC11(t *testing.T) {
	c := C11Case{Drive: "a", Kinds: []string{"plain"}, AllowEmpty: true, Ops: []C11Op{
		{Kind: "app", Changes: []AppChange{{DBI: 0, Key: 0, Op: "put", Val: model.Bytes{}}, {DBI: 0, Key: 1, Op: "put", Val: model.Bytes("x")}}},
		{Kind: "capture"},
		{Kind: "remote"},
	}}
	vcore.Known(t, "C11", "shadow-empty-value", c, checkC11)
}

// ---- enumeration: one capture pass that finds both a changed key and a deleted key of the same DBI ----

type enumC11CD struct {
	Drive   string `json:"drive"`
	Kind    string `json:"kind"`
	Changed int    `json:"changed"`
	Deleted int    `json:"deleted"`
	Second  int    `json:"second"` // a second deleted key (-1: none)
	Long    bool   `json:"long"`   // the new value is 2000 bytes long (the page is reorganised)
}

func TestC11ChangeAndDelete(t *testing.T) {
	vcore.RunEnum(t, vcore.Config{Property: "C11", Inflight: true,
		Rule: "enumeration: a DBI (plain / integer keys) with 8 captured keys; ONE application transaction overwrites key i and deletes key j (optionally a second key), for every i != j x {short, 2000-byte new value} x {drive a, drive b}; capture; then the application re-inserts j, capture: after every step application DBI and shadow DBI equal the mirror model byte for byte (marker under the right key, neighbours intact); non-trivial = the deleted key sorts after the changed one"},
		func(yield func(enumC11CD) bool) {
			for _, drive := range []string{"a", "b"} {
				for _, kind := range []string{"plain", "int4"} {
					for i := 0; i < 8; i++ {
						for j := 0; j < 8; j++ {
							if i == j {
								continue
							}
							for _, long := range []bool{false, true} {
								second := -1
								if (i+j)%3 == 0 {
									second = (j + 3) % 8
									if second == i {
										second = -1
									}
								}
								if !yield(enumC11CD{Drive: drive, Kind: kind, Changed: i, Deleted: j, Second: second, Long: long}) {
									return
								}
							}
						}
					}
				}
			}
		},
		func(e enumC11CD, o *vcore.Obs) error {
			c := C11Case{Drive: e.Drive, Kinds: []string{e.Kind}, CaptureOnly: true, AllowEmpty: true}
			var all []AppChange
			for k := 0; k < 8; k++ {
				all = append(all, AppChange{DBI: 0, Key: k, Op: "put", Val: model.Bytes(fmt.Sprintf("value-%d", k))})
			}
			nv := model.Bytes("v2")
			if e.Long {
				nv = bytes.Repeat([]byte{'N'}, 2000)
			}
			step := []AppChange{{DBI: 0, Key: e.Changed, Op: "put", Val: nv}, {DBI: 0, Key: e.Deleted, Op: "del"}}
			if e.Second >= 0 {
				step = append(step, AppChange{DBI: 0, Key: e.Second, Op: "del"})
			}
			c.Ops = []C11Op{{Kind: "app", Changes: all}, {Kind: "capture"}, {Kind: "app", Changes: step}, {Kind: "capture"},
				{Kind: "app", Changes: []AppChange{{DBI: 0, Key: e.Deleted, Op: "put", Val: model.Bytes("again")}}}, {Kind: "capture"}}
			err := checkC11(c, o)
			o.NonTrivial(bytes.Compare(c11Key(e.Kind, e.Deleted), c11Key(e.Kind, e.Changed)) > 0)
			return err
		})
}

package kv

import (
	"bytes"
	"context"
	"fmt"
	"sort"
	"testing"
	"time"

	"github.com/PowerDNS/lightningstream/config"
	"github.com/PowerDNS/lightningstream/lmdbenv/dbiflags"
	"github.com/PowerDNS/lightningstream/lmdbenv/header"
	"github.com/PowerDNS/lightningstream/snapshot"
	"github.com/PowerDNS/lightningstream/snapshot/gogosnapshot"
	"github.com/PowerDNS/lightningstream/syncer"
	"github.com/PowerDNS/lmdb-go/lmdb"
	"pgregory.net/rapid"

	"verif/harness/internal/gen"
	"verif/harness/internal/lm"
	"verif/harness/internal/model"
	"verif/harness/internal/vcore"
)

// ---------------------------------------------------------------------------
// C20 The dupsort hack maps duplicate-key data reversibly or refuses it
// ---------------------------------------------------------------------------

// refEncode is an independent implementation of the documented encoding:
// key + four zero bytes + as much of the value as fits in 511 bytes (one byte
// is reserved) + one byte holding the original key length.
// implEncode maps a pair with the code under test's own per-pair mapping (used to play the peer and
// to key the model, so that the cycle oracle does not depend on a particular key layout).
func implEncode(k, v []byte) ([]byte, bool) {
	e, err := syncer.VerifDupSortHackEncodeOne(snapshot.KV{Key: k, Value: v})
	if err != nil {
		return nil, false
	}
	return e.Key, true
}

func refEncode(k, v []byte) ([]byte, bool) {
	if len(k) == 0 || len(k) > 255 {
		return nil, false
	}
	out := append([]byte{}, k...)
	out = append(out, 0, 0, 0, 0)
	room := 511 - len(out) - 1
	if len(v) > room {
		out = append(out, v[:room]...)
	} else {
		out = append(out, v...)
	}
	return append(out, byte(len(k))), true
}

type Pair struct {
	K model.Bytes `json:"k"`
	V model.Val   `json:"v"`
}

func genDupKey(t *rapid.T, label string, maxLen int) []byte {
	switch rapid.IntRange(0, 7).Draw(t, label+"_kk") {
	case 0:
		return gen.BytesN(t, label+"_max", 255, 255)
	case 1:
		// zero bytes at the end of the key, next to the separator
		b := gen.BytesN(t, label+"_z", 1, 6)
		n := rapid.IntRange(1, 5).Draw(t, label+"_nz")
		return append(b, make([]byte, n)...)
	case 2:
		return gen.BytesN(t, label+"_any", 1, maxLen)
	default:
		return gen.BytesN(t, label+"_short", 1, 3)
	}
}

func genDupVal(t *rapid.T, label string, keyLen int) model.Val {
	room := 511 - keyLen - 5
	switch rapid.IntRange(0, 9).Draw(t, label+"_vk") {
	case 0:
		return model.Val{} // empty
	case 1:
		// zero bytes at the start of the value
		n := rapid.IntRange(1, 5).Draw(t, label+"_nz")
		return model.ValOf(append(make([]byte, n), gen.BytesN(t, label+"_zt", 0, 3)...))
	case 2:
		// exactly fills / just overflows the room left in the key
		l := room + rapid.IntRange(-1, 2).Draw(t, label+"_d")
		if l < 0 {
			l = 0
		}
		return model.Val{Len: l, Fill: 'f', Head: gen.BytesN(t, label+"_h", 0, 2)}
	case 3:
		// long shared prefix, difference beyond the part that fits in the key
		l := room + rapid.IntRange(1, 5).Draw(t, label+"_over")
		if l > 511 {
			l = 511
		}
		return model.Val{Len: l, Fill: 'p'}
	case 4:
		// ends with a byte that can look like a key length
		return model.ValOf(append(gen.BytesN(t, label+"_b", 0, 3), byte(rapid.IntRange(0, 6).Draw(t, label+"_lb"))))
	default:
		return model.ValOf(gen.BytesN(t, label+"_s", 1, 4))
	}
}

// ---- single pair --------------------------------------------------------------

func checkC20One(p Pair, o *vcore.Obs) error {
	v := p.V.Bytes()
	enc, err := syncer.VerifDupSortHackEncodeOne(snapshot.KV{Key: p.K, Value: v, Flags: 1, TimestampNano: 7})
	want, ok := refEncode(p.K, v)
	if !ok {
		if err == nil {
			return fmt.Errorf("key of %d bytes accepted", len(p.K))
		}
		o.Class("refused-key-length")
		return nil
	}
	if err != nil {
		return fmt.Errorf("valid pair refused: %v", err)
	}
	// (the documented v1 layout is what peers exchange; the property itself only asks for a legal,
	// distinct, reversible shadow key - a deviation from the documented layout is counted, not alarmed on)
	o.ClassIf(!bytes.Equal(enc.Key, want), "differs-from-documented-layout")
	if len(enc.Key) == 0 {
		return fmt.Errorf("empty shadow key")
	}
	if len(enc.Key) > 511 {
		return fmt.Errorf("encoded key has %d bytes", len(enc.Key))
	}
	if !bytes.Equal(enc.Value, v) || enc.Flags != 1 {
		return fmt.Errorf("value or flags changed by encoding")
	}
	dec, err := syncer.VerifDupSortHackDecodeOne(enc)
	if err != nil {
		return fmt.Errorf("decode(encode(kv)) failed: %v", err)
	}
	if !bytes.Equal(dec.Key, p.K) || !bytes.Equal(dec.Value, v) || dec.Flags != 1 {
		return fmt.Errorf("decode(encode(kv)) = (%x,%x), want (%x,%x)", dec.Key, dec.Value, p.K, v)
	}
	room := 511 - len(p.K) - 5
	o.NonTrivial(len(v) > room || bytes.HasPrefix(v, []byte{0}) || bytes.HasSuffix(p.K, []byte{0}))
	o.ClassIf(len(v) > room, "value-truncated-in-key")
	o.ClassIf(len(v) == 0, "empty-value")
	o.ClassIf(bytes.HasPrefix(v, []byte{0}) || bytes.HasSuffix(p.K, []byte{0}), "zero-next-to-separator")
	return nil
}

func TestC20One(t *testing.T) {
	vcore.Run(t, vcore.Config{Property: "C20",
		Rule: "rapid pairs: key 1..255 bytes (also 0 and >255: must be refused), value 0..511+ bytes with zero bytes next to the separator, values filling/overflowing the room left in the key; encode equals the independent documented encoding, <=511 bytes, decode(encode(kv)) = kv; non-trivial = value truncated in the key or zero byte next to the separator"},
		func(t *rapid.T) Pair {
			var k []byte
			switch rapid.IntRange(0, 19).Draw(t, "klen_class") {
			case 0:
				k = []byte{}
			case 1:
				k = gen.BytesN(t, "toolong", 256, 300)
			default:
				k = genDupKey(t, "k", 255)
			}
			return Pair{K: k, V: genDupVal(t, "v", len(k))}
		}, checkC20One)
}

// ---- whole DBI ------------------------------------------------------------------

type C20DBI struct {
	Pairs []Pair `json:"pairs"` // any order; the harness sorts them the way LMDB stores them
}

func sortedPairs(ps []Pair) [][2][]byte {
	var out [][2][]byte
	for _, p := range ps {
		out = append(out, [2][]byte{p.K, p.V.Bytes()})
	}
	sort.Slice(out, func(i, j int) bool {
		if c := bytes.Compare(out[i][0], out[j][0]); c != 0 {
			return c < 0
		}
		return bytes.Compare(out[i][1], out[j][1]) < 0
	})
	var dedup [][2][]byte
	for i, p := range out {
		if i > 0 && bytes.Equal(out[i-1][0], p[0]) && bytes.Equal(out[i-1][1], p[1]) {
			continue
		}
		dedup = append(dedup, p)
	}
	return dedup
}

func checkC20DBI(c C20DBI, o *vcore.Obs) error {
	ps := sortedPairs(c.Pairs)
	d := snapshot.NewDBISize(1 << 16)
	d.SetName("dup")
	d.SetFlags(uint64(lmdb.DupSort))
	for _, p := range ps {
		d.Append(snapshot.KV{Key: p[0], Value: p[1]})
	}
	// independent decision
	okRef := true
	reason := ""
	var encs [][]byte
	for i, p := range ps {
		// the per-pair mapping of the code under test decides what "unique / order preserving" means
		ek, eerr := syncer.VerifDupSortHackEncodeOne(snapshot.KV{Key: p[0], Value: p[1]})
		e, ok := ek.Key, eerr == nil
		if !ok {
			okRef, reason = false, "key length"
			break
		}
		if i > 0 {
			c := bytes.Compare(encs[i-1], e)
			if c == 0 {
				okRef, reason = false, "not unique"
				break
			}
			if c > 0 {
				okRef, reason = false, "order not preserved"
				break
			}
		}
		encs = append(encs, e)
	}
	out, err := syncer.VerifDupSortHackEncode(d)
	if !okRef {
		if err == nil {
			return fmt.Errorf("mapping is %s for this content but Encode did not refuse it", reason)
		}
		o.Class("refused-" + reason)
		o.NonTrivial(true)
		return nil
	}
	if err != nil {
		return fmt.Errorf("content with a unique, order-preserving mapping was refused: %v", err)
	}
	if out.Transform() != snapshot.TransformDupSortHackV1 {
		return fmt.Errorf("encoded DBI carries transform %q", out.Transform())
	}
	if out.Flags() != uint64(lmdb.DupSort) || out.Name() != "dup" {
		return fmt.Errorf("encoded DBI lost name/flags: %q %#x", out.Name(), out.Flags())
	}
	kvs, err := out.AsInefficientKVList()
	if err != nil {
		return err
	}
	if len(kvs) != len(ps) {
		return fmt.Errorf("encoded DBI has %d entries, input %d", len(kvs), len(ps))
	}
	for i, kv := range kvs {
		if i > 0 && bytes.Compare(kvs[i-1].Key, kv.Key) >= 0 {
			return fmt.Errorf("encoded keys not strictly increasing at %d", i)
		}
		if !bytes.Equal(kv.Key, encs[i]) || !bytes.Equal(kv.Value, ps[i][1]) {
			return fmt.Errorf("entry %d silently altered", i)
		}
	}
	back, err := syncer.VerifDupSortHackDecode(out)
	if err != nil {
		return fmt.Errorf("decode of encoded DBI: %v", err)
	}
	if back.Transform() != "" {
		return fmt.Errorf("decoded DBI still carries transform %q", back.Transform())
	}
	bk, _ := back.AsInefficientKVList()
	if len(bk) != len(ps) {
		return fmt.Errorf("decoded DBI has %d entries", len(bk))
	}
	for i, kv := range bk {
		if !bytes.Equal(kv.Key, ps[i][0]) || !bytes.Equal(kv.Value, ps[i][1]) {
			return fmt.Errorf("pair %d not recovered: (%x,%x) vs (%x,%x)", i, kv.Key, kv.Value, ps[i][0], ps[i][1])
		}
	}
	shared := false
	for i := 1; i < len(ps); i++ {
		if bytes.Equal(ps[i-1][0], ps[i][0]) {
			shared = true
		}
	}
	o.NonTrivial(shared)
	o.Class("accepted")
	return nil
}

func genPairs(t *rapid.T, allowBad bool) []Pair {
	n := rapid.IntRange(0, 8).Draw(t, "npairs")
	var ps []Pair
	var keys [][]byte
	for i := 0; i < n; i++ {
		var k []byte
		if len(keys) > 0 && rapid.IntRange(0, 2).Draw(t, "samekey") > 0 {
			base := keys[rapid.IntRange(0, len(keys)-1).Draw(t, "ki")]
			switch rapid.IntRange(0, 4).Draw(t, "kderive") {
			case 0:
				if allowBad && len(base) < 250 {
					k = append(append([]byte{}, base...), 0) // key that extends another key by a zero byte
				} else {
					k = base
				}
			default:
				k = base
			}
		} else {
			k = genDupKey(t, "k", 255)
		}
		keys = append(keys, k)
		v := genDupVal(t, "v", len(k))
		if !allowBad {
			room := 511 - len(k) - 5
			if v.Len > room {
				v = model.ValOf(gen.BytesN(t, "vfit", 1, 4))
			}
		}
		ps = append(ps, Pair{K: k, V: v})
	}
	return ps
}

func TestC20DBI(t *testing.T) {
	vcore.Run(t, vcore.Config{Property: "C20",
		Rule: "rapid duplicate-key DBI contents (0-8 pairs in LMDB (key,dup) order; shared keys, keys extending other keys by zero bytes, values starting with zero bytes, values differing only beyond the part that fits in the key): Encode refuses exactly the contents whose documented mapping is not unique / not order preserving, otherwise output is strictly increasing and decodes to the input; non-trivial = >=2 pairs share a key, or content refused"},
		func(t *rapid.T) C20DBI { return C20DBI{Pairs: genPairs(t, true)} }, checkC20DBI)
}

// ---- mirror cycle on a real MDB_DUPSORT DBI -----------------------------------

type C20Cycle struct {
	// SecondDBI: the environment holds a second duplicate-keys DBI ("aaa", mirrored before "dup") with two
	// static pairs whose shadow keys sort after everything in "dup": every DBI is mapped on its own
	SecondDBI     bool      `json:"second_dbi,omitempty"`
	DupFixed      bool      `json:"dupfixed,omitempty"`
	Initial       []Pair    `json:"initial"`
	Steps         []C20Step `json:"steps"`
	ExcludedEmpty int       `json:"excluded_empty,omitempty"`
}

type C20Step struct {
	Kind   string      `json:"kind"` // app | send | remote
	Add    []Pair      `json:"add,omitempty"`
	DelIdx []int       `json:"del_idx,omitempty"`
	Remote []C20Remote `json:"remote,omitempty"`
	// replace: the Idx-th pair (k,v) is deleted and (k,v') written in the same transaction; LongOver > 0:
	// v' is a run of 'p' that is LongOver bytes longer than the room the shadow key has for it (two such
	// values of one key differ only beyond the part that is embedded in the shadow key); 0: v with its
	// last byte changed
	Idx      int `json:"idx,omitempty"`
	LongOver int `json:"long_over,omitempty"`
}

type C20Remote struct {
	P   Pair `json:"p"`
	Del bool `json:"del,omitempty"`
	Age int  `json:"age"`
	// Now: stamped with the current time (a peer changed the pair after this instance captured it)
	Now bool `json:"now,omitempty"`
}

func pairKey(k, v []byte) string { return string(k) + "\x00|\x00" + string(v) }

func checkC20Cycle(c C20Cycle, o *vcore.Obs) error {
	env := lm.New(32<<20, 16)
	defer env.Close()
	s, st := newShadowSyncer(env.Env, "a", config.LMDB{SchemaTracksChanges: false, DupSortHack: true})
	ctx := context.Background()
	flags := uint(lmdb.DupSort)
	if c.DupFixed {
		flags |= lmdb.DupFixed
	}
	mainPairs := map[string][2][]byte{}
	shadow := map[string]model.SVer{} // encoded key -> version
	put := func(ps []Pair) error {
		return env.Update(func(txn *lmdb.Txn) error {
			dbi, err := txn.OpenDBI("dup", lmdb.Create|flags)
			if err != nil {
				return err
			}
			for _, p := range ps {
				v := p.V.Bytes()
				if err := txn.Put(dbi, p.K, v, 0); err != nil {
					return fmt.Errorf("harness put (%x,%x): %w", p.K, v, err)
				}
				mainPairs[pairKey(p.K, v)] = [2][]byte{p.K, v}
			}
			return nil
		})
	}
	if err := put(c.Initial); err != nil {
		return err
	}
	if c.SecondDBI {
		err := env.Update(func(txn *lmdb.Txn) error {
			dbi, err := txn.OpenDBI("aaa", lmdb.Create|lmdb.DupSort)
			if err != nil {
				return err
			}
			for _, v := range []string{"z", "zz"} {
				if err := txn.Put(dbi, []byte{0xff, 0xff, 0xff}, []byte(v), 0); err != nil {
					return err
				}
			}
			return nil
		})
		if err != nil {
			return fmt.Errorf("harness: second DBI: %v", err)
		}
	}
	checkSecond := func(step string) error {
		if !c.SecondDBI {
			return nil
		}
		dump, err := lm.DumpEnv(env.Env)
		if err != nil {
			return err
		}
		d := dump.DBI("aaa")
		if d == nil || len(d.Entries) != 2 || string(d.Entries[0].Val) != "z" || string(d.Entries[1].Val) != "zz" {
			return fmt.Errorf("%s: the second duplicate-keys DBI, which nobody changed, no longer holds its two pairs: %v", step, d)
		}
		return nil
	}
	refusable := func() bool {
		var ps []Pair
		for _, p := range mainPairs {
			ps = append(ps, Pair{K: p[0], V: model.ValOf(p[1])})
		}
		sp := sortedPairs(ps)
		var prev []byte
		for _, p := range sp {
			e, ok := implEncode(p[0], p[1])
			if !ok || (prev != nil && bytes.Compare(prev, e) >= 0) {
				return true
			}
			prev = e
		}
		return false
	}
	var lastSynced uint64
	capture := func(ts uint64) {
		encSeen := map[string]bool{}
		for _, p := range mainPairs {
			e, _ := implEncode(p[0], p[1])
			encSeen[string(e)] = true
			old, ok := shadow[string(e)]
			if ok && !old.Del && bytes.Equal(old.Val, p[1]) {
				continue
			}
			shadow[string(e)] = model.SVer{TS: ts, Val: p[1]}
		}
		for e, sv := range shadow {
			if !encSeen[e] && !sv.Del {
				shadow[e] = model.SVer{TS: ts, Del: true}
			}
		}
	}
	project := func() {
		mainPairs = map[string][2][]byte{}
		for e, sv := range shadow {
			if sv.Del {
				continue
			}
			eb := []byte(e)
			dk, derr := syncer.VerifDupSortHackDecodeOne(snapshot.KV{Key: eb, Value: sv.Val})
			if derr != nil {
				panic(derr)
			}
			k := dk.Key
			mainPairs[pairKey(k, sv.Val)] = [2][]byte{append([]byte{}, k...), sv.Val}
		}
	}
	compare := func(step string) error {
		dump, err := lm.DumpEnv(env.Env)
		if err != nil {
			return err
		}
		d := dump.DBI("dup")
		if d == nil {
			if len(mainPairs) == 0 {
				return nil
			}
			return fmt.Errorf("%s: application DBI missing", step)
		}
		if d.Flags&flags != flags {
			return fmt.Errorf("%s: application DBI flags %#x", step, d.Flags)
		}
		got := map[string]bool{}
		for _, e := range d.Entries {
			got[pairKey(e.Key, e.Val)] = true
		}
		if len(got) != len(d.Entries) {
			return fmt.Errorf("%s: duplicate pair in application DBI", step)
		}
		for k, p := range mainPairs {
			if !got[k] {
				return fmt.Errorf("%s: pair (%x,%x) missing from the application DBI", step, p[0], p[1])
			}
		}
		for _, e := range d.Entries {
			if _, ok := mainPairs[pairKey(e.Key, e.Val)]; !ok {
				return fmt.Errorf("%s: unexpected pair (%x,%x) in the application DBI", step, e.Key, e.Val)
			}
		}
		return nil
	}
	sends := 0
	uncaptured := len(c.Initial) > 0
	for si, stp := range c.Steps {
		step := fmt.Sprintf("step %d (%s)", si, stp.Kind)
		if stp.Kind == "rreplace" {
			// a peer REPLACES one of the pairs this instance holds by one with the same key and a smaller value, after
			// this instance captured it: the snapshot carries a marker for the old pair and the new pair, both stamped now
			// (the number of live pairs stays the same)
			if uncaptured {
				continue
			}
			var cur [][2][]byte
			for _, p := range mainPairs {
				cur = append(cur, p)
			}
			sort.Slice(cur, func(i, j int) bool { return pairKey(cur[i][0], cur[i][1]) < pairKey(cur[j][0], cur[j][1]) })
			if len(cur) == 0 {
				continue
			}
			p := cur[stp.Idx%len(cur)]
			v := p[1]
			var smaller []byte
			switch {
			case len(v) > 0 && v[len(v)-1] > 1:
				smaller = append(append([]byte{}, v[:len(v)-1]...), v[len(v)-1]-1)
			case len(v) > 1 && !c.DupFixed:
				smaller = append([]byte{}, v[:len(v)-1]...)
			default:
				// (fixed-size duplicates keep their size: lower the last byte that can be lowered)
				for i := len(v) - 1; i >= 0 && smaller == nil; i-- {
					if v[i] > 1 {
						smaller = append([]byte{}, v...)
						smaller[i]--
					}
				}
				if smaller == nil {
					continue
				}
			}
			if _, dup := mainPairs[pairKey(p[0], smaller)]; dup {
				continue
			}
			stp.Remote = []C20Remote{{P: Pair{K: p[0], V: model.ValOf(v)}, Del: true, Now: true}, {P: Pair{K: p[0], V: model.ValOf(smaller)}, Now: true}}
			stp.Kind = "remote"
			o.Class("peer-replaces-a-held-pair-by-a-smaller-value")
		}
		switch stp.Kind {
		case "app":
			err := env.Update(func(txn *lmdb.Txn) error {
				dbi, err := txn.OpenDBI("dup", lmdb.Create|flags)
				if err != nil {
					return err
				}
				var cur [][2][]byte
				for _, p := range mainPairs {
					cur = append(cur, p)
				}
				sort.Slice(cur, func(i, j int) bool { return pairKey(cur[i][0], cur[i][1]) < pairKey(cur[j][0], cur[j][1]) })
				for _, di := range stp.DelIdx {
					if len(cur) == 0 {
						break
					}
					p := cur[di%len(cur)]
					if err := txn.Del(dbi, p[0], p[1]); err != nil && !lmdb.IsNotFound(err) {
						return err
					}
					delete(mainPairs, pairKey(p[0], p[1]))
				}
				return nil
			})
			if err != nil {
				return err
			}
			if err := put(stp.Add); err != nil {
				return err
			}
			uncaptured = true
			continue
		case "replace":
			var cur [][2][]byte
			for _, p := range mainPairs {
				cur = append(cur, p)
			}
			if len(cur) == 0 {
				continue
			}
			sort.Slice(cur, func(i, j int) bool { return pairKey(cur[i][0], cur[i][1]) < pairKey(cur[j][0], cur[j][1]) })
			p := cur[stp.Idx%len(cur)]
			k, v := p[0], p[1]
			var nv []byte
			if stp.LongOver > 0 && !c.DupFixed {
				l := 511 - len(k) - 5 + stp.LongOver
				if l > 511 {
					l = 511
				}
				nv = bytes.Repeat([]byte{'p'}, l)
			}
			if nv == nil || bytes.Equal(nv, v) {
				nv = append([]byte{}, v...)
				nv[len(nv)-1] ^= 0x01
				if len(nv) == 1 && nv[0] == 0 {
					nv[0] = 'r'
				}
			}
			if _, exists := mainPairs[pairKey(k, nv)]; exists {
				continue
			}
			err := env.Update(func(txn *lmdb.Txn) error {
				dbi, err := txn.OpenDBI("dup", lmdb.Create|flags)
				if err != nil {
					return err
				}
				if err := txn.Del(dbi, k, v); err != nil {
					return err
				}
				return txn.Put(dbi, k, nv, 0)
			})
			if err != nil {
				return fmt.Errorf("harness: replace: %v", err)
			}
			delete(mainPairs, pairKey(k, v))
			mainPairs[pairKey(k, nv)] = [2][]byte{k, nv}
			uncaptured = true
			o.ClassIf(len(nv) > 511-len(k)-5, "pair-replaced-by-one-with-a-value-longer-than-the-room-in-the-key")
			continue
		case "send":
			before, _ := lm.DumpEnv(env.Env)
			mustRefuse := refusable()
			t0 := uint64(time.Now().UnixNano())
			txnid, err := s.SendOnce(ctx, env.Env)
			if mustRefuse {
				if err == nil {
					return fmt.Errorf("%s: content whose mapping is not unique/order preserving was not refused", step)
				}
				after, _ := lm.DumpEnv(env.Env)
				if d := before.Diff(after); d != "" {
					return fmt.Errorf("%s: refused content but changed the LMDB: %s", step, d)
				}
				o.Class("cycle-refused")
				o.NonTrivial(true)
				return nil
			}
			if err != nil {
				return fmt.Errorf("%s: SendOnce: %v", step, err)
			}
			lastSynced = uint64(txnid)
			capture(t0)
			uncaptured = false
			sends++
			// the uploaded snapshot states the transform and the dupsort flag
			ls, _ := st.List(ctx, "")
			names := ls.Names()
			blob, err := st.Load(ctx, names[len(names)-1])
			if err != nil {
				return err
			}
			loaded, err := snapshot.LoadData(blob)
			if err != nil {
				return fmt.Errorf("%s: uploaded snapshot does not load: %v", step, err)
			}
			for _, d := range loaded.Databases {
				if d.Name() != "dup" {
					continue
				}
				if d.Transform() != snapshot.TransformDupSortHackV1 || d.Flags()&uint64(lmdb.DupSort) == 0 {
					return fmt.Errorf("%s: uploaded DBI has transform %q flags %#x", step, d.Transform(), d.Flags())
				}
				kvs, _ := d.AsInefficientKVList()
				live := 0
				for _, kv := range kvs {
					sv, ok := shadow[string(kv.Key)]
					if !ok {
						return fmt.Errorf("%s: uploaded entry %x not in the model", step, kv.Key)
					}
					if sv.Del != (kv.Flags&1 != 0) || !bytes.Equal(sv.Val, kv.Value) {
						return fmt.Errorf("%s: uploaded entry %x differs from the model", step, kv.Key)
					}
					if !sv.Del {
						live++
					}
				}
				if len(kvs) != len(shadow) {
					return fmt.Errorf("%s: uploaded DBI has %d entries, model %d", step, len(kvs), len(shadow))
				}
				// receivers without the hack refuse it and stay unchanged
				for _, existing := range []bool{false, true} {
					if err := refusedBy(loaded, config.LMDB{SchemaTracksChanges: true}, existing); err != nil {
						return fmt.Errorf("%s: native-mode receiver (DBI of that name exists: %v): %v", step, existing, err)
					}
				}
				if live > 0 || len(kvs) > 0 {
					if err := refusedBy(loaded, config.LMDB{SchemaTracksChanges: false, DupSortHack: false}, false); err != nil {
						return fmt.Errorf("%s: shadow receiver without dupsort_hack: %v", step, err)
					}
				}
				// a fresh receiver WITH the hack creates the DBI as the duplicate-keys DBI it is and ends up
				// with exactly the sender's pairs
				for _, override := range []bool{false, true} {
					if err := acceptedByFresh(loaded, mainPairs, flags, override); err != nil {
						return fmt.Errorf("%s: fresh receiver with dupsort_hack (override_create_flags: %v): %v", step, override, err)
					}
				}
			}
		case "remote":
			if uncaptured && refusable() {
				continue // would be refused; covered by the send step
			}
			// peer snapshot with the transform applied
			d := model.DBI{Name: "dup", Flags: uint64(flags), Transform: snapshot.TransformDupSortHackV1}
			seen := map[string]bool{}
			type it struct {
				e  []byte
				sv model.SVer
			}
			var items []it
			for _, r := range stp.Remote {
				v := r.P.V.Bytes()
				e, ok := implEncode(r.P.K, v)
				if !ok || seen[string(e)] {
					continue
				}
				seen[string(e)] = true
				ts := 1_000_000_000_000_000_001 + uint64(r.Age)
				if r.Now {
					ts = uint64(time.Now().UnixNano())
				}
				if r.Del {
					v = nil
				}
				items = append(items, it{e, model.SVer{TS: ts, Del: r.Del, Val: v}})
			}
			sort.Slice(items, func(i, j int) bool { return bytes.Compare(items[i].e, items[j].e) < 0 })
			for _, x := range items {
				fl := uint32(0)
				if x.sv.Del {
					fl = 1
				}
				d.Entries = append(d.Entries, model.KV{Key: x.e, Val: model.ValOf(x.sv.Val), TS: x.sv.TS, Flags: fl})
			}
			snap := model.Snap{FormatVersion: 3, CompatVersion: 1, Meta: model.Meta{InstanceID: "peer", DatabaseName: "db"}, DBIs: []model.DBI{d}}
			t0 := uint64(time.Now().UnixNano())
			ret, localChanged, err := s.LoadOnce(ctx, env.Env, "peer", mkUpdate(snap, time.Unix(0, 9)), headerTxn(lastSynced))
			if err != nil {
				return fmt.Errorf("%s: LoadOnce: %v", step, err)
			}
			if localChanged {
				capture(t0)
				uncaptured = false
			}
			for _, x := range items {
				old, ok := shadow[string(x.e)]
				if !ok || model.Wins(old, x.sv) {
					shadow[string(x.e)] = x.sv
				}
			}
			project()
			if !localChanged {
				lastSynced = uint64(ret)
			} else {
				if err := compare(step + " after load"); err != nil {
					return err
				}
				mustRefuse := refusable()
				txnid, err := s.SendOnce(ctx, env.Env)
				if mustRefuse {
					// the union of local and merged remote pairs has no unique order-preserving mapping
					if err == nil {
						return fmt.Errorf("%s: unmappable merged content was not refused by the following upload", step)
					}
					o.Class("cycle-refused-after-merge")
					o.NonTrivial(true)
					return nil
				}
				if err != nil {
					return fmt.Errorf("%s: SendOnce after load: %v", step, err)
				}
				lastSynced = uint64(txnid)
				sends++
			}
		}
		if err := checkSecond(step); err != nil {
			return err
		}
		if err := compare(step); err != nil {
			return err
		}
	}
	shared := false
	seenK := map[string]int{}
	for _, p := range mainPairs {
		seenK[string(p[0])]++
		if seenK[string(p[0])] >= 2 {
			shared = true
		}
	}
	o.NonTrivial(sends >= 1 && shared)
	for i := 0; i < c.ExcludedEmpty; i++ {
		o.Excluded("shadow-empty-value")
	}
	o.ClassIf(c.SecondDBI, "second-duplicate-keys-dbi")
	o.ClassIf(c.DupFixed, "dupfixed")
	return nil
}

// refusedBy merges the loaded snapshot on a fresh instance with the given LMDB
// options: it must fail and leave that LMDB exactly as it was.
func refusedBy(loaded *snapshot.Snapshot, lc config.LMDB, existing bool) error {
	env := lm.New(16<<20, 8)
	defer env.Close()
	// some pre-existing content so that "unchanged" means something; optionally the receiver already has
	// an (ordinary) DBI of the same name - the stated transform must be refused all the same
	_ = env.Update(func(txn *lmdb.Txn) error {
		names := []string{"other"}
		if existing {
			names = append(names, "dup")
		}
		for _, n := range names {
			dbi, err := txn.OpenDBI(n, lmdb.Create)
			if err != nil {
				return err
			}
			val := []byte("plain")
			if lc.SchemaTracksChanges {
				val = model.BuildHeader(5, uint64(txn.ID()), 0, nil, []byte("v"))
			}
			if err := txn.Put(dbi, []byte("k"), val, 0); err != nil {
				return err
			}
		}
		return nil
	})
	if existing && !lc.SchemaTracksChanges {
		// steady state: the existing DBI has its shadow
		s0, _ := newShadowSyncer(env.Env, "r", lc)
		_ = env.Update(func(txn *lmdb.Txn) error { return s0.VerifMainToShadow(context.Background(), txn, 1000) })
	}
	s, _ := newShadowSyncer(env.Env, "r", lc)
	before, _ := lm.DumpEnv(env.Env)
	// re-decode a private copy: iteration state is per DBI object
	var buf bytes.Buffer
	if _, err := loaded.WriteTo(&buf); err != nil {
		return err
	}
	var g gogosnapshot.Snapshot
	if err := g.Unmarshal(buf.Bytes()); err != nil {
		return fmt.Errorf("harness: reference codec rejects uploaded snapshot: %v", err)
	}
	var cp snapshot.Snapshot
	if err := cp.Unmarshal(buf.Bytes()); err != nil {
		return err
	}
	upd := snapshot.Update{Snapshot: &cp, NameInfo: snapshot.NameInfo{Kind: snapshot.KindSnapshot, InstanceID: "a", Timestamp: time.Unix(0, 3)}}
	_, _, err := s.LoadOnce(context.Background(), env.Env, "a", upd, headerTxn(uint64(before.LastTxnID)))
	if err == nil {
		return fmt.Errorf("snapshot with transform %q was accepted", snapshot.TransformDupSortHackV1)
	}
	after, _ := lm.DumpEnv(env.Env)
	if d := before.Diff(after); d != "" {
		return fmt.Errorf("refused the snapshot but changed its LMDB: %s", d)
	}
	if before.LastTxnID != after.LastTxnID {
		return fmt.Errorf("refused the snapshot but committed a transaction")
	}
	return nil
}

func acceptedByFresh(loaded *snapshot.Snapshot, want map[string][2][]byte, flags uint, override bool) error {
	env := lm.New(32<<20, 8)
	defer env.Close()
	lc := config.LMDB{SchemaTracksChanges: false, DupSortHack: true}
	if override {
		// the documented way to tell a receiver of pre-v3 snapshots what kind of DBI to create
		fl := dbiflags.Flags(flags)
		lc.DBIOptions = map[string]config.DBIOptions{"dup": {OverrideCreateFlags: &fl}}
	}
	s, _ := newShadowSyncer(env.Env, "r", lc)
	var buf bytes.Buffer
	if _, err := loaded.WriteTo(&buf); err != nil {
		return err
	}
	var cp snapshot.Snapshot
	if err := cp.Unmarshal(buf.Bytes()); err != nil {
		return err
	}
	upd := snapshot.Update{Snapshot: &cp, NameInfo: snapshot.NameInfo{Kind: snapshot.KindSnapshot, InstanceID: "a", Timestamp: time.Unix(0, 3)}}
	if _, _, err := s.LoadOnce(context.Background(), env.Env, "a", upd, headerTxn(0)); err != nil {
		return fmt.Errorf("LoadOnce: %v", err)
	}
	dump, err := lm.DumpEnv(env.Env)
	if err != nil {
		return err
	}
	d := dump.DBI("dup")
	if d == nil {
		return fmt.Errorf("the DBI was not created")
	}
	if d.Flags != flags {
		return fmt.Errorf("the DBI was created with flags %#x, the sender's DBI has %#x", d.Flags, flags)
	}
	got := map[string]bool{}
	for _, e := range d.Entries {
		got[pairKey(e.Key, e.Val)] = true
	}
	for p := range want {
		if !got[p] {
			return fmt.Errorf("pair %q of the sender is missing (receiver has %d entries)", p, len(got))
		}
	}
	if len(got) != len(want) {
		return fmt.Errorf("receiver has %d pairs, sender %d", len(got), len(want))
	}
	// one more mirror cycle on the receiver: its application deletes a pair, the deletion is captured, the
	// same (older) snapshot arrives again - the pair stays deleted, the others stay
	if len(d.Entries) == 0 {
		return nil
	}
	victim := d.Entries[0]
	err = env.Update(func(txn *lmdb.Txn) error {
		dbi, err := txn.OpenDBI("dup", 0)
		if err != nil {
			return err
		}
		return txn.Del(dbi, victim.Key, victim.Val)
	})
	if err != nil {
		return fmt.Errorf("harness: delete on the receiver: %v", err)
	}
	last, err := s.SendOnce(context.Background(), env.Env)
	if err != nil {
		return fmt.Errorf("SendOnce on the receiver after a local delete: %v", err)
	}
	var cp2 snapshot.Snapshot
	if err := cp2.Unmarshal(buf.Bytes()); err != nil {
		return err
	}
	upd2 := snapshot.Update{Snapshot: &cp2, NameInfo: snapshot.NameInfo{Kind: snapshot.KindSnapshot, InstanceID: "a", Timestamp: time.Unix(0, 4)}}
	if _, _, err := s.LoadOnce(context.Background(), env.Env, "a", upd2, last); err != nil {
		return fmt.Errorf("second LoadOnce: %v", err)
	}
	dump2, err := lm.DumpEnv(env.Env)
	if err != nil {
		return err
	}
	got2 := map[string]bool{}
	if d2 := dump2.DBI("dup"); d2 != nil {
		for _, e := range d2.Entries {
			got2[pairKey(e.Key, e.Val)] = true
		}
	}
	if got2[pairKey(victim.Key, victim.Val)] {
		return fmt.Errorf("pair %q deleted by the receiver's application came back after the next mirror cycle", pairKey(victim.Key, victim.Val))
	}
	for p := range want {
		if p != pairKey(victim.Key, victim.Val) && !got2[p] {
			return fmt.Errorf("pair %q vanished from the receiver after a mirror cycle that only deleted another pair", p)
		}
	}
	return nil
}

func genC20Cycle(t *rapid.T) C20Cycle {
	var c C20Cycle
	bad := rapid.IntRange(0, 5).Draw(t, "allow_bad") == 0
	// MDB_DUPFIXED variant: all values of the DBI have one size
	c.DupFixed = !bad && rapid.IntRange(0, 3).Draw(t, "dupfixed") == 0
	c.SecondDBI = rapid.IntRange(0, 2).Draw(t, "second_dbi") == 0
	fixEmpty := func(ps []Pair) []Pair {
		for i := range ps {
			if ps[i].V.Len == 0 {
				c.ExcludedEmpty++
				ps[i].V = model.ValOf([]byte("e"))
			}
		}
		return ps
	}
	fixSize := func(ps []Pair) []Pair {
		if !c.DupFixed {
			return ps
		}
		for i := range ps {
			b := ps[i].V.Bytes()
			v := make([]byte, 4)
			copy(v, b)
			if len(b) == 0 || v[0] == 0 {
				v[0] = 'f'
			}
			ps[i].V = model.ValOf(v)
		}
		return ps
	}
	c.Initial = fixSize(fixEmpty(genPairs(t, bad)))
	n := rapid.IntRange(1, 8).Draw(t, "nsteps")
	for i := 0; i < n; i++ {
		var s C20Step
		s.Kind = rapid.SampledFrom([]string{"app", "send", "send", "remote", "replace", "replace", "rreplace"}).Draw(t, "kind")
		switch s.Kind {
		case "rreplace":
			s.Idx = rapid.IntRange(0, 20).Draw(t, "rridx")
		case "replace":
			s.Idx = rapid.IntRange(0, 20).Draw(t, "ridx")
			if rapid.Bool().Draw(t, "rlong") {
				s.LongOver = rapid.IntRange(1, 5).Draw(t, "rover")
			}
		case "app":
			s.Add = fixSize(fixEmpty(genPairs(t, bad)))
			s.DelIdx = rapid.SliceOfN(rapid.IntRange(0, 20), 0, 3).Draw(t, "del")
		case "remote":
			// remote pairs may carry values longer than the room left in the key (same shadow key, other value)
			for _, p := range fixSize(fixEmpty(genPairs(t, !c.DupFixed && rapid.Bool().Draw(t, "remote_long")))) {
				s.Remote = append(s.Remote, C20Remote{P: p, Del: rapid.IntRange(0, 3).Draw(t, "rdel") == 0, Age: rapid.IntRange(0, 20).Draw(t, "age")})
			}
		}
		c.Steps = append(c.Steps, s)
	}
	return c
}

func TestC20Cycle(t *testing.T) {
	vcore.Run(t, vcore.Config{Property: "C20",
		Rule: "rapid histories on a real MDB_DUPSORT application DBI with dupsort_hack (a third of them next to a second, static duplicate-keys DBI that is mirrored first and whose shadow keys sort after everything else): application pair insertions/deletions, replacement of a pair by one with the same key whose value differs in its last byte or only beyond the part embedded in the shadow key (values longer than the room left in the key), SendOnce, LoadOnce of peer snapshots carrying the transform; application pairs equal the model after every step, uploads carry transform + dupsort flag, a native-mode receiver and a shadow receiver without the hack refuse the snapshot and stay unchanged, unmappable content is refused without changing the LMDB; non-trivial = >=1 upload with >=2 pairs sharing a key, or a refusal"},
		genC20Cycle, checkC20Cycle)
}

func headerTxn(v uint64) header.TxnID { return header.TxnID(v) }

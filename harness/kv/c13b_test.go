package kv

import (
	"context"
	"fmt"
	"testing"
	"time"

	"github.com/PowerDNS/lightningstream/config"
	"github.com/PowerDNS/lightningstream/syncer"
	"github.com/PowerDNS/lightningstream/syncer/sweeper"
	"github.com/PowerDNS/lmdb-go/lmdb"
	"github.com/sirupsen/logrus"
	"pgregory.net/rapid"

	"verif/harness/internal/lm"
	"verif/harness/internal/model"
	"verif/harness/internal/vcore"
)

// ---------------------------------------------------------------------------
// C13 over several passes of ONE sweeper (as its Run loop does them): what a
// pass removes depends on the clock at the start of THAT pass, not on whether
// anybody has written to the LMDB since the previous pass. Markers that were
// too young for pass 1 and 2 have expired by pass 3, with no write in between.
// ---------------------------------------------------------------------------

type C13Aging struct {
	Native   bool `json:"native"`
	NSoon    int  `json:"n_soon"`
	NLive    int  `json:"n_live"`
	Between  bool `json:"write_between"` // an unrelated application write between pass 2 and pass 3
	IdlePass int  `json:"idle_passes"`   // extra passes that find nothing before the wait
}

func checkC13Aging(c C13Aging, o *vcore.Obs) error {
	env := lm.New(32<<20, 8)
	defer env.Close()
	const retention = 1500 * time.Millisecond
	conf := config.Sweeper{Enabled: true, RetentionDays: float32(retention.Seconds() / 86400), Interval: time.Hour, FirstInterval: time.Hour, LockDuration: 50 * time.Millisecond, ReleaseDuration: time.Millisecond}
	dbiName := "d"
	if !c.Native {
		dbiName = syncer.SyncDBIShadowPrefix + "d"
	}
	t0 := time.Now()
	put := func(txn *lmdb.Txn, dbi lmdb.DBI, key string, ts time.Time, del bool) error {
		fl, val := byte(0), []byte("v-"+key)
		if del {
			fl, val = 1, nil
		}
		return txn.Put(dbi, []byte(key), model.BuildHeader(uint64(ts.UnixNano()), uint64(txn.ID()), fl, nil, val), 0)
	}
	err := env.Update(func(txn *lmdb.Txn) error {
		dbi, err := txn.OpenDBI(dbiName, lmdb.Create)
		if err != nil {
			return err
		}
		if err := put(txn, dbi, "expired", t0.Add(-time.Minute), true); err != nil {
			return err
		}
		for i := 0; i < c.NSoon; i++ {
			// expire 0.9 s from now
			if err := put(txn, dbi, fmt.Sprintf("soon-%03d", i), t0.Add(-retention).Add(900*time.Millisecond), true); err != nil {
				return err
			}
		}
		if err := put(txn, dbi, "young", t0.Add(time.Hour), true); err != nil {
			return err
		}
		for i := 0; i < c.NLive; i++ {
			if err := put(txn, dbi, fmt.Sprintf("live-%03d", i), t0.Add(-time.Hour), false); err != nil {
				return err
			}
		}
		return nil
	})
	if err != nil {
		return fmt.Errorf("harness: %v", err)
	}
	sw := sweeper.New("c13db", conf, env.Env, logrus.StandardLogger(), c.Native)
	count := func() (map[string]bool, error) {
		d, err := lm.DumpEnv(env.Env)
		if err != nil {
			return nil, err
		}
		have := map[string]bool{}
		if x := d.DBI(dbiName); x != nil {
			for _, e := range x.Entries {
				have[string(e.Key)] = true
			}
		}
		return have, nil
	}
	for p := 0; p < 2+c.IdlePass; p++ {
		if err := sw.VerifSweepOnce(context.Background()); err != nil {
			return fmt.Errorf("pass %d: %v", p+1, err)
		}
	}
	have, err := count()
	if err != nil {
		return err
	}
	if have["expired"] {
		return fmt.Errorf("marker older than the retention survived the first passes")
	}
	early := time.Since(t0) < 700*time.Millisecond
	for i := 0; i < c.NSoon && early; i++ {
		if !have[fmt.Sprintf("soon-%03d", i)] {
			return fmt.Errorf("marker %d ms younger than the retention was removed", 900-time.Since(t0).Milliseconds())
		}
	}
	if c.Between {
		if err := env.Update(func(txn *lmdb.Txn) error {
			dbi, err := txn.OpenDBI("unrelated", lmdb.Create)
			if err != nil {
				return err
			}
			return txn.Put(dbi, []byte("k"), model.BuildHeader(uint64(time.Now().UnixNano()), uint64(txn.ID()), 0, nil, []byte("x")), 0)
		}); err != nil {
			return err
		}
	}
	// let the "soon" markers age past the retention; nobody writes meanwhile
	if d := time.Until(t0.Add(1100 * time.Millisecond)); d > 0 {
		time.Sleep(d)
	}
	if err := sw.VerifSweepOnce(context.Background()); err != nil {
		return fmt.Errorf("last pass: %v", err)
	}
	have, err = count()
	if err != nil {
		return err
	}
	for i := 0; i < c.NSoon; i++ {
		if have[fmt.Sprintf("soon-%03d", i)] {
			return fmt.Errorf("marker soon-%03d is %v older than the retention at the start of the pass (it expired while the database was idle) and survived it", i, time.Since(t0.Add(900*time.Millisecond)).Round(time.Millisecond))
		}
	}
	if !have["young"] {
		return fmt.Errorf("a marker dated in the future was removed")
	}
	for i := 0; i < c.NLive; i++ {
		if !have[fmt.Sprintf("live-%03d", i)] {
			return fmt.Errorf("live entry live-%03d was removed", i)
		}
	}
	o.NonTrivial(c.NSoon > 0)
	o.ClassIf(c.Between, "unrelated-write-before-the-last-pass")
	o.ClassIf(!c.Between, "no-write-between-passes")
	o.ClassIf(c.Native, "native")
	o.ClassIf(!c.Native, "shadow")
	return nil
}

func TestC13Aging(t *testing.T) {
	vcore.Run(t, vcore.Config{Property: "C13",
		Rule: "one sweeper object, retention 1.5 s: markers long expired, markers that expire 0.9 s after the start, a future-dated marker, live entries; 2-4 passes right away (the expired one goes, the others stay), optionally an unrelated write, then nothing happens until 1.1 s after the start, then one more pass: every marker that has expired by then is gone although nobody wrote to the LMDB, the rest is untouched; non-trivial = there are markers that expire in between"},
		func(t *rapid.T) C13Aging {
			return C13Aging{Native: rapid.Bool().Draw(t, "native"), NSoon: rapid.IntRange(1, 40).Draw(t, "nsoon"), NLive: rapid.IntRange(0, 20).Draw(t, "nlive"),
				Between: rapid.IntRange(0, 2).Draw(t, "between") == 0, IdlePass: rapid.IntRange(0, 2).Draw(t, "idle")}
		}, checkC13Aging)
}

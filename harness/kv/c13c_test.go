package kv

import (
	"context"
	"fmt"
	"sync/atomic"
	"testing"
	"time"

	"github.com/PowerDNS/lightningstream/config"
	"github.com/PowerDNS/lightningstream/syncer"
	"github.com/PowerDNS/lightningstream/syncer/sweeper"
	"github.com/PowerDNS/lightningstream/utils/vhook"
	"github.com/PowerDNS/lmdb-go/lmdb"
	"github.com/sirupsen/logrus"

	"verif/harness/internal/lm"
	"verif/harness/internal/model"
	"verif/harness/internal/vcore"
)

// ---------------------------------------------------------------------------
// C13, a pass that takes seconds (slices with a release pause between them):
// what expires is decided by the clock at the START of the pass. A marker that
// is still 1.5 s younger than the retention when the pass starts sits in the
// last slice, which runs two seconds later: it must survive this pass.
// ---------------------------------------------------------------------------

type enumC13Slow struct {
	Native bool `json:"native"`
}

func checkC13Slow(e enumC13Slow, o *vcore.Obs) error {
	env := lm.New(64<<20, 8)
	defer env.Close()
	const retention = 24 * time.Hour
	conf := config.Sweeper{Enabled: true, RetentionDays: 1, Interval: time.Hour, FirstInterval: time.Hour, LockDuration: time.Nanosecond, ReleaseDuration: time.Second}
	dbiName := "d"
	if !e.Native {
		dbiName = syncer.SyncDBIShadowPrefix + "d"
	}
	key := func(i int) []byte { return []byte(fmt.Sprintf("k%06d", i)) }
	base := time.Now()
	err := env.Update(func(txn *lmdb.Txn) error {
		dbi, err := txn.OpenDBI(dbiName, lmdb.Create)
		if err != nil {
			return err
		}
		for i := 0; i < 2500; i++ {
			if err := txn.Put(dbi, key(i), model.BuildHeader(uint64(base.UnixNano()), uint64(txn.ID()), 0, nil, []byte("live")), lmdb.Append); err != nil {
				return err
			}
		}
		return nil
	})
	if err != nil {
		return fmt.Errorf("harness: %v", err)
	}
	var firstSlice atomic.Int64
	vhook.Set(func(scope, point string, n uint64) {
		if scope == "c13slow" && point == "sweep.between-slices" {
			firstSlice.CompareAndSwap(0, time.Now().UnixNano())
		}
	})
	defer vhook.Set(nil)
	sw := sweeper.New("c13slow", conf, env.Env, logrus.StandardLogger(), e.Native)
	tStart := time.Now()
	marks := map[int]time.Time{
		2400: tStart.Add(-retention).Add(1500 * time.Millisecond), // young at the start of the pass (by 1.5 s)
		2401: tStart.Add(-retention).Add(-10 * time.Second),       // expired
		2402: tStart.Add(-retention).Add(time.Minute),             // clearly young
		10:   tStart.Add(-retention).Add(-10 * time.Second),       // expired, first slice
	}
	err = env.Update(func(txn *lmdb.Txn) error {
		dbi, err := txn.OpenDBI(dbiName, 0)
		if err != nil {
			return err
		}
		for i, ts := range marks {
			if err := txn.Put(dbi, key(i), model.BuildHeader(uint64(ts.UnixNano()), uint64(txn.ID()), 1, nil, nil), 0); err != nil {
				return err
			}
		}
		return nil
	})
	if err != nil {
		return fmt.Errorf("harness: %v", err)
	}
	if err := sw.VerifSweepOnce(context.Background()); err != nil {
		return fmt.Errorf("sweep pass failed: %v", err)
	}
	took := time.Since(tStart)
	t1 := firstSlice.Load()
	if t1 == 0 {
		return fmt.Errorf("harness: the pass over 2500 entries with a 1 ns lock duration was not sliced")
	}
	if lag := time.Duration(t1 - tStart.UnixNano()); lag > 700*time.Millisecond {
		// the first slice ended late (overloaded machine): the pass may have started up to that much after the
		// harness read the clock, and the 1.5 s margin is no longer certain
		o.Class("inconclusive-first-slice-late")
		return nil
	}
	present := func(i int) bool {
		ok := false
		_ = env.View(func(txn *lmdb.Txn) error {
			dbi, err := txn.OpenDBI(dbiName, 0)
			if err != nil {
				return nil
			}
			_, err = txn.Get(dbi, key(i))
			ok = err == nil
			return nil
		})
		return ok
	}
	if !present(2400) {
		return fmt.Errorf("a marker that was 1.5 s YOUNGER than the retention when the pass started was removed by a slice that ran later in the same pass (the pass took %v): what expires is decided at the start of the pass", took)
	}
	if !present(2402) {
		return fmt.Errorf("a marker one minute younger than the retention was removed")
	}
	if present(2401) || present(10) {
		return fmt.Errorf("a marker 10 s older than the retention at the start of the pass survived it")
	}
	o.NonTrivial(took > 1500*time.Millisecond)
	o.ClassIf(took > 1500*time.Millisecond, "pass-longer-than-the-margin")
	return nil
}

func TestC13SlowPass(t *testing.T) {
	vcore.RunEnum(t, vcore.Config{Property: "C13",
		Rule: "enumeration {native, non-native}: 2500 entries, lock duration 1 ns and release duration 1 s (three slices, the pass takes two seconds); markers 10 s older than the retention at the start of the pass (first and last slice: removed), one minute younger (kept) and 1.5 s younger, in the last slice (kept: the cutoff is the one of the start of the pass); inconclusive when the first slice ends more than 0.7 s after the harness read the clock; non-trivial = the pass took longer than the 1.5 s margin"},
		func(yield func(enumC13Slow) bool) {
			for _, native := range []bool{true, false} {
				if !yield(enumC13Slow{Native: native}) {
					return
				}
			}
		}, checkC13Slow)
}

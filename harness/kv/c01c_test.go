package kv

import (
	"context"
	"fmt"
	"testing"
	"time"

	"github.com/PowerDNS/lightningstream/config"
	"github.com/PowerDNS/lightningstream/snapshot"
	"github.com/PowerDNS/lmdb-go/lmdb"
	"pgregory.net/rapid"

	"verif/harness/internal/lm"
	"verif/harness/internal/vcore"
)

// ---------------------------------------------------------------------------
// C01 with application transactions that are still OPEN (holding the LMDB write
// lock) when the instance starts an upload or a merge: whatever the syncer read
// before it got the lock is stale by then. Two shadow-mode instances, wall-clock
// stamps (no ties); the application writes existing keys, new keys and whole new
// DBIs; after the history the instances exchange snapshots the way the sync loop
// does (an upload only when the LMDB changed since the last synced transaction)
// until nothing changes. Then both applications must see identical content, and
// it must be the last thing written per key.
// ---------------------------------------------------------------------------

type C01cOp struct {
	Inst int  `json:"inst"`
	DBI  int  `json:"dbi"`
	Key  int  `json:"key"`
	Del  bool `json:"del,omitempty"`
	Held bool `json:"held,omitempty"` // the transaction commits 2 ms after the following upload / merge was started
	// Then: what the instance does next - upload | merge. (Every write is followed by one of them, so that it is
	// detected - stamped - before the next write of the history happens: detection order = write order.)
	Then string `json:"then"`
}

type C01c struct {
	Ops []C01cOp `json:"ops"`
}

func checkC01c(c C01c, o *vcore.Obs) error {
	ctx := context.Background()
	var insts [2]*dupInst
	for i := range insts {
		env := lm.New(32<<20, 16)
		defer env.Close()
		s, st := newShadowSyncer(env.Env, fmt.Sprintf("i%d", i), config.LMDB{SchemaTracksChanges: false})
		insts[i] = &dupInst{name: fmt.Sprintf("i%d", i), env: env, s: s, st: st}
	}
	want := map[string]map[string]string{} // the last write per key, over both instances (history is sequential)
	seq := 0
	heldNewDBI, heldOps := 0, 0
	created := [2]map[string]bool{{}, {}}
	exchangeFrom := func(x, y *dupInst) error {
		sn, err := x.send(ctx)
		if err != nil {
			return fmt.Errorf("SendOnce on %s: %v", x.name, err)
		}
		if sn == nil {
			return nil
		}
		seq++
		if err := y.load(ctx, x.name, sn, seq); err != nil {
			return fmt.Errorf("LoadOnce of %s's snapshot on %s: %v", x.name, y.name, err)
		}
		return nil
	}
	for oi, op := range c.Ops {
		in, other := insts[op.Inst%2], insts[(op.Inst+1)%2]
		dbiName := fmt.Sprintf("d%d", op.DBI%3)
		key := fmt.Sprintf("k%d", op.Key%3)
		val := fmt.Sprintf("v%d", oi)
		step := fmt.Sprintf("step %d (%s %s/%s on %s, then %s)", oi, map[bool]string{false: "put", true: "del"}[op.Del], dbiName, key, in.name, op.Then)
		noop := false // a deletion of a key this instance does not hold changes nothing (nothing to detect)
		write := func(hold func()) error {
			return in.env.Update(func(txn *lmdb.Txn) error {
				if hold != nil {
					defer hold()
				}
				dbi, err := txn.OpenDBI(dbiName, lmdb.Create)
				if err != nil {
					return err
				}
				if op.Del {
					err := txn.Del(dbi, []byte(key), nil)
					if lmdb.IsNotFound(err) {
						noop = true
						return nil
					}
					return err
				}
				return txn.Put(dbi, []byte(key), []byte(val), 0)
			})
		}
		if want[dbiName] == nil {
			want[dbiName] = map[string]string{}
		}
		var done chan error
		if op.Held && op.Then != "none" {
			holding, release := make(chan struct{}), make(chan struct{})
			done = make(chan error, 1)
			go func() { done <- write(func() { close(holding); <-release }) }()
			select {
			case <-holding:
			case <-time.After(20 * time.Second):
				close(release)
				return fmt.Errorf("%s: harness: no write lock within 20 s", step)
			}
			go func() { time.Sleep(2 * time.Millisecond); close(release) }()
			heldOps++
			if !created[op.Inst%2][dbiName] {
				heldNewDBI++
			}
		} else if err := write(nil); err != nil {
			return fmt.Errorf("%s: harness: %v", step, err)
		}
		created[op.Inst%2][dbiName] = true
		var err error
		switch op.Then {
		case "upload":
			_, err = in.send(ctx)
			if err != nil {
				err = fmt.Errorf("SendOnce: %v", err)
			}
		case "merge":
			// the peer's current state arrives
			err = exchangeFrom(other, in)
		}
		if done != nil {
			if herr := <-done; herr != nil && err == nil {
				err = fmt.Errorf("harness: held transaction: %v", herr)
			}
		}
		if err != nil {
			return fmt.Errorf("%s: %w", step, err)
		}
		switch {
		case op.Del && !noop:
			delete(want[dbiName], key)
		case !op.Del:
			want[dbiName][key] = val
		}
		// a later write must be detected later: keep the wall-clock stamps of consecutive steps apart
		time.Sleep(50 * time.Microsecond)
	}
	// quiescence, the way the loop does it: an instance uploads when it never has or when its LMDB changed since the
	// last transaction it synced; the other one merges every snapshot it has not merged yet
	newestOf := func(d *dupInst) (string, error) {
		ls, err := d.st.List(ctx, "")
		if err != nil {
			return "", err
		}
		names := ls.Names()
		if len(names) == 0 {
			return "", nil
		}
		return names[len(names)-1], nil
	}
	merged := map[string]string{} // "receiver<-sender" -> name of the sender's snapshot merged last
	for round := 0; ; round++ {
		if round > 8 {
			return fmt.Errorf("no quiescence after 8 rounds of exchanging snapshots")
		}
		changed := false
		for i := range insts {
			x, y := insts[i], insts[1-i]
			if lm.LastTxnID(x.env.Env) > int64(x.last) { // (an instance with an empty LMDB uploads nothing)
				if _, err := x.send(ctx); err != nil {
					return fmt.Errorf("quiescence round %d: SendOnce on %s: %v", round, x.name, err)
				}
				changed = true
			}
			name, err := newestOf(x)
			if err != nil {
				return err
			}
			if name == "" || merged[y.name+"<-"+x.name] == name {
				continue
			}
			blob, err := x.st.Load(ctx, name)
			if err != nil {
				return err
			}
			sn, err := snapshot.LoadData(blob)
			if err != nil {
				return fmt.Errorf("snapshot %s of %s: %v", name, x.name, err)
			}
			seq++
			if err := y.load(ctx, x.name, sn, seq); err != nil {
				return fmt.Errorf("quiescence round %d: LoadOnce of %s on %s: %v", round, name, y.name, err)
			}
			merged[y.name+"<-"+x.name] = name
			changed = true
		}
		if !changed {
			break
		}
	}
	view := func(d *dupInst) (map[string]map[string]string, error) {
		dump, err := lm.DumpEnv(d.env.Env)
		if err != nil {
			return nil, err
		}
		m := map[string]map[string]string{}
		for _, dd := range dump.DBIs {
			if len(dd.Name) >= 5 && dd.Name[:5] == "_sync" {
				continue
			}
			m[dd.Name] = map[string]string{}
			for _, e := range dd.Entries {
				m[dd.Name][string(e.Key)] = string(e.Val)
			}
		}
		return m, nil
	}
	for _, d := range insts {
		got, err := view(d)
		if err != nil {
			return err
		}
		for dn, keys := range want {
			for k, v := range keys {
				if gv, ok := got[dn][k]; !ok || gv != v {
					return fmt.Errorf("after quiescence the application of %s sees %s/%s = %q (present=%v); the last version written anywhere is %q", d.name, dn, k, gv, ok, v)
				}
			}
		}
		for dn, keys := range got {
			for k, v := range keys {
				if _, ok := want[dn][k]; !ok {
					return fmt.Errorf("after quiescence the application of %s sees %s/%s = %q, but the last thing written for that key anywhere was its deletion", d.name, dn, k, v)
				}
			}
		}
	}
	o.NonTrivial(heldOps > 0)
	o.ClassIf(heldNewDBI > 0, "dbi-created-by-a-transaction-that-was-open-when-an-upload-or-merge-started")
	o.ClassIf(heldOps > 0, "app-txn-open-when-an-upload-or-merge-started")
	return nil
}

func TestC01Contended(t *testing.T) {
	vcore.Run(t, vcore.Config{Property: "C01",
		Rule: "rapid histories over two shadow-mode instances with wall-clock stamps: puts / deletes on 3 DBIs x 3 keys (a first write creates the DBI), each followed by an upload or a merge of the peer's current state (so that detection order = write order); half of the transactions are still open - holding the write lock - when that upload / merge starts and commit 2 ms later; then exchanges as the loop does them (upload only when the LMDB changed since the last synced transaction) until nothing changes: both applications see, per key, the last version written anywhere; non-trivial = at least one held transaction"},
		func(t *rapid.T) C01c {
			var c C01c
			for i := rapid.IntRange(1, 8).Draw(t, "n"); i > 0; i-- {
				c.Ops = append(c.Ops, C01cOp{Inst: rapid.IntRange(0, 1).Draw(t, "inst"), DBI: rapid.IntRange(0, 2).Draw(t, "dbi"), Key: rapid.IntRange(0, 2).Draw(t, "key"),
					Del: rapid.IntRange(0, 3).Draw(t, "del") == 0, Held: rapid.Bool().Draw(t, "held"),
					Then: rapid.SampledFrom([]string{"upload", "upload", "merge"}).Draw(t, "then")})
			}
			return c
		}, checkC01c)
}

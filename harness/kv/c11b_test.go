package kv

import (
	"context"
	"fmt"
	"sync/atomic"
	"testing"
	"time"

	"github.com/PowerDNS/lightningstream/config"
	"github.com/PowerDNS/lightningstream/syncer"
	"github.com/PowerDNS/lmdb-go/lmdb"
	"pgregory.net/rapid"

	"verif/harness/internal/lm"
	"verif/harness/internal/model"
	"verif/harness/internal/vcore"
)

// ---------------------------------------------------------------------------
// C11, "stamped with the time of detection": a sync step that has to wait for
// the LMDB write lock detects the application's change only once it holds the
// lock. The application's transaction is open when the step starts and commits
// later; the version captured for it must not be stamped earlier than the
// moment the application wrote (otherwise an older version of a peer could
// still win against it).
// ---------------------------------------------------------------------------

type C11Contended struct {
	Step    string   `json:"step"` // load | send
	HoldMs  int      `json:"hold_ms"`
	Changes []string `json:"changes"` // insert | overwrite | delete
	Peer    bool     `json:"peer"`    // load: the peer snapshot carries an (older) version of a changed key
}

func checkC11Contended(c C11Contended, o *vcore.Obs) error {
	env := lm.New(32<<20, 16)
	defer env.Close()
	s, _ := newShadowSyncer(env.Env, "a", config.LMDB{SchemaTracksChanges: false})
	ctx := context.Background()
	err := env.Update(func(txn *lmdb.Txn) error {
		dbi, err := txn.OpenDBI("d", lmdb.Create)
		if err != nil {
			return err
		}
		for _, k := range []string{"keep", "ow", "del"} {
			if err := txn.Put(dbi, []byte(k), []byte("old"), 0); err != nil {
				return err
			}
		}
		return nil
	})
	if err != nil {
		return err
	}
	// steady state: upload once (captures everything)
	txnID, err := s.SendOnce(ctx, env.Env)
	if err != nil {
		return fmt.Errorf("initial SendOnce: %v", err)
	}
	started, release, done := make(chan struct{}), make(chan struct{}), make(chan error, 1)
	var wroteAt atomic.Int64
	go func() {
		done <- env.Update(func(txn *lmdb.Txn) error {
			close(started)
			<-release
			dbi, err := txn.OpenDBI("d", 0)
			if err != nil {
				return err
			}
			for _, ch := range c.Changes {
				switch ch {
				case "insert":
					err = txn.Put(dbi, []byte("ins"), []byte("new"), 0)
				case "overwrite":
					err = txn.Put(dbi, []byte("ow"), []byte("new"), 0)
				case "delete":
					err = txn.Del(dbi, []byte("del"), nil)
				}
				if err != nil {
					return err
				}
			}
			wroteAt.Store(time.Now().UnixNano())
			return nil
		})
	}()
	<-started
	stepDone := make(chan error, 1)
	go func() {
		if c.Step == "send" {
			_, err := s.SendOnce(ctx, env.Env)
			stepDone <- err
			return
		}
		snap := model.Snap{FormatVersion: 3, CompatVersion: 1, Meta: model.Meta{InstanceID: "peer", DatabaseName: "db", TimestampNano: 77}}
		if c.Peer {
			// a version of the overwritten key written by a peer a minute ago: older than the application's change
			old := uint64(time.Now().Add(-time.Minute).UnixNano())
			snap.DBIs = []model.DBI{{Name: "d", Entries: []model.KV{{Key: []byte("ow"), Val: model.ValOf([]byte("peer")), TS: old}}}}
		}
		_, _, err := s.LoadOnce(ctx, env.Env, "peer", mkUpdate(snap, time.Unix(0, 77)), txnID)
		stepDone <- err
	}()
	time.Sleep(time.Duration(c.HoldMs) * time.Millisecond) // the step is now waiting for the write lock
	close(release)
	if err := <-done; err != nil {
		return fmt.Errorf("harness: application transaction: %v", err)
	}
	if err := <-stepDone; err != nil {
		return fmt.Errorf("%s: %v", c.Step, err)
	}
	after := time.Now().UnixNano()
	dump, err := lm.DumpEnv(env.Env)
	if err != nil {
		return err
	}
	sh := dump.DBI(syncer.SyncDBIShadowPrefix + "d")
	if sh == nil {
		return fmt.Errorf("no shadow DBI")
	}
	changed := map[string]bool{}
	for _, ch := range c.Changes {
		changed[map[string]string{"insert": "ins", "overwrite": "ow", "delete": "del"}[ch]] = true
	}
	seen := map[string]bool{}
	for _, e := range sh.Entries {
		h, err := model.ReadHeader(e.Val)
		if err != nil {
			return err
		}
		k := string(e.Key)
		seen[k] = true
		if !changed[k] {
			continue
		}
		if int64(h.TS) < wroteAt.Load() {
			return fmt.Errorf("%s step: the application's change of %q was captured with timestamp %d, which is %v BEFORE the application wrote it (the step was waiting for the write lock; detection happens once it holds the lock)", c.Step, k, h.TS, time.Duration(wroteAt.Load()-int64(h.TS)))
		}
		if int64(h.TS) > after {
			return fmt.Errorf("%s step: change of %q stamped in the future", c.Step, k)
		}
		wantDel := k == "del"
		if (h.Flags&1 != 0) != wantDel {
			return fmt.Errorf("%s step: change of %q captured with deleted=%v", c.Step, k, h.Flags&1 != 0)
		}
	}
	for k := range changed {
		if !seen[k] {
			return fmt.Errorf("%s step: the application's change of %q was not captured at all", c.Step, k)
		}
	}
	// and the application still sees its own (newest) data
	app := dump.DBI("d")
	have := map[string]string{}
	for _, e := range app.Entries {
		have[string(e.Key)] = string(e.Val)
	}
	for _, ch := range c.Changes {
		switch ch {
		case "insert":
			if have["ins"] != "new" {
				return fmt.Errorf("application's insert lost: %q", have["ins"])
			}
		case "overwrite":
			if have["ow"] != "new" {
				return fmt.Errorf("application's overwrite replaced by %q (an older peer version won against a change stamped too early?)", have["ow"])
			}
		case "delete":
			if _, ok := have["del"]; ok {
				return fmt.Errorf("application's delete undone")
			}
		}
	}
	o.NonTrivial(len(c.Changes) > 0)
	o.Class("step-" + c.Step)
	return nil
}

func TestC11Contended(t *testing.T) {
	vcore.Run(t, vcore.Config{Property: "C11",
		Rule: "rapid: shadow-mode instance in steady state; the application opens a write transaction, the sync step (LoadOnce of a peer snapshot, or SendOnce) starts and waits for the write lock, the application writes (insert / overwrite / delete), notes the time and commits 2-25 ms later; every version captured for those changes must carry a timestamp not earlier than the application's write and not in the future, with the right deleted flag, and the application keeps seeing its own data (the peer's older version of an overwritten key must not win); non-trivial = >= 1 change"},
		func(t *rapid.T) C11Contended {
			c := C11Contended{Step: rapid.SampledFrom([]string{"load", "load", "send"}).Draw(t, "step"), HoldMs: rapid.SampledFrom([]int{2, 5, 25}).Draw(t, "hold"), Peer: rapid.Bool().Draw(t, "peer")}
			for _, ch := range []string{"insert", "overwrite", "delete"} {
				if rapid.IntRange(0, 2).Draw(t, ch) > 0 {
					c.Changes = append(c.Changes, ch)
				}
			}
			return c
		}, checkC11Contended)
}

package kv

import (
	"bytes"
	"fmt"
	"runtime"
	"sort"
	"sync"
	"testing"

	"github.com/PowerDNS/lightningstream/lmdbenv/header"
	"github.com/PowerDNS/lightningstream/lmdbenv/strategy"
	"github.com/PowerDNS/lightningstream/snapshot"
	"github.com/PowerDNS/lightningstream/syncer"
	"github.com/PowerDNS/lmdb-go/lmdb"
	"pgregory.net/rapid"

	"verif/harness/internal/lm"
	"verif/harness/internal/model"
	"verif/harness/internal/vcore"
)

// ---------------------------------------------------------------------------
// C14 with two databases synced in ONE process (the daemon's normal set-up: one
// syncer per configured LMDB): the values one syncer writes are well-formed and
// its own whatever the other one does at the same time. Each side runs the
// capture pass the way mainToShadow does (strategy.IterUpdate over the
// application's current entries with the real NativeIterator, default timestamp,
// deletion markers for keys that disappeared - written AFTER the input has
// ended); the iterators are wrapped so that the processor is handed to the
// other side around every call.
// ---------------------------------------------------------------------------

type TwoEntry struct {
	Key int    `json:"key"`
	Val string `json:"val,omitempty"`
	Del bool   `json:"del,omitempty"` // stored entries only
}

type TwoSide struct {
	Stored []TwoEntry `json:"stored"` // what the shadow DBI holds (stamped 1000+i by transaction 1)
	Input  []TwoEntry `json:"input"`  // the application's current entries
	Yields []int      `json:"yields"` // how often the processor is yielded before / after the n-th iterator call
}

type TwoCase struct {
	Sides []TwoSide `json:"sides"`
	Procs int       `json:"procs"`
}

// yielding wraps a strategy.Iterator: the other goroutines get the processor around every call.
type yielding struct {
	it     strategy.Iterator
	yields []int
	n      int
}

func (y *yielding) pause() {
	k := 1
	if len(y.yields) > 0 {
		k = y.yields[y.n%len(y.yields)]
	}
	y.n++
	for i := 0; i < k; i++ {
		runtime.Gosched()
	}
}

func (y *yielding) Next() ([]byte, error) {
	y.pause()
	k, err := y.it.Next()
	y.pause()
	return k, err
}

func (y *yielding) Merge(old []byte) ([]byte, error) {
	y.pause()
	v, err := y.it.Merge(old)
	y.pause()
	return v, err
}

func (y *yielding) Clean(old []byte) ([]byte, error) {
	y.pause()
	v, err := y.it.Clean(old)
	y.pause()
	return v, err
}

func twoKey(i int) []byte { return []byte(fmt.Sprintf("key-%02d", i)) }

func checkTwoSyncers(c TwoCase, o *vcore.Obs) error {
	if c.Procs > 0 {
		defer runtime.GOMAXPROCS(runtime.GOMAXPROCS(c.Procs))
	}
	type side struct {
		env     *lm.Env
		txnID   uint64
		defTS   uint64
		err     error
		before  map[string][]byte
		cleaned int
	}
	sides := make([]*side, len(c.Sides))
	for si, sc := range c.Sides {
		s := &side{env: lm.New(16<<20, 4), defTS: uint64(5_000_000 + si), before: map[string][]byte{}}
		defer s.env.Close()
		sides[si] = s
		err := s.env.Update(func(txn *lmdb.Txn) error {
			dbi, err := txn.OpenDBI("d", lmdb.Create)
			if err != nil {
				return err
			}
			for i, e := range sc.Stored {
				fl, val := byte(0), []byte(e.Val)
				if e.Del {
					fl, val = 1, nil
				}
				raw := model.BuildHeader(uint64(1000+i), uint64(txn.ID()), fl, nil, val)
				if err := txn.Put(dbi, twoKey(e.Key), raw, 0); err != nil {
					return err
				}
				s.before[string(twoKey(e.Key))] = raw
			}
			return nil
		})
		if err != nil {
			return fmt.Errorf("harness: %v", err)
		}
	}
	var wg sync.WaitGroup
	start := make(chan struct{})
	for si := range c.Sides {
		wg.Add(1)
		go func(si int) {
			defer wg.Done()
			s, sc := sides[si], c.Sides[si]
			in := append([]TwoEntry(nil), sc.Input...)
			sort.Slice(in, func(i, j int) bool { return bytes.Compare(twoKey(in[i].Key), twoKey(in[j].Key)) < 0 })
			msg := snapshot.NewDBISize(1024)
			msg.SetName("d")
			for _, e := range in {
				msg.Append(snapshot.KV{Key: twoKey(e.Key), Value: []byte(e.Val)})
			}
			<-start
			s.err = s.env.Update(func(txn *lmdb.Txn) error {
				dbi, err := txn.OpenDBI("d", 0)
				if err != nil {
					return err
				}
				s.txnID = uint64(txn.ID())
				it, err := syncer.NewNativeIterator(snapshot.CurrentFormatVersion, snapshot.WriteCompatFormatVersion, msg, header.Timestamp(s.defTS), header.TxnID(txn.ID()), 0)
				if err != nil {
					return err
				}
				return strategy.IterUpdate(txn, dbi, &yielding{it: it, yields: sc.Yields})
			})
		}(si)
	}
	close(start)
	wg.Wait()
	trailing := 0
	for si, sc := range c.Sides {
		s := sides[si]
		if s.err != nil {
			return fmt.Errorf("side %d: capture pass failed: %v", si, s.err)
		}
		want := map[string]model.SVer{}
		inInput := map[string]bool{}
		maxInput := ""
		for _, e := range sc.Input {
			k := string(twoKey(e.Key))
			inInput[k] = true
			if k > maxInput {
				maxInput = k
			}
		}
		for i, e := range sc.Stored {
			want[string(twoKey(e.Key))] = model.SVer{TS: uint64(1000 + i), Del: e.Del, Val: []byte(e.Val)}
			if e.Del {
				v := want[string(twoKey(e.Key))]
				v.Val = nil
				want[string(twoKey(e.Key))] = v
			}
		}
		for _, e := range sc.Input {
			k := string(twoKey(e.Key))
			if old, ok := want[k]; ok && !old.Del && bytes.Equal(old.Val, []byte(e.Val)) {
				continue // unchanged: keeps its version
			}
			want[k] = model.SVer{TS: s.defTS, Val: []byte(e.Val)}
		}
		for k, old := range want {
			if !inInput[k] && !old.Del {
				want[k] = model.SVer{TS: s.defTS, Del: true}
				if k > maxInput {
					trailing++
				}
			}
		}
		dump, err := lm.DumpEnv(s.env.Env)
		if err != nil {
			return err
		}
		d := dump.DBI("d")
		got := map[string][]byte{}
		if d != nil {
			for _, e := range d.Entries {
				got[string(e.Key)] = e.Val
			}
		}
		for k, w := range want {
			raw, ok := got[k]
			if !ok {
				return fmt.Errorf("side %d: key %s missing after the pass, want %+v", si, k, w)
			}
			h, err := model.ReadHeader(raw)
			if err != nil {
				return fmt.Errorf("side %d: key %s: stored value does not parse: %v (%x)", si, k, err, raw)
			}
			if h.TS != w.TS || (h.Flags&1 != 0) != w.Del || !bytes.Equal(h.AppVal, w.Val) {
				return fmt.Errorf("side %d (transaction %d, default timestamp %d): key %s holds (ts=%d flags=%#x txn=%d val=%q), want (ts=%d del=%v val=%q) - written while %d other syncer(s) worked in the same process", si, s.txnID, s.defTS, k, h.TS, h.Flags, h.TxnID, h.AppVal, w.TS, w.Del, w.Val, len(c.Sides)-1)
			}
			if !bytes.Equal(raw, s.before[k]) {
				if _, err := model.CheckLSWritten(raw, s.txnID, false); err != nil {
					return fmt.Errorf("side %d: key %s written by this pass: %v", si, k, err)
				}
			}
		}
		if len(got) != len(want) {
			return fmt.Errorf("side %d: %d entries after the pass, want %d", si, len(got), len(want))
		}
	}
	o.NonTrivial(len(c.Sides) >= 2 && trailing > 0)
	o.ClassIf(trailing > 0, "markers-written-after-the-input-ended")
	o.Class(fmt.Sprintf("gomaxprocs-%d", c.Procs))
	return nil
}

func TestC14TwoSyncers(t *testing.T) {
	vcore.Run(t, vcore.Config{Property: "C14",
		Rule: "rapid: 2-3 LMDBs in one process, each with a DBI of stored versions (live / deleted) and a set of current application entries; one goroutine per LMDB runs the capture pass (strategy.IterUpdate with the real NativeIterator, default timestamp, markers for vanished keys - also after the input has ended) with the processor yielded 0-3 times around every iterator call (GOMAXPROCS 1, 2 or unchanged); afterwards every entry of every LMDB is what its own pass prescribes, and every value written carries its own transaction id and is well-formed; non-trivial = >=2 sides and at least one marker written after the end of an input"},
		func(t *rapid.T) TwoCase {
			var c TwoCase
			c.Procs = rapid.SampledFrom([]int{1, 1, 2, 0}).Draw(t, "procs")
			for s := rapid.IntRange(2, 3).Draw(t, "sides"); s > 0; s-- {
				var sd TwoSide
				for k := 0; k < 8; k++ {
					switch rapid.IntRange(0, 4).Draw(t, "stored") {
					case 0, 1:
						sd.Stored = append(sd.Stored, TwoEntry{Key: k, Val: fmt.Sprintf("value-of-%d", k)})
					case 2:
						sd.Stored = append(sd.Stored, TwoEntry{Key: k, Del: true})
					}
					switch rapid.IntRange(0, 3).Draw(t, "input") {
					case 0:
						sd.Input = append(sd.Input, TwoEntry{Key: k, Val: fmt.Sprintf("value-of-%d", k)})
					case 1:
						sd.Input = append(sd.Input, TwoEntry{Key: k, Val: fmt.Sprintf("new-%d", k)})
					}
				}
				// often: the last keys are stored live and gone from the application (markers after the input ended)
				if rapid.Bool().Draw(t, "tail") {
					for k := 8; k < 8+rapid.IntRange(1, 3).Draw(t, "ntail"); k++ {
						sd.Stored = append(sd.Stored, TwoEntry{Key: k, Val: fmt.Sprintf("value-of-%d", k)})
					}
				}
				for i := rapid.IntRange(1, 5).Draw(t, "nyields"); i > 0; i-- {
					sd.Yields = append(sd.Yields, rapid.IntRange(0, 3).Draw(t, "yield"))
				}
				c.Sides = append(c.Sides, sd)
			}
			return c
		}, checkTwoSyncers)
}

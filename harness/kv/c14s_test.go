package kv

import (
	"bytes"
	"compress/gzip"
	"context"
	"fmt"
	"io"
	"os"
	"os/exec"
	"strings"
	"testing"

	"github.com/PowerDNS/lightningstream/config"
	"github.com/PowerDNS/lightningstream/snapshot/gogosnapshot"
	"github.com/PowerDNS/lmdb-go/lmdb"
	"pgregory.net/rapid"

	"verif/harness/internal/gen"
	"verif/harness/internal/lm"
	"verif/harness/internal/model"
	"verif/harness/internal/vcore"
)

// ---------------------------------------------------------------------------
// C14 at the level of the syncer: a native DBI holding a stored value that is
// too short for a header, or carries another header version, makes the dump
// fail with an error (nothing is uploaded) - it is never misread; values with
// extension blocks written by others are dumped with exactly the application
// value that follows all extension blocks.
// ---------------------------------------------------------------------------

type C14Stored struct {
	Key model.Bytes `json:"key"`
	// Kind: good | ext (good, with NExt extension blocks) | short (1..23 bytes) | version (header version != 0) | empty
	Kind string      `json:"kind"`
	NExt int         `json:"n_ext,omitempty"`
	Raw  model.Bytes `json:"raw,omitempty"`
	Val  model.Bytes `json:"val,omitempty"`
}

type C14StoredCase struct {
	Entries []C14Stored `json:"entries"`
	// ExcludedEmpty: empty stored values redirected to one byte (known finding native-empty-stored-value-crash)
	ExcludedEmpty int  `json:"excluded_empty,omitempty"`
	AllowEmpty    bool `json:"allow_empty,omitempty"` // only set by the known-finding reproduction
}

func (e C14Stored) bytes(txn uint64, i int) (stored []byte, bad bool) {
	ts := uint64(1_700_000_000_000_000_000 + i)
	switch e.Kind {
	case "short", "empty":
		return e.Raw, true
	case "version":
		b := model.BuildHeader(ts, txn, 0, nil, e.Val)
		b[16] = 1 + byte(len(e.Val)%200)
		return b, true
	case "ext":
		return model.BuildHeader(ts, txn, 0, make([]byte, 8*e.NExt), e.Val), false
	}
	return model.BuildHeader(ts, txn, 0, nil, e.Val), false
}

func checkC14Stored(c C14StoredCase, o *vcore.Obs) error {
	env := lm.New(32<<20, 8)
	defer env.Close()
	s, st := newShadowSyncer(env.Env, "a", config.LMDB{SchemaTracksChanges: true})
	anyBad := false
	want := map[string][]byte{}
	err := env.Update(func(txn *lmdb.Txn) error {
		dbi, err := txn.OpenDBI("d", lmdb.Create)
		if err != nil {
			return err
		}
		for i, e := range c.Entries {
			b, bad := e.bytes(uint64(txn.ID()), i)
			if len(b) == 0 && !c.AllowEmpty {
				b = []byte{0}
			}
			if err := txn.Put(dbi, e.Key, b, 0); err != nil {
				return err
			}
			want[string(e.Key)] = e.Val
			_ = bad
		}
		// what counts is what is stored in the end (later entries overwrite earlier ones with the same key)
		return nil
	})
	if err != nil {
		return fmt.Errorf("harness: %v", err)
	}
	last := map[string]C14Stored{}
	for _, e := range c.Entries {
		last[string(e.Key)] = e
	}
	for _, e := range last {
		if e.Kind == "short" || e.Kind == "version" || e.Kind == "empty" {
			anyBad = true
		}
	}
	ctx := context.Background()
	_, serr := s.SendOnce(ctx, env.Env)
	ls, _ := st.List(ctx, "")
	if anyBad {
		if serr == nil {
			return fmt.Errorf("a stored value that is too short for a header / has another header version was dumped without an error")
		}
		if len(ls) != 0 {
			return fmt.Errorf("SendOnce failed (%v) but stored %d snapshot(s)", serr, len(ls))
		}
		o.Class("refused-with-error")
		o.NonTrivial(true)
		return nil
	}
	if serr != nil {
		return fmt.Errorf("well-formed stored values refused: %v", serr)
	}
	if len(ls) != 1 {
		return fmt.Errorf("%d snapshots stored", len(ls))
	}
	blob, err := st.Load(ctx, ls[0].Name)
	if err != nil {
		return err
	}
	flat, err := decodeBlobKV(blob)
	if err != nil {
		return err
	}
	got := map[string][]byte{}
	for _, d := range flat.DBIs {
		for _, e := range d.Entries {
			got[string(e.Key)] = e.Value
		}
	}
	for k, e := range last {
		g, ok := got[k]
		if !ok {
			return fmt.Errorf("key %x missing from the snapshot", k)
		}
		if string(g) != string(e.Val) {
			return fmt.Errorf("key %x (stored with %d extension blocks): snapshot carries a value of %d bytes, the application value has %d bytes", k, e.NExt, len(g), len(e.Val))
		}
		o.ClassIf(e.Kind == "ext" && e.NExt >= 256, "extension-count>=256")
		o.ClassIf(e.Kind == "ext", "value-with-extension-blocks")
		if e.Kind == "ext" {
			o.NonTrivial(true)
		}
	}
	return nil
}

func genC14Stored(t *rapid.T) C14StoredCase {
	var c C14StoredCase
	n := rapid.IntRange(1, 6).Draw(t, "n")
	for i := 0; i < n; i++ {
		e := C14Stored{Key: gen.BytesN(t, "key", 1, 6)}
		e.Kind = rapid.SampledFrom([]string{"good", "good", "ext", "ext", "short", "version", "empty"}).Draw(t, "kind")
		e.Val = rapid.SampledFrom([]model.Bytes{{}, []byte("v"), []byte("a longer application value"), make([]byte, 24)}).Draw(t, "val")
		switch e.Kind {
		case "ext":
			e.NExt = rapid.SampledFrom([]int{1, 2, 3, 255, 256, 257, 300, 511, 512}).Draw(t, "next")
		case "short":
			e.Raw = gen.BytesN(t, "raw", 1, 23)
		case "empty":
			// known finding native-empty-stored-value-crash: redirected to a one-byte value
			c.ExcludedEmpty++
			e.Kind = "short"
			e.Raw = model.Bytes{0}
		}
		c.Entries = append(c.Entries, e)
	}
	return c
}

func TestC14Stored(t *testing.T) {
	vcore.Run(t, vcore.Config{Property: "C14", Inflight: true,
		Rule: "rapid: a native DBI with 1-6 stored values written by 'others': well-formed headers, headers with 1..512 extension blocks (incl. 255/256/257: the count is a 16-bit field), values of 1-23 bytes, headers with another version; SendOnce must fail with an error and store nothing when any stored value is too short or has another version, and otherwise upload exactly the application value that follows all extension blocks; empty stored values are redirected to one byte (listed known finding) and counted; non-trivial = a refusal, or a value with extension blocks dumped"},
		genC14Stored, func(c C14StoredCase, o *vcore.Obs) error {
			for i := 0; i < c.ExcludedEmpty; i++ {
				o.Excluded("native-empty-stored-value-crash")
			}
			return checkC14Stored(c, o)
		})
}

// Known finding: a native DBI holding an EMPTY stored value whose node is the last thing in the data file
// makes the dump die with SIGBUS instead of failing with an error. The reproduction runs in a child process.
func TestKnownC14(t *testing.T) {
	c := C14StoredCase{AllowEmpty: true, Entries: []C14Stored{{Key: model.Bytes("ab"), Kind: "empty"}}}
	if os.Getenv("VERIF_C14_CHILD") == "1" {
		err := checkC14Stored(c, vcore.NewObsForDebug())
		fmt.Printf("CHILD-RESULT err=%v\n", err)
		return
	}
	cmd := exec.Command(os.Args[0], "-test.run", "^TestKnownC14$", "-test.v")
	cmd.Env = append(os.Environ(), "VERIF_C14_CHILD=1")
	out, err := cmd.CombinedOutput()
	if err != nil && (strings.Contains(string(out), "SIGBUS") || strings.Contains(string(out), "SIGSEGV") || strings.Contains(string(out), "fatal error: fault")) {
		fmt.Printf("KNOWN-STILL-FAILS property=C14 finding=native-empty-stored-value-crash\n")
		t.Logf("known finding still reproduces: the child process died: %s", firstLines(string(out), 3))
		return
	}
	if strings.Contains(string(out), "CHILD-RESULT err=<nil>") {
		return // refused with an error: the finding no longer reproduces
	}
	if strings.Contains(string(out), "CHILD-RESULT err=") {
		t.Logf("child: %s", firstLines(string(out), 5))
	}
}

func firstLines(s string, n int) string {
	l := strings.Split(s, "\n")
	if len(l) > n {
		l = l[:n]
	}
	return strings.Join(l, " | ")
}

// decodeBlobKV decodes a stored blob with the reference codec.
func decodeBlobKV(data []byte) (model.Flat, error) {
	r, err := gzip.NewReader(bytes.NewReader(data))
	if err != nil {
		return model.Flat{}, err
	}
	pb, err := io.ReadAll(r)
	if err != nil {
		return model.Flat{}, err
	}
	var g gogosnapshot.Snapshot
	if err := g.Unmarshal(pb); err != nil {
		return model.Flat{}, err
	}
	return model.FlatFromGogo(&g), nil
}

// ---------------------------------------------------------------------------
// C14 for shadow DBIs that already hold values written by others (an older or
// newer version, another tool): whatever the capture pass rewrites - markers for
// keys that disappeared, new versions of changed keys - is a well-formed value
// of this version: flags from the synced set only, no inherited extension
// blocks, the transaction id of the pass, empty when deleted.
// ---------------------------------------------------------------------------

type C14ShadowEntry struct {
	Key    model.Bytes `json:"key"`
	Flags  int         `json:"flags"`           // stored flags byte (any value)
	NExt   int         `json:"n_ext,omitempty"` // stored extension blocks
	Val    model.Bytes `json:"val,omitempty"`
	InMain string      `json:"in_main"` // same | other | absent
	// Bad: the stored value is NOT a well-formed version-0 value: "version" (another header version), "short"
	// (1..23 bytes), "ext" (announces more extension blocks than there are bytes). Must be refused, not misread.
	Bad  string `json:"bad,omitempty"`
	BadN int    `json:"bad_n,omitempty"`
}

type C14ShadowCase struct {
	Entries []C14ShadowEntry `json:"entries"`
	Sweeper bool             `json:"sweeper,omitempty"`
}

func checkC14Shadow(c C14ShadowCase, o *vcore.Obs) error {
	env := lm.New(32<<20, 8)
	defer env.Close()
	s, _ := newShadowSyncerSw(env.Env, "a", config.LMDB{SchemaTracksChanges: false}, c.Sweeper)
	stored := map[string][]byte{}
	err := env.Update(func(txn *lmdb.Txn) error {
		main, err := txn.OpenDBI("d", lmdb.Create)
		if err != nil {
			return err
		}
		sh, err := txn.OpenDBI("_sync_shadow_d", lmdb.Create)
		if err != nil {
			return err
		}
		for i, e := range c.Entries {
			val := []byte(e.Val)
			if e.Flags&1 != 0 {
				val = nil // a deleted entry has no value
			}
			if len(val) == 0 && e.Flags&1 == 0 {
				val = []byte("v") // (live empty values in shadow mode: listed known finding, not this check's business)
			}
			raw := model.BuildHeader(uint64(1_600_000_000_000_000_000+i), 1, byte(e.Flags), make([]byte, 8*e.NExt), val)
			switch e.Bad {
			case "version":
				raw[16] = byte(1 + e.BadN%255)
			case "short":
				raw = raw[:1+e.BadN%23]
			case "ext":
				// the count promises 1..4 blocks more than the bytes present (the value is cut inside the blocks)
				have := (len(raw) - 24) / 8
				n := have + 1 + e.BadN%4
				raw[22], raw[23] = byte(n>>8), byte(n)
			}
			if err := txn.Put(sh, e.Key, raw, 0); err != nil {
				return err
			}
			stored[string(e.Key)] = raw
			switch e.InMain {
			case "same":
				if e.Flags&1 == 0 {
					if err := txn.Put(main, e.Key, val, 0); err != nil {
						return err
					}
				}
			case "other":
				if err := txn.Put(main, e.Key, append([]byte("other-"), val...), 0); err != nil {
					return err
				}
			}
		}
		return nil
	})
	if err != nil {
		return fmt.Errorf("harness: %v", err)
	}
	// (a later entry with the same key overwrites an earlier one: what is stored in the end counts)
	before, err := lm.DumpEnv(env.Env)
	if err != nil {
		return err
	}
	var passTxn uint64
	err = env.Update(func(txn *lmdb.Txn) error {
		passTxn = uint64(txn.ID())
		return s.VerifMainToShadow(context.Background(), txn, 1_700_000_000_000_000_000)
	})
	nBad := 0
	if d := before.DBI("_sync_shadow_d"); d != nil {
		for _, e := range d.Entries {
			if _, herr := model.ReadHeader(e.Val); herr != nil {
				nBad++
			}
		}
	}
	after, derr := lm.DumpEnv(env.Env)
	if derr != nil {
		return derr
	}
	if nBad > 0 {
		// every shadow entry is looked at by the pass (merged with the application's entry or cleaned): a stored
		// value that is too short or of another header version must make the pass fail, with nothing written
		o.Class("stored-value-malformed")
		o.NonTrivial(true)
		if err == nil {
			return fmt.Errorf("the capture pass succeeded although %d stored shadow value(s) are too short / of another header version (misread instead of rejected)", nBad)
		}
		if d := before.Diff(after); d != "" {
			return fmt.Errorf("capture pass failed (%v) but the LMDB changed: %s", err, d)
		}
		return nil
	}
	if err != nil {
		return fmt.Errorf("mainToShadow: %v", err)
	}
	old := map[string][]byte{}
	if d := before.DBI("_sync_shadow_d"); d != nil {
		for _, e := range d.Entries {
			old[string(e.Key)] = e.Val
		}
	}
	rewritten := 0
	if d := after.DBI("_sync_shadow_d"); d != nil {
		for _, e := range d.Entries {
			if bytes.Equal(old[string(e.Key)], e.Val) {
				continue
			}
			rewritten++
			if _, err := model.CheckLSWritten(e.Val, passTxn, false); err != nil {
				oh, _ := model.ReadHeader(old[string(e.Key)])
				return fmt.Errorf("shadow entry %x rewritten by the capture pass (stored before with flags %#x, %d extension blocks): %v", e.Key, oh.Flags, oh.NumExt, err)
			}
		}
	}
	o.NonTrivial(rewritten > 0)
	for _, e := range c.Entries {
		o.ClassIf(e.Flags&^1 != 0, "stored-flags-outside-the-synced-set")
		o.ClassIf(e.NExt > 0, "stored-extension-blocks")
	}
	return nil
}

func TestC14Shadow(t *testing.T) {
	vcore.Run(t, vcore.Config{Property: "C14",
		Rule: "rapid: a shadow DBI pre-populated with 1-6 values written by 'others' (any flags byte incl. bits outside the synced set, 0-3 extension blocks, live or deleted) next to an application DBI in which each key is unchanged / changed / gone; one capture pass (VerifMainToShadow): every shadow value the pass rewrote is a well-formed value of this version - flags from the synced set only, no extension blocks, the pass's transaction id, reserved bytes zero, empty when deleted; non-trivial = the pass rewrote at least one value"},
		func(t *rapid.T) C14ShadowCase {
			var c C14ShadowCase
			c.Sweeper = rapid.IntRange(0, 2).Draw(t, "sweeper") == 0
			for i := rapid.IntRange(1, 6).Draw(t, "n"); i > 0; i-- {
				c.Entries = append(c.Entries, C14ShadowEntry{Key: gen.BytesN(t, "key", 1, 4),
					Flags:  rapid.SampledFrom([]int{0, 0, 1, 1, 0x40, 0x41, 0x80, 0x02, 0xfe, 0xff}).Draw(t, "flags"),
					NExt:   rapid.SampledFrom([]int{0, 0, 1, 3}).Draw(t, "next"),
					Val:    rapid.SampledFrom([]model.Bytes{[]byte("v1"), []byte("v2"), {}}).Draw(t, "val"),
					InMain: rapid.SampledFrom([]string{"same", "other", "absent", "absent"}).Draw(t, "in_main")})
			}
			if rapid.IntRange(0, 3).Draw(t, "bad?") == 0 {
				e := &c.Entries[rapid.IntRange(0, len(c.Entries)-1).Draw(t, "bad_i")]
				e.Bad = rapid.SampledFrom([]string{"version", "short", "ext"}).Draw(t, "bad")
				e.BadN = rapid.IntRange(0, 300).Draw(t, "bad_n")
			}
			return c
		}, checkC14Shadow)
}

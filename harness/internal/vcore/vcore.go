// Package vcore is the shared core of the verification harness: it runs a
// property as  generate(case) -> check(case)  under rapid, records what was
// actually explored (evaluations, distinct non-trivial cases, class
// histogram, samples), writes shrunk failing cases as JSON replay files and
// re-executes such files without rapid.
package vcore

import (
	"crypto/sha1"
	"encoding/binary"
	"encoding/json"
	"fmt"
	"io"
	"os"
	"path/filepath"
	"runtime/debug"
	"sort"
	"strconv"
	"strings"
	"sync"
	"testing"
	"time"

	"github.com/sirupsen/logrus"
	"pgregory.net/rapid"
)

func init() {
	// Silence the code under test.
	logrus.SetOutput(io.Discard)
	logrus.SetLevel(logrus.PanicLevel)
	// Run the code under test in a process whose local time zone is not UTC (the
	// sandbox itself is UTC): snapshot names, cutoffs and ages must not depend on it.
	time.Local = time.FixedZone("VRF", -(7*3600 + 1800))
}

// Obs collects observations about one executed case.
type Obs struct {
	nontrivial bool
	classes    map[string]int
	excluded   map[string]int
	note       string
}

// NonTrivial marks the case as non-trivial by the property's stated rule.
func (o *Obs) NonTrivial(b bool) {
	if b {
		o.nontrivial = true
	}
}

// Class counts the case (or an event inside it) under a named class.
func (o *Obs) Class(name string) { o.classes[name]++ }

// ClassIf counts under name when cond is true.
func (o *Obs) ClassIf(cond bool, name string) {
	if cond {
		o.classes[name]++
	}
}

// Excluded counts a draw that was redirected because it matches a known finding.
func (o *Obs) Excluded(id string) { o.excluded[id]++ }

// Stats is what one test function in one process explored.
type Stats struct {
	Property    string            `json:"property"`
	Test        string            `json:"test"`
	Rule        string            `json:"rule"`
	Evaluations int               `json:"evaluations"`
	NonTrivial  int               `json:"nontrivial_evaluations"`
	Hashes      []string          `json:"hashes"`
	Classes     map[string]int    `json:"classes"`
	Excluded    map[string]int    `json:"excluded"`
	Samples     []json.RawMessage `json:"samples"`
	Exhaustive  bool              `json:"exhaustive"`
	WallS       float64           `json:"wall_s"`
	Extra       map[string]any    `json:"extra,omitempty"`
}

type recorder struct {
	mu      sync.Mutex
	st      Stats
	hashes  map[uint64]struct{}
	start   time.Time
	samples int
}

const maxSamples = 6
const maxSampleBytes = 6000

func newRecorder(prop, test, rule string) *recorder {
	return &recorder{
		st: Stats{Property: prop, Test: test, Rule: rule,
			Classes: map[string]int{}, Excluded: map[string]int{}},
		hashes: map[uint64]struct{}{},
		start:  time.Now(),
	}
}

func (r *recorder) add(o *Obs, canon []byte) {
	r.mu.Lock()
	defer r.mu.Unlock()
	r.st.Evaluations++
	for k, v := range o.classes {
		r.st.Classes[k] += v
	}
	for k, v := range o.excluded {
		r.st.Excluded[k] += v
	}
	if o.nontrivial {
		r.st.NonTrivial++
		h := sha1.Sum(canon)
		k := binary.BigEndian.Uint64(h[:8])
		if _, ok := r.hashes[k]; !ok {
			r.hashes[k] = struct{}{}
			// keep the first few and then power-of-two spaced non-trivial cases as samples
			n := len(r.hashes)
			if n <= 2 || (n&(n-1)) == 0 {
				r.addSample(canon)
			}
		}
	} else if r.st.Evaluations == 1 {
		r.addSample(canon)
	}
}

func (r *recorder) addSample(canon []byte) {
	s := canon
	if len(s) > maxSampleBytes {
		s, _ = json.Marshal(map[string]any{"truncated_json_prefix": string(canon[:maxSampleBytes]), "full_len": len(canon)})
	}
	cp := append([]byte(nil), s...)
	if len(r.st.Samples) < maxSamples {
		r.st.Samples = append(r.st.Samples, cp)
	} else {
		// keep first two, rotate the rest
		copy(r.st.Samples[2:], r.st.Samples[3:])
		r.st.Samples[maxSamples-1] = cp
	}
}

func (r *recorder) flush() {
	r.mu.Lock()
	defer r.mu.Unlock()
	dir := os.Getenv("VERIF_STATS_DIR")
	if dir == "" {
		return
	}
	r.st.WallS = time.Since(r.start).Seconds()
	r.st.Hashes = r.st.Hashes[:0]
	for k := range r.hashes {
		r.st.Hashes = append(r.st.Hashes, strconv.FormatUint(k, 16))
	}
	sort.Strings(r.st.Hashes)
	b, _ := json.Marshal(r.st)
	name := fmt.Sprintf("%s-%s-%d.json", r.st.Property, fileSafe(r.st.Test), os.Getpid())
	_ = os.MkdirAll(dir, 0o755)
	_ = os.WriteFile(filepath.Join(dir, name), b, 0o644)
}

// Replay is the on-disk format of a failing (or any) case.
type Replay struct {
	Property string          `json:"property"`
	Test     string          `json:"test"`
	Error    string          `json:"error,omitempty"`
	Case     json.RawMessage `json:"case"`
}

func writeReplay(prop, test string, canon []byte, errMsg string, kind string) string {
	dir := os.Getenv("VERIF_REPLAY_DIR")
	if dir == "" {
		return ""
	}
	_ = os.MkdirAll(dir, 0o755)
	rp := Replay{Property: prop, Test: test, Error: errMsg, Case: canon}
	b, _ := json.MarshalIndent(rp, "", " ")
	p := filepath.Join(dir, fmt.Sprintf("%s-%s-%d.%s.json", prop, fileSafe(test), os.Getpid(), kind))
	_ = os.WriteFile(p, b, 0o644)
	return p
}

// Config describes one property test.
type Config struct {
	Property string
	Rule     string // how cases are generated and what makes one non-trivial
	// Inflight: write every case to disk before executing it, so that a hard
	// crash or hang of the process still leaves the reproducer.
	Inflight bool
}

// safeCheck runs check and converts a panic in the code under test (or in the
// oracle) into an error carrying the stack.
func safeCheck[C any](check func(C, *Obs) error, c C, o *Obs) (err error) {
	defer func() {
		if r := recover(); r != nil {
			err = fmt.Errorf("PANIC: %v\n%s", r, debug.Stack())
		}
	}()
	return check(c, o)
}

func newObs() *Obs {
	return &Obs{classes: map[string]int{}, excluded: map[string]int{}}
}

// Run executes the property under rapid (or replays a JSON case when
// VERIF_REPLAY names a file whose test matches).
func Run[C any](t *testing.T, cfg Config, gen func(*rapid.T) C, check func(C, *Obs) error) {
	t.Helper()
	test := t.Name()
	if rp := os.Getenv("VERIF_REPLAY"); rp != "" {
		replayFile(t, cfg, rp, check)
		return
	}
	rec := newRecorder(cfg.Property, test, cfg.Rule)
	defer rec.flush()
	rapid.Check(t, func(rt *rapid.T) {
		c := gen(rt)
		canon, err := json.Marshal(c)
		if err != nil {
			panic(fmt.Sprintf("harness: case not serialisable: %v", err))
		}
		if cfg.Inflight {
			writeReplay(cfg.Property, test, canon, "", "inflight")
		}
		o := newObs()
		cerr := safeCheck(check, c, o)
		rec.add(o, canon)
		if cerr != nil {
			writeReplay(cfg.Property, test, canon, cerr.Error(), "fail")
			rt.Fatalf("property %s violated: %v", cfg.Property, cerr)
		}
	})
}

// RunEnum executes check over an explicitly enumerated finite list of cases
// (exhaustive grids). The first failing case is written as a replay.
func RunEnum[C any](t *testing.T, cfg Config, cases func(yield func(C) bool), check func(C, *Obs) error) {
	t.Helper()
	test := t.Name()
	if rp := os.Getenv("VERIF_REPLAY"); rp != "" {
		replayFile(t, cfg, rp, check)
		return
	}
	rec := newRecorder(cfg.Property, test, cfg.Rule)
	rec.st.Exhaustive = true
	defer rec.flush()
	shard, shards := 0, 1
	if v, err := strconv.Atoi(os.Getenv("VERIF_SHARDS")); err == nil && v > 1 {
		shards = v
		shard, _ = strconv.Atoi(os.Getenv("VERIF_SHARD"))
	}
	idx := -1
	cases(func(c C) bool {
		idx++
		if idx%shards != shard {
			return true // another process enumerates this case
		}
		canon, _ := json.Marshal(c)
		if cfg.Inflight {
			writeReplay(cfg.Property, test, canon, "", "inflight")
		}
		o := newObs()
		cerr := safeCheck(check, c, o)
		rec.add(o, canon)
		if cerr != nil {
			writeReplay(cfg.Property, test, canon, cerr.Error(), "fail")
			t.Errorf("property %s violated: %v\ncase: %s", cfg.Property, cerr, trunc(canon))
			return false
		}
		return true
	})
}

func fileSafe(s string) string { return strings.ReplaceAll(s, "/", "_") }

func trunc(b []byte) string {
	if len(b) > 2000 {
		return string(b[:2000]) + "…"
	}
	return string(b)
}

func replayFile[C any](t *testing.T, cfg Config, path string, check func(C, *Obs) error) {
	b, err := os.ReadFile(path)
	if err != nil {
		t.Skipf("replay: %v", err)
	}
	var rp Replay
	if err := json.Unmarshal(b, &rp); err != nil {
		t.Skipf("replay: not a replay file: %v", err)
	}
	if rp.Test != t.Name() {
		t.Skipf("replay is for %s", rp.Test)
	}
	var c C
	if err := json.Unmarshal(rp.Case, &c); err != nil {
		t.Fatalf("replay: cannot decode case: %v", err)
	}
	o := newObs()
	if cerr := safeCheck(check, c, o); cerr != nil {
		fmt.Printf("REPLAY-FAILS property=%s test=%s\n", cfg.Property, rp.Test)
		t.Fatalf("replayed case violates %s: %v", cfg.Property, cerr)
	}
	fmt.Printf("REPLAY-PASSES property=%s test=%s\n", cfg.Property, rp.Test)
}

// Known runs a deterministic reproduction of a listed known finding. If it
// still fails, a marker line is printed for the driver (which turns it into a
// KNOWN-FINDING line) and the test passes; if it no longer fails nothing is
// printed.
func Known[C any](t *testing.T, property, findingID string, c C, check func(C, *Obs) error) {
	o := newObs()
	if cerr := safeCheck(check, c, o); cerr != nil {
		first := cerr.Error()
		if len(first) > 300 {
			first = first[:300]
		}
		fmt.Printf("KNOWN-STILL-FAILS property=%s finding=%s\n", property, findingID)
		t.Logf("known finding %s still reproduces: %s", findingID, first)
	}
}

// Scale returns n scaled by VERIF_SCALE (float, default 1), at least 1.
func Scale(n int) int {
	s := os.Getenv("VERIF_SCALE")
	if s == "" {
		return n
	}
	f, err := strconv.ParseFloat(s, 64)
	if err != nil || f <= 0 {
		return n
	}
	m := int(float64(n) * f)
	if m < 1 {
		m = 1
	}
	return m
}

// Thorough reports whether the thorough tier is running.
func Thorough() bool { return os.Getenv("VERIF_TIER") == "thorough" }

// ExtraStat lets a test attach additional measured numbers to its stats file.
func ExtraStat(t *testing.T, property string, kv map[string]any) {
	dir := os.Getenv("VERIF_STATS_DIR")
	if dir == "" {
		return
	}
	b, _ := json.Marshal(map[string]any{"property": property, "test": t.Name(), "extra_only": true, "extra": kv})
	_ = os.WriteFile(filepath.Join(dir, fmt.Sprintf("%s-%s-%d.extra.json", property, t.Name(), os.Getpid())), b, 0o644)
}

// NewObsForDebug is used by throw-away debugging tests only.
func NewObsForDebug() *Obs { return newObs() }

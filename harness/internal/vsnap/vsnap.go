// Package vsnap converts between the plain-data model and the snapshot types
// of the code under test (custom streaming codec).
package vsnap

import (
	"errors"
	"io"

	"github.com/PowerDNS/lightningstream/snapshot"

	"verif/harness/internal/model"
)

// ToCustom builds a snapshot.Snapshot through the code under test's writer API
// (SetName/SetFlags/SetTransform/Append). sizeHint < 0 uses NewDBI() (10 MiB
// first growth step), otherwise NewDBISize(sizeHint).
func ToCustom(m model.Snap, sizeHint int) *snapshot.Snapshot {
	s := &snapshot.Snapshot{FormatVersion: m.FormatVersion, CompatVersion: m.CompatVersion}
	s.Meta = snapshot.Meta{
		GenerationID: m.Meta.GenerationID, InstanceID: m.Meta.InstanceID, Hostname: m.Meta.Hostname,
		LmdbTxnID: m.Meta.LmdbTxnID, TimestampNano: m.Meta.TimestampNano,
		DatabaseName: m.Meta.DatabaseName, FromLmdbTxnID: m.Meta.FromLmdbTxnID,
	}
	for _, d := range m.DBIs {
		var cd *snapshot.DBI
		if sizeHint < 0 {
			cd = snapshot.NewDBI()
		} else {
			cd = snapshot.NewDBISize(sizeHint)
		}
		cd.SetName(d.Name)
		cd.SetFlags(d.Flags)
		cd.SetTransform(d.Transform)
		for _, e := range d.Entries {
			cd.Append(snapshot.KV{Key: e.Key, Value: e.Val.Bytes(), TimestampNano: e.TS, Flags: e.Flags})
		}
		s.Databases = append(s.Databases, cd)
	}
	return s
}

// MaxIter bounds the number of Next() calls per DBI when flattening; 0 = no bound.
var ErrTooManyIterations = errors.New("decoder did not terminate within the iteration bound")

// FromCustom materialises a decoded snapshot by full iteration of every DBI.
// maxIter (if > 0) bounds the number of Next calls per DBI.
func FromCustom(s *snapshot.Snapshot, maxIter int) (model.Flat, error) {
	f := model.Flat{FormatVersion: s.FormatVersion, CompatVersion: s.CompatVersion, Meta: model.Meta{
		GenerationID: s.Meta.GenerationID, InstanceID: s.Meta.InstanceID, Hostname: s.Meta.Hostname,
		LmdbTxnID: s.Meta.LmdbTxnID, TimestampNano: s.Meta.TimestampNano,
		DatabaseName: s.Meta.DatabaseName, FromLmdbTxnID: s.Meta.FromLmdbTxnID,
	}}
	for _, d := range s.Databases {
		fd := model.FlatDBI{Name: d.Name(), Flags: d.Flags(), Transform: d.Transform()}
		d.ResetCursor()
		n := 0
		for {
			kv, err := d.Next()
			if err == io.EOF {
				break
			}
			if err != nil {
				return f, err
			}
			n++
			if maxIter > 0 && n > maxIter {
				return f, ErrTooManyIterations
			}
			fd.Entries = append(fd.Entries, model.FlatKV{
				Key: append([]byte(nil), kv.Key...), Value: append([]byte(nil), kv.Value...),
				TS: kv.TimestampNano, Flags: kv.Flags})
		}
		f.DBIs = append(f.DBIs, fd)
	}
	return f, nil
}

// Package lm provides scratch LMDB environments and independent dump helpers.
package lm

import (
	"bytes"
	"fmt"
	"os"
	"path/filepath"
	"sort"
	"sync/atomic"

	"github.com/PowerDNS/lmdb-go/lmdb"
)

var seq atomic.Int64

func scratchBase() string {
	if d := os.Getenv("VERIF_SCRATCH"); d != "" {
		return d
	}
	if st, err := os.Stat("/dev/shm"); err == nil && st.IsDir() {
		return "/dev/shm"
	}
	return os.TempDir()
}

// Env is a scratch environment that removes itself on Close.
type Env struct {
	*lmdb.Env
	Dir string
}

// New creates a fresh environment (NoSync/NoMetaSync: durability is not under
// test and tmpfs makes it moot).
func New(mapSize int64, maxDBs int) *Env {
	dir := filepath.Join(scratchBase(), fmt.Sprintf("lmdb-%d-%d", os.Getpid(), seq.Add(1)))
	if err := os.MkdirAll(dir, 0o755); err != nil {
		panic(err)
	}
	env, err := lmdb.NewEnv()
	if err != nil {
		panic(err)
	}
	if maxDBs == 0 {
		maxDBs = 32
	}
	if mapSize == 0 {
		mapSize = 64 << 20
	}
	must(env.SetMaxDBs(maxDBs))
	must(env.SetMapSize(mapSize))
	must(env.Open(dir, lmdb.NoSync|lmdb.NoMetaSync|lmdb.NoTLS, 0o644))
	return &Env{Env: env, Dir: dir}
}

func (e *Env) Close() {
	_ = e.Env.Close()
	_ = os.RemoveAll(e.Dir)
}

func must(err error) {
	if err != nil {
		panic(err)
	}
}

// Entry / DBIDump / Dump: independent cursor-walk dump of an environment.
type Entry struct {
	Key, Val []byte
}

type DBIDump struct {
	Name    string
	Flags   uint
	Entries []Entry
}

type Dump struct {
	LastTxnID int64
	DBIs      []DBIDump // sorted by name
}

// DumpTxn dumps every named DBI inside txn (own root-DBI walk, own cursor).
func DumpTxn(txn *lmdb.Txn) (Dump, error) {
	var d Dump
	root, err := txn.OpenRoot(0)
	if err != nil {
		return d, err
	}
	c, err := txn.OpenCursor(root)
	if err != nil {
		return d, err
	}
	var names []string
	for {
		k, _, err := c.Get(nil, nil, lmdb.Next)
		if lmdb.IsNotFound(err) {
			break
		}
		if err != nil {
			c.Close()
			return d, err
		}
		names = append(names, string(k))
	}
	c.Close()
	sort.Strings(names)
	for _, n := range names {
		dbi, err := txn.OpenDBI(n, 0)
		if err != nil {
			return d, fmt.Errorf("open %q: %w", n, err)
		}
		fl, err := txn.Flags(dbi)
		if err != nil {
			return d, err
		}
		dd := DBIDump{Name: n, Flags: fl}
		cur, err := txn.OpenCursor(dbi)
		if err != nil {
			return d, err
		}
		for {
			k, v, err := cur.Get(nil, nil, lmdb.Next)
			if lmdb.IsNotFound(err) {
				break
			}
			if err != nil {
				cur.Close()
				return d, err
			}
			dd.Entries = append(dd.Entries, Entry{Key: append([]byte(nil), k...), Val: append([]byte(nil), v...)})
		}
		cur.Close()
		d.DBIs = append(d.DBIs, dd)
	}
	return d, nil
}

// DumpEnv dumps the whole environment in a read transaction.
func DumpEnv(env *lmdb.Env) (Dump, error) {
	var d Dump
	err := env.View(func(txn *lmdb.Txn) error {
		var err error
		d, err = DumpTxn(txn)
		return err
	})
	if err != nil {
		return d, err
	}
	info, err := env.Info()
	if err != nil {
		return d, err
	}
	d.LastTxnID = info.LastTxnID
	return d, nil
}

func (d Dump) DBI(name string) *DBIDump {
	for i := range d.DBIs {
		if d.DBIs[i].Name == name {
			return &d.DBIs[i]
		}
	}
	return nil
}

// Diff returns "" if both dumps hold byte-identical content (names, flags, entries).
func (d Dump) Diff(o Dump) string {
	if len(d.DBIs) != len(o.DBIs) {
		return fmt.Sprintf("DBI count %d vs %d (%v vs %v)", len(d.DBIs), len(o.DBIs), d.names(), o.names())
	}
	for i := range d.DBIs {
		a, b := d.DBIs[i], o.DBIs[i]
		if a.Name != b.Name {
			return fmt.Sprintf("DBI name %q vs %q", a.Name, b.Name)
		}
		if a.Flags != b.Flags {
			return fmt.Sprintf("DBI %q flags %#x vs %#x", a.Name, a.Flags, b.Flags)
		}
		if len(a.Entries) != len(b.Entries) {
			return fmt.Sprintf("DBI %q: %d entries vs %d", a.Name, len(a.Entries), len(b.Entries))
		}
		for j := range a.Entries {
			if !bytes.Equal(a.Entries[j].Key, b.Entries[j].Key) || !bytes.Equal(a.Entries[j].Val, b.Entries[j].Val) {
				return fmt.Sprintf("DBI %q entry %d: (%x=%x) vs (%x=%x)", a.Name, j, a.Entries[j].Key, a.Entries[j].Val, b.Entries[j].Key, b.Entries[j].Val)
			}
		}
	}
	return ""
}

func (d Dump) names() []string {
	var n []string
	for _, x := range d.DBIs {
		n = append(n, x.Name)
	}
	return n
}

// LastTxnID returns env.Info().LastTxnID.
func LastTxnID(env *lmdb.Env) int64 {
	info, err := env.Info()
	if err != nil {
		panic(err)
	}
	return info.LastTxnID
}

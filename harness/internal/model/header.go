package model

import (
	"errors"
	"fmt"
)

// Independent reader of the documented native header format
// (docs/schema-native.md): all values big endian.
//
//	8  timestamp (ns since epoch)
//	8  LMDB transaction id
//	1  header schema version (always 0)
//	1  flags (0x01 = deleted)
//	4  reserved
//	2  number N of 8-byte extension blocks
//	N*8 extension blocks
type Hdr struct {
	TS       uint64
	TxnID    uint64
	Version  byte
	Flags    byte
	Reserved [4]byte
	NumExt   int
	Ext      []byte
	AppVal   []byte
}

var (
	ErrHdrShort   = errors.New("hdr: value too short")
	ErrHdrVersion = errors.New("hdr: unsupported version")
)

func be64(b []byte) uint64 {
	var v uint64
	for i := 0; i < 8; i++ {
		v = v<<8 | uint64(b[i])
	}
	return v
}

func ReadHeader(val []byte) (Hdr, error) {
	var h Hdr
	if len(val) < 24 {
		return h, ErrHdrShort
	}
	h.TS = be64(val[0:8])
	h.TxnID = be64(val[8:16])
	h.Version = val[16]
	if h.Version != 0 {
		return h, ErrHdrVersion
	}
	h.Flags = val[17]
	copy(h.Reserved[:], val[18:22])
	h.NumExt = int(val[22])<<8 | int(val[23])
	end := 24 + 8*h.NumExt
	if len(val) < end {
		return h, ErrHdrShort
	}
	h.Ext = val[24:end]
	h.AppVal = val[end:]
	return h, nil
}

// CheckLSWritten verifies that a value written by Lightning Stream is
// well-formed per the documented format: version 0, only synced flags,
// reserved zero, extension count 0 (or 1 zero block with the padding option),
// transaction id as given, deleted => empty value.
func CheckLSWritten(val []byte, wantTxn uint64, padding bool) (Hdr, error) {
	h, err := ReadHeader(val)
	if err != nil {
		return h, fmt.Errorf("value written by LS does not parse: %w (%x)", err, val)
	}
	if h.Flags&^0x01 != 0 {
		return h, fmt.Errorf("flags %#x outside the synced set", h.Flags)
	}
	if h.Reserved != [4]byte{} {
		return h, fmt.Errorf("reserved bytes not zero: %x", h.Reserved)
	}
	wantExt := 0
	if padding {
		wantExt = 1
	}
	if h.NumExt != wantExt {
		return h, fmt.Errorf("extension count %d, want %d", h.NumExt, wantExt)
	}
	for _, b := range h.Ext {
		if b != 0 {
			return h, fmt.Errorf("padding block not zero: %x", h.Ext)
		}
	}
	if h.TxnID != wantTxn {
		return h, fmt.Errorf("transaction id %d in header, written by transaction %d", h.TxnID, wantTxn)
	}
	if h.Flags&1 != 0 && len(h.AppVal) != 0 {
		return h, fmt.Errorf("deleted entry with non-empty value %x", h.AppVal)
	}
	return h, nil
}

// BuildHeader builds a header+value independently of the code under test (used
// by harnesses that play the application in native mode).
func BuildHeader(ts, txn uint64, flags byte, ext []byte, appVal []byte) []byte {
	if len(ext)%8 != 0 {
		panic("ext must be a multiple of 8 bytes")
	}
	b := make([]byte, 24, 24+len(ext)+len(appVal))
	for i := 0; i < 8; i++ {
		b[i] = byte(ts >> (56 - 8*uint(i)))
		b[8+i] = byte(txn >> (56 - 8*uint(i)))
	}
	b[17] = flags
	n := len(ext) / 8
	b[22], b[23] = byte(n>>8), byte(n)
	b = append(b, ext...)
	return append(b, appVal...)
}

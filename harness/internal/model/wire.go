// Package model holds the reference models and independent re-implementations
// the oracles are built from. Nothing in here calls the code under test.
package model

import (
	"encoding/binary"
	"errors"
	"fmt"
)

// ---------------------------------------------------------------------------
// Minimal protobuf wire toolkit (independent of csproto and gogo).
// ---------------------------------------------------------------------------

const (
	WTVarint  = 0
	WTFixed64 = 1
	WTBytes   = 2
	WTFixed32 = 5
)

// Item is one field occurrence of a message.
type Item struct {
	Field  int
	WT     int
	Varint uint64
	Fixed  []byte // 4 or 8 bytes
	Bytes  []byte // payload of a length-delimited field (when Sub == nil)
	Sub    []Item // parsed sub-message (re-encoded on Encode)
	IsSub  bool

	// Corruption controls (used by the hostile-input generator, C08):
	RawLen *uint64 // written instead of the real payload length
	PadLen int     // write the length varint with this many bytes (overlong encoding), 0 = minimal
	RawTag *uint64 // written instead of field<<3|wt
	Cut    int     // drop this many bytes from the end of the payload after the length was written
}

var ErrWire = errors.New("wire: malformed")

func getVarint(b []byte) (uint64, int, error) {
	var v uint64
	for i := 0; i < len(b) && i < 10; i++ {
		c := b[i]
		if i == 9 && c > 1 {
			return 0, 0, ErrWire
		}
		v |= uint64(c&0x7f) << (7 * uint(i))
		if c < 0x80 {
			return v, i + 1, nil
		}
	}
	return 0, 0, ErrWire
}

// AppendVarint appends the minimal varint encoding of v.
func AppendVarint(b []byte, v uint64) []byte {
	for v >= 0x80 {
		b = append(b, byte(v)|0x80)
		v >>= 7
	}
	return append(b, byte(v))
}

// AppendVarintPadded appends v as a varint of exactly n bytes (n >= minimal
// size, n <= 10), i.e. a non-canonical (overlong) encoding that conforming
// decoders must accept.
func AppendVarintPadded(b []byte, v uint64, n int) []byte {
	for i := 0; i < n-1; i++ {
		b = append(b, byte(v)|0x80)
		v >>= 7
	}
	return append(b, byte(v)&0x7f)
}

func VarintLen(v uint64) int {
	n := 1
	for v >= 0x80 {
		v >>= 7
		n++
	}
	return n
}

// ParseMsg splits a message into its field occurrences (one level).
func ParseMsg(b []byte) ([]Item, error) {
	var items []Item
	for len(b) > 0 {
		tag, n, err := getVarint(b)
		if err != nil {
			return nil, err
		}
		b = b[n:]
		it := Item{Field: int(tag >> 3), WT: int(tag & 7)}
		if it.Field == 0 {
			return nil, ErrWire
		}
		switch it.WT {
		case WTVarint:
			v, n, err := getVarint(b)
			if err != nil {
				return nil, err
			}
			it.Varint = v
			b = b[n:]
		case WTFixed64:
			if len(b) < 8 {
				return nil, ErrWire
			}
			it.Fixed = append([]byte(nil), b[:8]...)
			b = b[8:]
		case WTFixed32:
			if len(b) < 4 {
				return nil, ErrWire
			}
			it.Fixed = append([]byte(nil), b[:4]...)
			b = b[4:]
		case WTBytes:
			l, n, err := getVarint(b)
			if err != nil {
				return nil, err
			}
			b = b[n:]
			if uint64(len(b)) < l {
				return nil, ErrWire
			}
			it.Bytes = append([]byte(nil), b[:l]...)
			b = b[l:]
		default:
			return nil, fmt.Errorf("%w: wire type %d", ErrWire, it.WT)
		}
		items = append(items, it)
	}
	return items, nil
}

// EncodeMsg re-encodes items (sub-messages recursively).
func EncodeMsg(items []Item) []byte {
	var b []byte
	for _, it := range items {
		if it.RawTag != nil {
			b = AppendVarint(b, *it.RawTag)
		} else {
			b = AppendVarint(b, uint64(it.Field)<<3|uint64(it.WT))
		}
		switch it.WT {
		case WTVarint:
			b = AppendVarint(b, it.Varint)
		case WTFixed64, WTFixed32:
			b = append(b, it.Fixed...)
		case WTBytes:
			payload := it.Bytes
			if it.IsSub {
				payload = EncodeMsg(it.Sub)
			}
			l := uint64(len(payload))
			if it.RawLen != nil {
				l = *it.RawLen
			}
			if it.PadLen > VarintLen(l) && it.PadLen <= 10 {
				b = AppendVarintPadded(b, l, it.PadLen)
			} else {
				b = AppendVarint(b, l)
			}
			if it.Cut > 0 && it.Cut <= len(payload) {
				payload = payload[:len(payload)-it.Cut]
			}
			b = append(b, payload...)
		}
	}
	return b
}

// Schema field numbers (from snapshot.proto; written down independently).
const (
	SnapFormatVersion = 1
	SnapMeta          = 2
	SnapDatabases     = 3
	SnapCompatVersion = 4

	DBIName      = 1
	DBIEntries   = 2
	DBIFlags     = 3
	DBITransform = 4

	KVKey   = 1
	KVValue = 2
	KVTS    = 3
	KVFlags = 4
)

// Levels of the snapshot schema
const (
	LevelSnapshot = 0
	LevelMeta     = 1
	LevelDBI      = 2
	LevelKV       = 3
)

// KnownFields lists, per level, field number -> wire type of the published schema.
var KnownFields = [4]map[int]int{
	{1: WTVarint, 2: WTBytes, 3: WTBytes, 4: WTVarint},
	{1: WTBytes, 2: WTBytes, 3: WTBytes, 4: WTVarint, 5: WTFixed64, 7: WTBytes, 8: WTVarint},
	{1: WTBytes, 2: WTBytes, 3: WTVarint, 4: WTBytes},
	{1: WTBytes, 2: WTBytes, 3: WTFixed64, 4: WTVarint},
}

// ParseSnapshotTree parses a snapshot message into a full tree: meta, DBIs and
// their KV entries become sub-messages.
func ParseSnapshotTree(b []byte) ([]Item, error) {
	top, err := ParseMsg(b)
	if err != nil {
		return nil, err
	}
	for i := range top {
		it := &top[i]
		if it.WT != WTBytes {
			continue
		}
		switch it.Field {
		case SnapMeta:
			sub, err := ParseMsg(it.Bytes)
			if err != nil {
				return nil, err
			}
			it.Sub, it.IsSub = sub, true
		case SnapDatabases:
			sub, err := ParseMsg(it.Bytes)
			if err != nil {
				return nil, err
			}
			for j := range sub {
				e := &sub[j]
				if e.Field == DBIEntries && e.WT == WTBytes {
					kv, err := ParseMsg(e.Bytes)
					if err != nil {
						return nil, err
					}
					e.Sub, e.IsSub = kv, true
				}
			}
			it.Sub, it.IsSub = sub, true
		}
	}
	return top, nil
}

// CheckSchemaOnly walks a snapshot tree and reports the first field that is not
// part of the published schema (used by C06: no extra fields such as per-entry
// transaction ids may be present).
func CheckSchemaOnly(top []Item) error {
	var walk func(items []Item, level int, path string) error
	walk = func(items []Item, level int, path string) error {
		for _, it := range items {
			wt, ok := KnownFields[level][it.Field]
			if !ok {
				return fmt.Errorf("field %d (wire type %d) at %s is not in the published schema", it.Field, it.WT, path)
			}
			if wt != it.WT {
				return fmt.Errorf("field %d at %s has wire type %d, schema says %d", it.Field, path, it.WT, wt)
			}
			if it.IsSub {
				next := -1
				switch {
				case level == LevelSnapshot && it.Field == SnapMeta:
					next = LevelMeta
				case level == LevelSnapshot && it.Field == SnapDatabases:
					next = LevelDBI
				case level == LevelDBI && it.Field == DBIEntries:
					next = LevelKV
				}
				if next >= 0 {
					if err := walk(it.Sub, next, fmt.Sprintf("%s/%d", path, it.Field)); err != nil {
						return err
					}
				}
			}
		}
		return nil
	}
	return walk(top, LevelSnapshot, "")
}

// Messages returns pointers to all item lists of a given level in the tree, in
// document order, so that a re-encoding op can address "the n-th message of
// level L".
func Messages(top *[]Item, level int) []*[]Item {
	var out []*[]Item
	if level == LevelSnapshot {
		return []*[]Item{top}
	}
	for i := range *top {
		it := &(*top)[i]
		if !it.IsSub {
			continue
		}
		switch {
		case it.Field == SnapMeta && level == LevelMeta:
			out = append(out, &it.Sub)
		case it.Field == SnapDatabases && level == LevelDBI:
			out = append(out, &it.Sub)
		case it.Field == SnapDatabases && level == LevelKV:
			for j := range it.Sub {
				e := &it.Sub[j]
				if e.IsSub && e.Field == DBIEntries {
					out = append(out, &e.Sub)
				}
			}
		}
	}
	return out
}

func PutFixed64(v uint64) []byte {
	b := make([]byte, 8)
	binary.LittleEndian.PutUint64(b, v)
	return b
}

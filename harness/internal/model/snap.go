package model

import (
	"bytes"
	"encoding/hex"
	"encoding/json"
	"fmt"

	"github.com/PowerDNS/lightningstream/snapshot/gogosnapshot"
)

// Bytes is a []byte that is written as hex in JSON (readable samples/replays).
type Bytes []byte

func (b Bytes) MarshalJSON() ([]byte, error) { return json.Marshal(hex.EncodeToString(b)) }
func (b *Bytes) UnmarshalJSON(d []byte) error {
	var s string
	if err := json.Unmarshal(d, &s); err != nil {
		return err
	}
	v, err := hex.DecodeString(s)
	if err != nil {
		return err
	}
	*b = v
	return nil
}

// Val is a compact description of a (possibly large) value: Head followed by
// Fill repeated up to Len bytes.
type Val struct {
	Len  int   `json:"len"`
	Head Bytes `json:"head,omitempty"`
	Fill byte  `json:"fill,omitempty"`
}

func (v Val) Bytes() []byte {
	if v.Len == 0 {
		return nil
	}
	b := make([]byte, v.Len)
	n := copy(b, v.Head)
	for i := n; i < v.Len; i++ {
		b[i] = v.Fill
	}
	return b
}

func ValOf(b []byte) Val { return Val{Len: len(b), Head: append(Bytes(nil), b...)} }

// KV, DBI, Meta, Snap: plain-data model of a snapshot.
type KV struct {
	Key   Bytes  `json:"k"`
	Val   Val    `json:"v"`
	TS    uint64 `json:"ts"`
	Flags uint32 `json:"fl,omitempty"`
}

type DBI struct {
	Name      string `json:"name"`
	Flags     uint64 `json:"flags,omitempty"`
	Transform string `json:"transform,omitempty"`
	Entries   []KV   `json:"entries"`
}

type Meta struct {
	GenerationID  string `json:"gen,omitempty"`
	InstanceID    string `json:"inst,omitempty"`
	Hostname      string `json:"host,omitempty"`
	LmdbTxnID     int64  `json:"txn,omitempty"`
	TimestampNano uint64 `json:"ts,omitempty"`
	DatabaseName  string `json:"db,omitempty"`
	FromLmdbTxnID int64  `json:"from,omitempty"`
}

type Snap struct {
	FormatVersion uint32 `json:"fv"`
	CompatVersion uint32 `json:"cv"`
	Meta          Meta   `json:"meta"`
	DBIs          []DBI  `json:"dbis"`
}

// ToGogo converts the model into the generated reference message.
func (s Snap) ToGogo() *gogosnapshot.Snapshot {
	g := &gogosnapshot.Snapshot{
		FormatVersion: s.FormatVersion,
		CompatVersion: s.CompatVersion,
		Meta: gogosnapshot.Snapshot_Meta{
			GenerationID: s.Meta.GenerationID, InstanceID: s.Meta.InstanceID, Hostname: s.Meta.Hostname,
			LmdbTxnID: s.Meta.LmdbTxnID, TimestampNano: s.Meta.TimestampNano,
			DatabaseName: s.Meta.DatabaseName, FromLmdbTxnID: s.Meta.FromLmdbTxnID,
		},
	}
	for _, d := range s.DBIs {
		gd := &gogosnapshot.DBI{Name: d.Name, Flags: d.Flags, Transform: d.Transform}
		for _, e := range d.Entries {
			gd.Entries = append(gd.Entries, gogosnapshot.KV{Key: e.Key, Value: e.Val.Bytes(), TimestampNano: e.TS, Flags: e.Flags})
		}
		g.Databases = append(g.Databases, gd)
	}
	return g
}

// Flat is a fully materialised snapshot used for comparisons.
type FlatKV struct {
	Key, Value []byte
	TS         uint64
	Flags      uint32
}
type FlatDBI struct {
	Name      string
	Flags     uint64
	Transform string
	Entries   []FlatKV
}
type Flat struct {
	FormatVersion, CompatVersion uint32
	Meta                         Meta
	DBIs                         []FlatDBI
}

func (s Snap) Flat() Flat {
	f := Flat{FormatVersion: s.FormatVersion, CompatVersion: s.CompatVersion, Meta: s.Meta}
	for _, d := range s.DBIs {
		fd := FlatDBI{Name: d.Name, Flags: d.Flags, Transform: d.Transform}
		for _, e := range d.Entries {
			fd.Entries = append(fd.Entries, FlatKV{Key: e.Key, Value: e.Val.Bytes(), TS: e.TS, Flags: e.Flags})
		}
		f.DBIs = append(f.DBIs, fd)
	}
	return f
}

func FlatFromGogo(g *gogosnapshot.Snapshot) Flat {
	f := Flat{FormatVersion: g.FormatVersion, CompatVersion: g.CompatVersion, Meta: Meta{
		GenerationID: g.Meta.GenerationID, InstanceID: g.Meta.InstanceID, Hostname: g.Meta.Hostname,
		LmdbTxnID: g.Meta.LmdbTxnID, TimestampNano: g.Meta.TimestampNano,
		DatabaseName: g.Meta.DatabaseName, FromLmdbTxnID: g.Meta.FromLmdbTxnID,
	}}
	for _, d := range g.Databases {
		if d == nil {
			f.DBIs = append(f.DBIs, FlatDBI{})
			continue
		}
		fd := FlatDBI{Name: d.Name, Flags: d.Flags, Transform: d.Transform}
		for _, e := range d.Entries {
			fd.Entries = append(fd.Entries, FlatKV{Key: e.Key, Value: e.Value, TS: e.TimestampNano, Flags: e.Flags})
		}
		f.DBIs = append(f.DBIs, fd)
	}
	return f
}

func short(b []byte) string {
	if len(b) > 24 {
		return fmt.Sprintf("%x…(%d bytes)", b[:24], len(b))
	}
	return fmt.Sprintf("%x", b)
}

// Diff returns "" when equal, else a description of the first difference.
func (a Flat) Diff(b Flat) string {
	if a.FormatVersion != b.FormatVersion {
		return fmt.Sprintf("formatVersion %d vs %d", a.FormatVersion, b.FormatVersion)
	}
	if a.CompatVersion != b.CompatVersion {
		return fmt.Sprintf("compatVersion %d vs %d", a.CompatVersion, b.CompatVersion)
	}
	if a.Meta != b.Meta {
		return fmt.Sprintf("meta %+v vs %+v", a.Meta, b.Meta)
	}
	if len(a.DBIs) != len(b.DBIs) {
		return fmt.Sprintf("number of DBIs %d vs %d", len(a.DBIs), len(b.DBIs))
	}
	for i := range a.DBIs {
		x, y := a.DBIs[i], b.DBIs[i]
		if x.Name != y.Name || x.Flags != y.Flags || x.Transform != y.Transform {
			return fmt.Sprintf("dbi[%d] header (%q,%#x,%q) vs (%q,%#x,%q)", i, x.Name, x.Flags, x.Transform, y.Name, y.Flags, y.Transform)
		}
		if len(x.Entries) != len(y.Entries) {
			return fmt.Sprintf("dbi[%d] %q: %d entries vs %d", i, x.Name, len(x.Entries), len(y.Entries))
		}
		for j := range x.Entries {
			p, q := x.Entries[j], y.Entries[j]
			if !bytes.Equal(p.Key, q.Key) || !bytes.Equal(p.Value, q.Value) || p.TS != q.TS || p.Flags != q.Flags {
				return fmt.Sprintf("dbi[%d] %q entry[%d]: (k=%s v=%s ts=%d fl=%#x) vs (k=%s v=%s ts=%d fl=%#x)",
					i, x.Name, j, short(p.Key), short(p.Value), p.TS, p.Flags, short(q.Key), short(q.Value), q.TS, q.Flags)
			}
		}
	}
	return ""
}

package model

import (
	"bytes"
	"encoding/binary"
	"sort"
)

// ---------------------------------------------------------------------------
// Reference model of the shadow-mode mirror (C11) and of LWW merging.
// ---------------------------------------------------------------------------

// SVer is one version in a shadow (or native) DBI.
type SVer struct {
	TS  uint64
	Del bool
	Val []byte
	Txn uint64 // id of the LS transaction that wrote it (0 = unknown / written by the application)
}

func (a SVer) SameLogical(b SVer) bool {
	return a.TS == b.TS && a.Del == b.Del && bytes.Equal(a.Val, b.Val)
}

// Wins reports whether incoming version b replaces stored version a under the
// code's documented rule: higher timestamp wins; on a tie the lexicographically
// lower value wins; for equal values the deleted one wins.
func Wins(a, b SVer) bool {
	if b.TS != a.TS {
		return b.TS > a.TS
	}
	c := bytes.Compare(a.Val, b.Val)
	if c != 0 {
		return c > 0
	}
	return b.Del && !a.Del
}

type MirrorDBI struct {
	Kind      string // plain | int4 | int8
	HasMain   bool   // application DBI exists
	Main      map[string][]byte
	Shadow    map[string]SVer
	HasShadow bool
}

type Mirror struct {
	DBIs map[string]*MirrorDBI
}

func NewMirror() *Mirror { return &Mirror{DBIs: map[string]*MirrorDBI{}} }

func (m *Mirror) dbi(name, kind string) *MirrorDBI {
	d := m.DBIs[name]
	if d == nil {
		d = &MirrorDBI{Kind: kind, Main: map[string][]byte{}, Shadow: map[string]SVer{}}
		m.DBIs[name] = d
	}
	return d
}

// AppCreate: the application creates a DBI.
func (m *Mirror) AppCreate(name, kind string) { m.dbi(name, kind).HasMain = true }

func (m *Mirror) AppPut(name, kind string, key, val []byte) {
	d := m.dbi(name, kind)
	d.HasMain = true
	d.Main[string(key)] = append([]byte(nil), val...)
}

func (m *Mirror) AppDel(name string, key []byte) {
	if d := m.DBIs[name]; d != nil {
		delete(d.Main, string(key))
	}
}

// Capture is mainToShadow at time t executed by transaction txn. It returns
// whether anything changed.
func (m *Mirror) Capture(t, txn uint64) bool {
	changed := false
	for _, d := range m.DBIs {
		if !d.HasMain {
			continue
		}
		if !d.HasShadow {
			d.HasShadow = true
			changed = true
		}
		for k, v := range d.Main {
			s, ok := d.Shadow[k]
			if ok && !s.Del && bytes.Equal(s.Val, v) {
				continue // unchanged: timestamp kept
			}
			d.Shadow[k] = SVer{TS: t, Val: append([]byte(nil), v...), Txn: txn}
			changed = true
		}
		for k, s := range d.Shadow {
			if _, ok := d.Main[k]; !ok && !s.Del {
				d.Shadow[k] = SVer{TS: t, Del: true, Val: nil, Txn: txn}
				changed = true
			}
		}
	}
	return changed
}

// MergeRemote merges one remote version into the shadow state (LWW).
func (m *Mirror) MergeRemote(name, kind string, key []byte, v SVer, txn uint64) bool {
	d := m.dbi(name, kind)
	d.HasMain = true // LoadOnce creates the application DBI if needed
	d.HasShadow = true
	if v.Del {
		v.Val = nil
	}
	old, ok := d.Shadow[string(key)]
	if ok && !Wins(old, v) {
		return false
	}
	v.Txn = txn
	d.Shadow[string(key)] = v
	return true
}

// EnsureDBI: a merge creates the application and shadow DBI of every DBI a snapshot names, even when it
// then takes no entry from it.
func (m *Mirror) EnsureDBI(name, kind string) {
	d := m.dbi(name, kind)
	d.HasMain = true
	d.HasShadow = true
}

// HasShadowEntry reports whether the shadow DBI holds any version (live or marker) of the key.
func (m *Mirror) HasShadowEntry(name string, key []byte) bool {
	d := m.DBIs[name]
	if d == nil {
		return false
	}
	_, ok := d.Shadow[string(key)]
	return ok
}

// Project is shadowToMain: main == exactly the live entries of shadow.
func (m *Mirror) Project() bool {
	changed := false
	for _, d := range m.DBIs {
		if !d.HasMain {
			continue
		}
		want := map[string][]byte{}
		for k, s := range d.Shadow {
			if !s.Del {
				want[k] = s.Val
			}
		}
		if len(want) != len(d.Main) {
			changed = true
		} else {
			for k, v := range want {
				if o, ok := d.Main[k]; !ok || !bytes.Equal(o, v) {
					changed = true
				}
			}
		}
		d.Main = want
	}
	return changed
}

// KeyLess orders keys the way LMDB does for the DBI kind (little-endian host).
func KeyLess(kind string, a, b []byte) bool {
	switch kind {
	case "int4":
		if len(a) == 4 && len(b) == 4 {
			return binary.LittleEndian.Uint32(a) < binary.LittleEndian.Uint32(b)
		}
	case "int8":
		if len(a) == 8 && len(b) == 8 {
			return binary.LittleEndian.Uint64(a) < binary.LittleEndian.Uint64(b)
		}
	}
	return bytes.Compare(a, b) < 0
}

// SortedKeys returns the keys of a map in DBI order.
func SortedKeys[V any](kind string, m map[string]V) []string {
	ks := make([]string, 0, len(m))
	for k := range m {
		ks = append(ks, k)
	}
	sort.Slice(ks, func(i, j int) bool { return KeyLess(kind, []byte(ks[i]), []byte(ks[j])) })
	return ks
}

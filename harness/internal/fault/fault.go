// Package fault is an in-memory simpleblob backend shared by several instance
// handles, with per-handle views, generated fault plans and an operation log.
package fault

import (
	"context"
	"errors"
	"os"
	"sort"
	"strings"
	"sync"

	"github.com/PowerDNS/simpleblob"
)

// Fault kinds
const (
	OK           = "ok"
	Fail         = "fail"          // operation fails, nothing happens
	AppliedError = "applied-error" // Store/Delete is applied but an error is returned
	NotExist     = "not-exist"     // Load: blob reported missing
)

var ErrInjected = errors.New("injected storage fault")

type Op struct {
	Seq     int
	Kind    string // list | load | store | delete
	By      string
	Name    string
	Fault   string
	Applied bool
	Size    int
	Data    []byte // store ops: the stored bytes (shared, do not modify)
}

type Bucket struct {
	mu    sync.Mutex
	blobs map[string][]byte
	log   []Op
	seq   int
	// OnMutate is called (with the bucket locked) after every applied Store/Delete.
	OnMutate func(op Op)
}

func NewBucket() *Bucket { return &Bucket{blobs: map[string][]byte{}} }

func (b *Bucket) Handle(inst string) *Handle {
	return &Handle{b: b, inst: inst, plan: map[string][]string{}, hidden: map[string]bool{}}
}

// Log returns a copy of the operation log.
func (b *Bucket) Log() []Op {
	b.mu.Lock()
	defer b.mu.Unlock()
	return append([]Op(nil), b.log...)
}

func (b *Bucket) LogLen() int {
	b.mu.Lock()
	defer b.mu.Unlock()
	return len(b.log)
}

// Names returns all blob names, sorted.
func (b *Bucket) Names() []string {
	b.mu.Lock()
	defer b.mu.Unlock()
	var ns []string
	for n := range b.blobs {
		ns = append(ns, n)
	}
	sort.Strings(ns)
	return ns
}

func (b *Bucket) Get(name string) ([]byte, bool) {
	b.mu.Lock()
	defer b.mu.Unlock()
	d, ok := b.blobs[name]
	return d, ok
}

// Put stores a blob directly (harness acting as a peer), logged as by "harness".
func (b *Bucket) Put(name string, data []byte) {
	b.mu.Lock()
	defer b.mu.Unlock()
	cp := append([]byte(nil), data...)
	b.blobs[name] = cp
	b.record(Op{Kind: "store", By: "harness", Name: name, Fault: OK, Applied: true, Size: len(data), Data: cp})
}

// Remove deletes a blob directly (external deletion).
func (b *Bucket) Remove(name string) {
	b.mu.Lock()
	defer b.mu.Unlock()
	delete(b.blobs, name)
	b.record(Op{Kind: "delete", By: "harness", Name: name, Fault: OK, Applied: true})
}

func (b *Bucket) record(op Op) {
	b.seq++
	op.Seq = b.seq
	b.log = append(b.log, op)
	if op.Applied && (op.Kind == "store" || op.Kind == "delete") && b.OnMutate != nil {
		b.OnMutate(op)
	}
}

// Handle is one instance's connection to the bucket.
type Handle struct {
	ignoreCtx bool
	b         *Bucket
	inst      string

	mu sync.Mutex
	// plan: per operation kind a queue of fault kinds, consumed one per call; empty = ok
	plan map[string][]string
	// view: names hidden from this handle's List/Load (lets the harness hold snapshots back)
	hidden  map[string]bool
	hideAll bool
	visible map[string]bool // exceptions to hideAll
	scoped  map[string]*scopedPlan
}

var _ simpleblob.Interface = (*Handle)(nil)

// SetPlanFor queues faults for the calls of that kind whose object name contains match (consumed before
// the general plan of the kind; other names are not affected).
func (h *Handle) SetPlanFor(kind, match string, faults []string) {
	h.mu.Lock()
	defer h.mu.Unlock()
	if h.scoped == nil {
		h.scoped = map[string]*scopedPlan{}
	}
	h.scoped[kind] = &scopedPlan{match: match, faults: append([]string(nil), faults...)}
}

type scopedPlan struct {
	match  string
	faults []string
}

// nextFor returns the next fault for a call of that kind on that name.
func (h *Handle) nextFor(kind, name string) string {
	h.mu.Lock()
	if sp := h.scoped[kind]; sp != nil && len(sp.faults) > 0 && strings.Contains(name, sp.match) {
		f := sp.faults[0]
		sp.faults = sp.faults[1:]
		h.mu.Unlock()
		return f
	}
	h.mu.Unlock()
	return h.next(kind)
}

func (h *Handle) SetPlan(kind string, faults []string) {
	h.mu.Lock()
	defer h.mu.Unlock()
	h.plan[kind] = append([]string(nil), faults...)
}

func (h *Handle) ClearPlans() {
	h.mu.Lock()
	defer h.mu.Unlock()
	h.plan = map[string][]string{}
	h.scoped = nil
}

func (h *Handle) Hide(name string)   { h.mu.Lock(); h.hidden[name] = true; h.mu.Unlock() }
func (h *Handle) Unhide(name string) { h.mu.Lock(); delete(h.hidden, name); h.mu.Unlock() }

// HideAllExcept makes only the given names (and names shown later with Show) visible.
func (h *Handle) HideAllExcept(names ...string) {
	h.mu.Lock()
	defer h.mu.Unlock()
	h.hideAll = true
	h.visible = map[string]bool{}
	for _, n := range names {
		h.visible[n] = true
	}
}

func (h *Handle) Show(name string) {
	h.mu.Lock()
	defer h.mu.Unlock()
	if h.visible == nil {
		h.visible = map[string]bool{}
	}
	h.visible[name] = true
	delete(h.hidden, name)
}

func (h *Handle) ShowAll() {
	h.mu.Lock()
	defer h.mu.Unlock()
	h.hideAll = false
	h.hidden = map[string]bool{}
}

func (h *Handle) sees(name string) bool {
	if h.hidden[name] {
		return false
	}
	if h.hideAll && !h.visible[name] {
		return false
	}
	return true
}

// IgnoreContext makes the handle behave like the fs and memory backends of simpleblob, which do not look
// at the context at all (the default behaves like the S3 backend: a cancelled context fails the call).
func (h *Handle) IgnoreContext(v bool) {
	h.mu.Lock()
	defer h.mu.Unlock()
	h.ignoreCtx = v
}

func (h *Handle) ctxErr(ctx context.Context) error {
	h.mu.Lock()
	ign := h.ignoreCtx
	h.mu.Unlock()
	if ign {
		return nil
	}
	return ctx.Err()
}

func (h *Handle) next(kind string) string {
	h.mu.Lock()
	defer h.mu.Unlock()
	q := h.plan[kind]
	if len(q) == 0 {
		return OK
	}
	f := q[0]
	h.plan[kind] = q[1:]
	return f
}

func (h *Handle) List(ctx context.Context, prefix string) (simpleblob.BlobList, error) {
	if err := h.ctxErr(ctx); err != nil {
		return nil, err
	}
	f := h.next("list")
	h.b.mu.Lock()
	defer h.b.mu.Unlock()
	if f != OK {
		h.b.record(Op{Kind: "list", By: h.inst, Name: prefix, Fault: f})
		return nil, ErrInjected
	}
	var bl simpleblob.BlobList
	h.mu.Lock()
	for n, d := range h.b.blobs {
		if strings.HasPrefix(n, prefix) && h.sees(n) {
			bl = append(bl, simpleblob.Blob{Name: n, Size: int64(len(d))})
		}
	}
	h.mu.Unlock()
	bl.Sort()
	h.b.record(Op{Kind: "list", By: h.inst, Name: prefix, Fault: OK})
	return bl, nil
}

func (h *Handle) Load(ctx context.Context, name string) ([]byte, error) {
	if err := h.ctxErr(ctx); err != nil {
		return nil, err
	}
	f := h.nextFor("load", name)
	h.b.mu.Lock()
	defer h.b.mu.Unlock()
	switch f {
	case Fail, AppliedError:
		h.b.record(Op{Kind: "load", By: h.inst, Name: name, Fault: f})
		return nil, ErrInjected
	case NotExist:
		h.b.record(Op{Kind: "load", By: h.inst, Name: name, Fault: f})
		return nil, os.ErrNotExist
	}
	h.mu.Lock()
	vis := h.sees(name)
	h.mu.Unlock()
	d, ok := h.b.blobs[name]
	if !ok || !vis {
		h.b.record(Op{Kind: "load", By: h.inst, Name: name, Fault: NotExist})
		return nil, os.ErrNotExist
	}
	h.b.record(Op{Kind: "load", By: h.inst, Name: name, Fault: OK, Applied: true, Size: len(d)})
	return append([]byte(nil), d...), nil
}

func (h *Handle) Store(ctx context.Context, name string, data []byte) error {
	if err := h.ctxErr(ctx); err != nil {
		return err
	}
	f := h.next("store")
	h.b.mu.Lock()
	defer h.b.mu.Unlock()
	if f == Fail || f == NotExist {
		h.b.record(Op{Kind: "store", By: h.inst, Name: name, Fault: f, Size: len(data)})
		return ErrInjected
	}
	cp := append([]byte(nil), data...)
	h.b.blobs[name] = cp
	h.b.record(Op{Kind: "store", By: h.inst, Name: name, Fault: f, Applied: true, Size: len(data), Data: cp})
	if f == AppliedError {
		return ErrInjected
	}
	return nil
}

func (h *Handle) Delete(ctx context.Context, name string) error {
	if err := h.ctxErr(ctx); err != nil {
		return err
	}
	f := h.next("delete")
	h.b.mu.Lock()
	defer h.b.mu.Unlock()
	if f == Fail || f == NotExist {
		h.b.record(Op{Kind: "delete", By: h.inst, Name: name, Fault: f})
		return ErrInjected
	}
	_, existed := h.b.blobs[name]
	delete(h.b.blobs, name)
	h.b.record(Op{Kind: "delete", By: h.inst, Name: name, Fault: f, Applied: existed})
	if f == AppliedError {
		return ErrInjected
	}
	return nil
}

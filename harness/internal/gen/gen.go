// Package gen holds rapid generators shared by the property packages.
package gen

import (
	"pgregory.net/rapid"

	"verif/harness/internal/model"
)

var biasedBytes = []byte{0x00, 0x01, 0x7f, 0x80, 0xff, 'a', 'b', 'c', 'd'}

// Byte draws a byte biased towards boundary values and a small alphabet.
func Byte(t *rapid.T, label string) byte {
	if rapid.IntRange(0, 4).Draw(t, label+"?") == 0 {
		return rapid.Byte().Draw(t, label)
	}
	return biasedBytes[rapid.IntRange(0, len(biasedBytes)-1).Draw(t, label)]
}

// BytesN draws a byte string with length in [min,max], biased bytes.
func BytesN(t *rapid.T, label string, min, max int) []byte {
	n := rapid.IntRange(min, max).Draw(t, label+"_len")
	b := make([]byte, n)
	for i := range b {
		b[i] = Byte(t, label)
	}
	return b
}

// Key draws an LMDB key of 1..maxLen bytes: mostly short with shared
// prefixes, sometimes long, sometimes exactly maxLen.
func Key(t *rapid.T, label string, maxLen int) []byte {
	switch rapid.IntRange(0, 9).Draw(t, label+"_kind") {
	case 0:
		return BytesN(t, label, maxLen, maxLen)
	case 1:
		return BytesN(t, label, 1, maxLen)
	case 2:
		// long shared prefix
		n := rapid.IntRange(1, maxLen-1).Draw(t, label+"_plen")
		b := make([]byte, n, n+1)
		pb := Byte(t, label+"_pb")
		for i := range b {
			b[i] = pb
		}
		return append(b, Byte(t, label+"_last"))
	default:
		return BytesN(t, label, 1, 4)
	}
}

// ValLen draws a value length from boundary classes of the varint encodings.
func ValLen(t *rapid.T, label string, allowHuge bool) int {
	k := rapid.IntRange(0, 39).Draw(t, label+"_class")
	switch {
	case k < 6:
		return 0
	case k < 10:
		return 1
	case k < 24:
		return rapid.IntRange(2, 40).Draw(t, label)
	case k < 30:
		return rapid.IntRange(90, 140).Draw(t, label) // KV message size crosses 127/128
	case k < 33:
		return rapid.SampledFrom([]int{127, 128, 255, 256, 511, 512}).Draw(t, label)
	case k < 36:
		return rapid.IntRange(16300, 16400).Draw(t, label) // 2->3 byte varint
	case k < 38:
		return rapid.SampledFrom([]int{16383, 16384, 65535, 65536}).Draw(t, label)
	default:
		if allowHuge && rapid.IntRange(0, 5).Draw(t, label+"_huge?") == 0 {
			return rapid.SampledFrom([]int{2097151, 2097152, 2097100, 2097200, 3 << 20}).Draw(t, label) // 3->4 byte varint
		}
		return rapid.IntRange(2, 40).Draw(t, label)
	}
}

// Value draws a compact value description.
func Value(t *rapid.T, label string, allowHuge bool) model.Val {
	n := ValLen(t, label, allowHuge)
	v := model.Val{Len: n}
	if n == 0 {
		return v
	}
	hn := n
	if hn > 6 {
		hn = rapid.IntRange(0, 6).Draw(t, label+"_hn")
	}
	v.Head = BytesN(t, label+"_head", hn, hn)
	if n > hn {
		v.Fill = Byte(t, label+"_fill")
	}
	return v
}

// Timestamp pool: small tie-prone values, realistic values and extremes.
func TS(t *rapid.T, label string) uint64 {
	switch rapid.IntRange(0, 9).Draw(t, label+"_kind") {
	case 0:
		return 0
	case 1, 2, 3:
		return uint64(rapid.IntRange(1, 5).Draw(t, label))
	case 4:
		return rapid.SampledFrom([]uint64{1<<63 - 1, 1 << 63, ^uint64(0), 1<<32 - 1, 1 << 32}).Draw(t, label)
	case 5:
		return rapid.Uint64().Draw(t, label)
	default:
		return 1_700_000_000_000_000_000 + uint64(rapid.IntRange(0, 1_000_000).Draw(t, label))
	}
}

var nameAlphabet = []rune("abcXYZ019-_.")

// DBIName draws a DBI name of 1..maxLen bytes.
func DBIName(t *rapid.T, label string, maxLen int) string {
	if rapid.IntRange(0, 9).Draw(t, label+"_kind") == 0 {
		return string(BytesN(t, label+"_raw", 1, maxLen))
	}
	return rapid.StringOfN(rapid.RuneFrom(nameAlphabet), 1, 12, 12).Draw(t, label)
}

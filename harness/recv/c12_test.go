package recv

import (
	"context"
	"fmt"
	"sort"
	"strings"
	"testing"
	"time"

	"github.com/PowerDNS/lightningstream/config"
	"github.com/PowerDNS/lightningstream/snapshot"
	"github.com/PowerDNS/lightningstream/syncer/cleaner"
	"github.com/sirupsen/logrus"
	"pgregory.net/rapid"

	"verif/harness/internal/fault"
	"verif/harness/internal/vcore"
)

// ---------------------------------------------------------------------------
// C12 The snapshot cleaner never deletes what is still needed
// ---------------------------------------------------------------------------

const c12DB = "db"

type C12Op struct {
	Kind  string `json:"kind"` // publish | foreign | extdel | commit | advance | run
	Inst  int    `json:"inst,omitempty"`
	DtNs  int64  `json:"dt_ns,omitempty"`
	Fault string `json:"fault,omitempty"` // run: "" | list | delete | delete-applied
	Name  string `json:"name,omitempty"`  // foreign file name
	Idx   int    `json:"idx,omitempty"`
	Back  int64  `json:"back_ns,omitempty"` // commit: committed time = ts of the newest snapshot - back
	// Skew (publish): the publishing instance's clock is this far ahead of (or behind) the cleaner's
	Skew int64 `json:"skew_ns,omitempty"`
}

type C12Case struct {
	Enabled   bool    `json:"enabled"`
	MustKeep  int64   `json:"must_keep_ns"`
	RemoveOld int64   `json:"remove_old_ns"`
	Ops       []C12Op `json:"ops"`
}

var c12Insts = []string{"a", "b", "c", "own"}

var c12Epoch = time.Date(2026, 1, 1, 0, 0, 0, 0, time.UTC)

func checkC12(c C12Case, o *vcore.Obs) error {
	b := fault.NewBucket()
	h := b.Handle("cleaner")
	conf := config.Cleanup{Enabled: c.Enabled, Interval: time.Minute, MustKeepInterval: time.Duration(c.MustKeep), RemoveOldInstancesInterval: time.Duration(c.RemoveOld)}
	w := cleaner.New(c12DB, h, conf, logrus.StandardLogger())
	now := c12Epoch
	lastPub := map[string]time.Time{}
	firstSeen := map[string]time.Time{}  // model: first run at which a name was listed
	committed := map[string]time.Time{}  // model: what was merged AND followed by an own upload
	liveMerged := map[string]time.Time{} // the syncer's own map (one object for the whole history, as in the syncer)
	ctx := context.Background()
	runs, deletes := 0, 0
	maxPerInst := map[string]int{}
	runsSeen := map[string]int{} // successful fault-free-listing runs that listed the name so far
	mustDeletes := 0

	wellFormed := func(name string) (snapshot.NameInfo, bool) {
		ni, err := snapshot.ParseName(name)
		if err != nil || ni.SyncerName != c12DB || ni.Kind != snapshot.KindSnapshot || !strings.HasPrefix(name, c12DB+"__") {
			return ni, false
		}
		return ni, true
	}

	doRun := func(step string, faultKind string) error {
		// listing as the cleaner will see it
		listing := b.Names()
		newest := map[string]snapshot.NameInfo{}
		for _, n := range listing {
			if ni, ok := wellFormed(n); ok {
				if cur, ok := newest[ni.InstanceID]; !ok || ni.Timestamp.After(cur.Timestamp) {
					newest[ni.InstanceID] = ni
				}
			}
		}
		switch faultKind {
		case "list":
			h.SetPlan("list", []string{fault.Fail})
		case "delete":
			h.SetPlan("delete", []string{fault.Fail})
		case "delete-applied":
			h.SetPlan("delete", []string{fault.AppliedError})
		}
		n0 := b.LogLen()
		err := w.RunOnce(ctx, now)
		h.ClearPlans()
		ops := b.Log()[n0:]
		runs++
		if !c.Enabled {
			if len(ops) != 0 {
				return fmt.Errorf("%s: disabled cleaner touched the storage: %+v", step, ops)
			}
			return nil
		}
		if faultKind == "list" {
			if err == nil {
				return fmt.Errorf("%s: failing List not reported", step)
			}
			for _, op := range ops {
				if op.Kind == "delete" || op.Kind == "store" {
					return fmt.Errorf("%s: List failed but the cleaner issued %s %s", step, op.Kind, op.Name)
				}
			}
			return nil // a failed listing teaches the cleaner nothing
		}
		// model of first-seen bookkeeping for this (successful) listing
		listed := map[string]bool{}
		for _, n := range listing {
			if _, ok := wellFormed(n); ok {
				listed[n] = true
			}
		}
		for n := range firstSeen {
			if !listed[n] {
				delete(firstSeen, n)
			}
		}
		for _, op := range ops {
			switch op.Kind {
			case "store":
				return fmt.Errorf("%s: cleaner stored %s", step, op.Name)
			case "delete":
				deletes++
				ni, ok := wellFormed(op.Name)
				if !ok {
					return fmt.Errorf("%s: cleaner deleted %q, which is not a well-formed snapshot of database %q", step, op.Name, c12DB)
				}
				if !listed[op.Name] {
					return fmt.Errorf("%s: cleaner deleted %q which was not in the listing", step, op.Name)
				}
				fs, seen := firstSeen[op.Name]
				if !seen {
					return fmt.Errorf("%s: cleaner deleted %q in the very run that first listed it (keep interval %v)", step, op.Name, time.Duration(c.MustKeep))
				}
				if !(now.Sub(fs) > time.Duration(c.MustKeep)) {
					return fmt.Errorf("%s: cleaner deleted %q first seen %v ago, keep interval %v", step, op.Name, now.Sub(fs), time.Duration(c.MustKeep))
				}
				if newest[ni.InstanceID].FullName == op.Name {
					if !(now.Sub(ni.Timestamp) > time.Duration(c.RemoveOld)) {
						return fmt.Errorf("%s: cleaner deleted the newest snapshot %q of an instance silent for only %v (stale interval %v)", step, op.Name, now.Sub(ni.Timestamp), time.Duration(c.RemoveOld))
					}
					ct, ok := committed[ni.InstanceID]
					if !ok || ct.Before(ni.Timestamp) {
						return fmt.Errorf("%s: cleaner deleted the newest snapshot %q of instance %q although this instance has not merged and re-published it (committed %v)", step, op.Name, ni.InstanceID, ct)
					}
					o.Class("stale-instance-newest-deleted")
				} else {
					o.Class("superseded-deleted")
				}
				if op.Fault == fault.Fail && op.Applied {
					return fmt.Errorf("harness: failed delete applied")
				}
			}
		}
		// bounded form of "superseded snapshots are eventually removed": a snapshot that is past its keep
		// interval and has a newer snapshot of the same instance that was already listed in at least two
		// earlier runs is deleted by a run without storage faults - also when yet another snapshot of that
		// instance has just arrived
		if faultKind == "" {
			deleted := map[string]bool{}
			for _, op := range ops {
				if op.Kind == "delete" && op.Applied {
					deleted[op.Name] = true
				}
			}
			for n := range listed {
				fs, seen := firstSeen[n]
				if !seen || !(now.Sub(fs) > time.Duration(c.MustKeep)) || deleted[n] {
					continue
				}
				ni, _ := wellFormed(n)
				for n2 := range listed {
					ni2, _ := wellFormed(n2)
					if ni2.InstanceID == ni.InstanceID && ni2.Timestamp.After(ni.Timestamp) && runsSeen[n2] >= 2 {
						return fmt.Errorf("%s: %q is past its keep interval (first seen %v ago, keep %v) and superseded by %q, which the cleaner has listed in %d earlier runs, but this fault-free run did not delete it: superseded snapshots must be removed (the number of files per instance stays bounded)", step, n, now.Sub(fs), time.Duration(c.MustKeep), n2, runsSeen[n2])
					}
				}
			}
			mustDeletes++
		}
		for n := range runsSeen {
			if !listed[n] {
				delete(runsSeen, n)
			}
		}
		for n := range listed {
			runsSeen[n]++
			if _, ok := firstSeen[n]; !ok {
				firstSeen[n] = now
			}
		}
		_ = err
		return nil
	}

	for oi, op := range c.Ops {
		step := fmt.Sprintf("step %d (%s)", oi, op.Kind)
		switch op.Kind {
		case "advance":
			now = now.Add(time.Duration(op.DtNs))
		case "publish":
			inst := c12Insts[op.Inst%len(c12Insts)]
			ts := now.Add(time.Duration(op.Skew))
			if !ts.After(lastPub[inst]) {
				ts = lastPub[inst].Add(time.Nanosecond)
			}
			lastPub[inst] = ts
			o.ClassIf(ts.After(now), "snapshot-dated-ahead-of-the-cleaners-clock")
			b.Put(snapshot.Name(c12DB, inst, "GX", ts), []byte("x"))
			n := 0
			for _, nm := range b.Names() {
				if ni, ok := wellFormed(nm); ok && ni.InstanceID == inst {
					n++
				}
			}
			if n > maxPerInst[inst] {
				maxPerInst[inst] = n
			}
		case "foreign":
			b.Put(op.Name, []byte("foreign"))
		case "extdel":
			names := b.Names()
			if len(names) > 0 {
				b.Remove(names[op.Idx%len(names)])
			}
		case "merge":
			// the syncer merges a snapshot: its own bookkeeping map changes, the cleaner is NOT told yet
			inst := c12Insts[op.Inst%len(c12Insts)]
			if t, ok := lastPub[inst]; ok {
				ct := t.Add(-time.Duration(op.Back))
				if old, ok := liveMerged[inst]; !ok || ct.After(old) {
					liveMerged[inst] = ct
				}
			}
		case "commit":
			// the syncer has uploaded a snapshot of its own: it hands its (live, long-lived) map to the cleaner
			w.SetCommitted(liveMerged)
			for k, v := range liveMerged {
				committed[k] = v
			}
		case "run":
			if err := doRun(step, op.Fault); err != nil {
				return err
			}
		case "busy":
			// an instance that uploads between every two cleaning runs, for a while
			inst := c12Insts[op.Inst%len(c12Insts)]
			for k := 0; k < 3+op.Idx%4; k++ {
				ts := now
				if !ts.After(lastPub[inst]) {
					ts = lastPub[inst].Add(time.Nanosecond)
				}
				lastPub[inst] = ts
				b.Put(snapshot.Name(c12DB, inst, "GX", ts), []byte("x"))
				now = now.Add(time.Duration(op.DtNs))
				if err := doRun(fmt.Sprintf("%s run %d", step, k), ""); err != nil {
					return err
				}
			}
		}
	}
	// foreign files are never touched
	nForeign := 0
	for _, op := range c.Ops {
		if op.Kind == "foreign" {
			nForeign++
		}
	}
	// boundedness: two further fault-free runs more than the keep interval apart leave <= 1 file per instance
	if c.Enabled {
		if err := doRun("final run 1", ""); err != nil {
			return err
		}
		now = now.Add(time.Duration(c.MustKeep) + time.Nanosecond)
		if err := doRun("final run 2", ""); err != nil {
			return err
		}
		per := map[string]int{}
		for _, n := range b.Names() {
			if ni, ok := wellFormed(n); ok {
				per[ni.InstanceID]++
			}
		}
		for inst, n := range per {
			if n > 1 {
				return fmt.Errorf("after two fault-free runs more than the keep interval apart instance %q still has %d snapshots", inst, n)
			}
		}
	}
	multi := 0
	for _, n := range maxPerInst {
		if n >= 2 {
			multi++
		}
	}
	o.NonTrivial(multi >= 2 && runs >= 3 && deletes >= 1)
	o.ClassIf(!c.Enabled, "disabled")
	o.ClassIf(mustDeletes > 0, "must-delete-clause-evaluated")
	o.ClassIf(nForeign > 0, "foreign-files-present")
	return nil
}

func genC12(t *rapid.T) C12Case {
	var c C12Case
	c.Enabled = rapid.IntRange(0, 9).Draw(t, "enabled") > 0
	ivs := []int64{0, 1, int64(time.Second), int64(10 * time.Minute), int64(time.Hour), int64(7 * 24 * time.Hour)}
	c.MustKeep = rapid.SampledFrom(ivs).Draw(t, "must_keep")
	c.RemoveOld = rapid.SampledFrom(ivs).Draw(t, "remove_old")
	n := rapid.IntRange(3, 30).Draw(t, "nops")
	dts := func() int64 {
		base := rapid.SampledFrom([]int64{c.MustKeep, c.RemoveOld, int64(time.Second), int64(time.Hour)}).Draw(t, "dt_base")
		d := rapid.SampledFrom([]int64{-1, 0, 1, int64(time.Second), 0, 0}).Draw(t, "dt_delta")
		k := rapid.SampledFrom([]int64{1, 1, 1, 2, 10}).Draw(t, "dt_mul")
		v := base*k + d
		if v < 0 {
			v = 0
		}
		return v
	}
	foreign := []string{"db2__a__20260101-000000-000000000__GX.pb.gz", "dbx__a__20260101-000000-000000000__GX.pb.gz",
		"db__garbage", "db__a__20260101-000000-000000000__GX.txt", "db__a__20260101-000000-000000000__GX.pb.gz.tmp",
		"db__a__2026__GX.pb.gz", "db__dir/a__20260101-000000-000000000__GX.pb.gz", "db__a__b.pb.gz", "readme.md", "db",
		"db__a__20260101-000000-00000000__GX.pb.gz",
		// files of another registered kind (see init in c15_test.go), older and newer than any snapshot of their instance:
		// well-formed names of this database that are not snapshots - never deleted, never counted as "newest snapshot"
		"db__a__20200101-000000-000000000__GX.delta.pb.gz", "db__a__20990101-000000-000000000__GX.delta.pb.gz",
		"db__b__20990101-000000-000000001__GX.delta.pb.gz", "db__ghost__20990101-000000-000000000__GX.delta.pb.gz"}
	for i := 0; i < n; i++ {
		op := C12Op{Kind: rapid.SampledFrom([]string{"publish", "publish", "publish", "advance", "advance", "run", "run", "run", "merge", "merge", "commit", "foreign", "extdel", "busy"}).Draw(t, "kind")}
		switch op.Kind {
		case "busy":
			op.Inst = rapid.IntRange(0, 3).Draw(t, "inst")
			op.Idx = rapid.IntRange(0, 3).Draw(t, "busy_runs")
			op.DtNs = dts()
		case "publish", "merge":
			op.Inst = rapid.IntRange(0, 3).Draw(t, "inst")
			if op.Kind == "publish" {
				op.Skew = rapid.SampledFrom([]int64{0, 0, 0, int64(time.Minute), int64(2 * time.Hour), int64(3 * 24 * time.Hour), -int64(time.Hour)}).Draw(t, "skew")
			}
			if op.Kind == "merge" {
				op.Back = rapid.SampledFrom([]int64{0, 0, 1, -1, int64(time.Hour)}).Draw(t, "back")
			}
		case "advance":
			op.DtNs = dts()
		case "run":
			op.Fault = rapid.SampledFrom([]string{"", "", "", "", "list", "delete", "delete-applied"}).Draw(t, "fault")
		case "foreign":
			op.Name = rapid.SampledFrom(foreign).Draw(t, "fname")
		case "extdel":
			op.Idx = rapid.IntRange(0, 20).Draw(t, "idx")
		}
		c.Ops = append(c.Ops, op)
	}
	return c
}

func TestC12Cleaner(t *testing.T) {
	vcore.Run(t, vcore.Config{Property: "C12",
		Rule: "rapid state machine over a bucket and one cleaner.Worker: publish (per-instance increasing timestamps), foreign files (other databases with a shared name prefix, unparsable names, other extensions), external deletions, merges recorded in the syncer's own long-lived map (at / 1 ns before / after the newest snapshot) and separate own-upload notifications that hand that same map object to the cleaner, clock advances around the configured intervals (+-1 ns, multiples), runs with failing List / failing Delete / applied-but-failed Delete; intervals from {0, 1 ns, 1 s, 10 min, 1 h, 7 d}; enabled/disabled; every Delete is checked against the model (well-formed own snapshot, first seen longer ago than the keep interval, newest only when stale and merged-and-republished); every run without storage faults must delete each snapshot that is past its keep interval and superseded by one the cleaner has already listed in two earlier runs (also while the instance keeps uploading between every two runs: 'busy' phases); then two fault-free runs leave <= 1 file per instance; " +
			"non-trivial = >=2 instances with >=2 snapshots, >=3 runs, >=1 delete"},
		genC12, checkC12)
}

var _ = sort.Strings

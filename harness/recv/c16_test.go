package recv

import (
	"bytes"
	"compress/gzip"
	"context"
	"fmt"
	"io"
	"runtime"
	"sort"
	"strings"
	"sync"
	"sync/atomic"
	"testing"
	"time"

	"github.com/PowerDNS/lightningstream/config"
	"github.com/PowerDNS/lightningstream/snapshot"
	"github.com/PowerDNS/lightningstream/snapshot/gogosnapshot"
	"github.com/PowerDNS/lightningstream/syncer/events"
	"github.com/PowerDNS/lightningstream/syncer/hooks"
	"github.com/PowerDNS/lightningstream/syncer/receiver"
	"github.com/prometheus/client_golang/prometheus"
	"github.com/sirupsen/logrus"
	"pgregory.net/rapid"

	"verif/harness/internal/fault"
	"verif/harness/internal/model"
	"verif/harness/internal/vcore"
)

// ---------------------------------------------------------------------------
// C16 Every instance's newest snapshot is eventually delivered, within memory limits
// C08 (receiver part) corrupt blobs are ignored, everything else keeps flowing
// ---------------------------------------------------------------------------

type C16Op struct {
	Kind    string `json:"kind"` // publish | foreign | remove | faults | consume | release | wait
	Inst    int    `json:"inst,omitempty"`
	Corrupt bool   `json:"corrupt,omitempty"`
	// CorruptKind: 0 not a gzip stream | 1 valid gzip stream around bytes that are no protobuf message |
	// 2 a valid blob cut short | 3 valid gzip stream around a snapshot message whose last field is cut
	CorruptKind int    `json:"corrupt_kind,omitempty"`
	Idx         int    `json:"idx,omitempty"`
	List        int    `json:"list_fail,omitempty"`
	Load        int    `json:"load_fail,omitempty"`
	LoadKind    string `json:"load_kind,omitempty"` // fail | not-exist
	WaitUs      int    `json:"wait_us,omitempty"`
}

// C16Pause delays the goroutine that writes a log line (the Occ-th one containing Match, "" = any line) by
// Us microseconds: every log statement of the receiver, its downloaders and the token pools becomes a point
// at which the schedule can be stretched, without touching the product.
type C16Pause struct {
	Match string `json:"match"`
	Occ   int    `json:"occ"`
	Us    int    `json:"us"`
}

type pauseHook struct {
	mu     sync.Mutex
	pauses []C16Pause
	seen   []int
	fired  int
}

func (p *pauseHook) Levels() []logrus.Level { return logrus.AllLevels }

func (p *pauseHook) Fire(e *logrus.Entry) error {
	var d time.Duration
	p.mu.Lock()
	for i, ps := range p.pauses {
		if ps.Match == "" || strings.Contains(e.Message, ps.Match) {
			p.seen[i]++
			if p.seen[i] == ps.Occ {
				d += time.Duration(ps.Us) * time.Microsecond
				p.fired++
			}
		}
	}
	p.mu.Unlock()
	if d > 0 {
		time.Sleep(d)
	}
	return nil
}

// c16LogMessages: fragments of the log lines of syncer/receiver and utils/climit (a fragment that no
// longer occurs merely never fires).
var c16LogMessages = []string{"", "Run exited", "no longer has any snapshots", "Load error", "Releasing", "Closing overwritten",
	"Snapshot downloaded", "New snapshot detected", "marked as corrupt", "Waiting for", "Acquired", "Released"}

type C16Case struct {
	Pauses     []C16Pause `json:"pauses,omitempty"`
	NInst      int        `json:"n_inst"`
	LimitDown  int        `json:"limit_downloaded"`
	LimitDecom int        `json:"limit_decompressed"`
	OwnAtStart int        `json:"own_at_start"` // own snapshots present before start-up (0..2); the last may be corrupt
	OwnCorrupt bool       `json:"own_corrupt,omitempty"`
	Pre        []C16Op    `json:"pre"` // publishes before start-up
	Ops        []C16Op    `json:"ops"`
}

var dbSeq atomic.Int64

func gaugeValue(name, db, limit string) float64 {
	mfs, err := prometheus.DefaultGatherer.Gather()
	if err != nil {
		return -1
	}
	for _, mf := range mfs {
		if mf.GetName() != name {
			continue
		}
		for _, m := range mf.GetMetric() {
			var l1, l2 string
			for _, lp := range m.GetLabel() {
				if lp.GetName() == "lmdb" {
					l1 = lp.GetValue()
				}
				if lp.GetName() == "limit_name" {
					l2 = lp.GetValue()
				}
			}
			if l1 == db && l2 == limit {
				return m.GetGauge().GetValue()
			}
		}
	}
	return 0
}

func validBlob(inst string, id uint64) []byte {
	m := model.Snap{FormatVersion: 3, CompatVersion: 1, Meta: model.Meta{InstanceID: inst, DatabaseName: "x", TimestampNano: id},
		DBIs: []model.DBI{{Name: "d", Entries: []model.KV{{Key: []byte("k"), Val: model.ValOf([]byte(fmt.Sprint(id))), TS: id}}}}}
	pb, _ := m.ToGogo().Marshal()
	var buf bytes.Buffer
	w := gzip.NewWriter(&buf)
	_, _ = w.Write(pb)
	_ = w.Close()
	return buf.Bytes()
}

func receiverGoroutines() string {
	buf := make([]byte, 4<<20)
	n := runtime.Stack(buf, true)
	var out []string
	for _, g := range strings.Split(string(buf[:n]), "\n\n") {
		if strings.Contains(g, "lightningstream/syncer/receiver") || strings.Contains(g, "lightningstream/utils/climit") {
			lines := strings.Split(g, "\n")
			if len(lines) > 7 {
				lines = lines[:7]
			}
			out = append(out, strings.Join(lines, "\n"))
		}
	}
	return strings.Join(out, "\n--\n")
}

type bucketState struct {
	newestValid map[string]string // instance -> newest decodable name
}

// refDecodes reports whether the reference codec decodes the blob.
func refDecodes(blob []byte) bool {
	r, err := gzip.NewReader(bytes.NewReader(blob))
	if err != nil {
		return false
	}
	pb, err := io.ReadAll(r)
	if err != nil {
		return false
	}
	var g gogosnapshot.Snapshot
	return g.Unmarshal(pb) == nil
}

func gzOf(pb []byte) []byte {
	var buf bytes.Buffer
	w := gzip.NewWriter(&buf)
	_, _ = w.Write(pb)
	_ = w.Close()
	return buf.Bytes()
}

// corruptBlob builds a blob no decoder can accept (checked against the reference codec).
func corruptBlob(inst string, id uint64, kind int) []byte {
	switch kind % 4 {
	case 1:
		return gzOf(bytes.Repeat([]byte{0xff}, 24)) // unterminated varint at the top level
	case 2:
		v := validBlob(inst, id)
		return v[:len(v)-9] // cuts into the deflate stream / the trailer
	case 3:
		m := model.Snap{FormatVersion: 3, CompatVersion: 1, Meta: model.Meta{InstanceID: inst, DatabaseName: "x", TimestampNano: id},
			DBIs: []model.DBI{{Name: "d", Entries: []model.KV{{Key: []byte("k"), Val: model.ValOf([]byte("v")), TS: id}}}}}
		pb, _ := m.ToGogo().Marshal()
		return gzOf(pb[:len(pb)-3]) // the databases field announces more bytes than there are
	}
	return []byte("this is not a gzip stream")
}

// Names that must never be taken for snapshots of database db: other databases whose names share a
// prefix with it (with instance names that exist here and later timestamps), and junk.
func foreignName(db, inst string, idx int, ts time.Time) (name string, otherDB bool) {
	switch idx % 8 {
	case 0:
		return snapshot.Name(db+"x", inst, "GX", ts), true
	case 1:
		return snapshot.Name(db+"-2", inst, "GX", ts), true
	case 2:
		return snapshot.Name(db+"0", inst, "GX", ts), true
	case 3:
		return snapshot.Name(db[:len(db)-1], inst, "GX", ts), true
	case 4:
		return db + "__" + inst + "__not-a-timestamp__GX.pb.gz", false
	case 5:
		return db + "__" + inst, false
	case 6:
		return strings.TrimSuffix(snapshot.Name(db, inst, "GX", ts), ".pb.gz") + ".tmp", false
	}
	return db + "_" + inst + "__" + snapshot.NameTimestamp(ts) + "__GX.pb.gz", true
}

func checkC16(c C16Case, o *vcore.Obs) error {
	// a small pool of database names: the metric registry keeps every label set for ever
	db := fmt.Sprintf("rdb%d", dbSeq.Add(1)%8)
	base := map[string]float64{
		"download":   gaugeValue("lightningstream_climit_active", db, "download"),
		"decompress": gaugeValue("lightningstream_climit_active", db, "decompress"),
	}
	b := fault.NewBucket()
	h := b.Handle("own")
	conf := config.Config{StoragePollInterval: time.Millisecond, StorageRetryInterval: time.Millisecond,
		MemoryDownloadedSnapshots: c.LimitDown, MemoryDecompressedSnapshots: c.LimitDecom}
	insts := []string{"own"}
	// (instance names in a prefix relation included: p1 / p10 / p1-b)
	pool := []string{"p1", "p10", "p2", "p1-b", "p3", "p11", "p4"}
	for i := 1; i < c.NInst; i++ {
		insts = append(insts, pool[(i-1)%len(pool)])
	}
	clock := time.Date(2026, 2, 1, 0, 0, 0, 0, time.UTC)
	corrupt := map[string]bool{}
	idOf := map[string]uint64{}
	var nextID uint64 = 100
	// history of "newest decodable name per instance" after every bucket mutation
	var states []bucketState
	instMutSeq := map[string]int{} // bumped whenever a blob of that instance is published or removed
	snapshotState := func() {
		st := bucketState{newestValid: map[string]string{}}
		for _, n := range b.Names() {
			ni, err := snapshot.ParseName(n)
			if err != nil || corrupt[n] || ni.SyncerName != db {
				continue
			}
			if cur, ok := st.newestValid[ni.InstanceID]; !ok || n > cur {
				st.newestValid[ni.InstanceID] = n
			}
		}
		states = append(states, st)
	}
	nForeign := 0
	publishForeign := func(inst string, idx int) {
		// later than every snapshot this database will ever get: if it were taken for one of them it would win
		name, _ := foreignName(db, inst, idx, clock.Add(1000*time.Hour+time.Duration(nForeign)*time.Second))
		nForeign++
		b.Put(name, validBlob(inst, 7))
		snapshotState()
	}
	publish := func(inst string, isCorrupt bool, kind int) string {
		clock = clock.Add(time.Second)
		name := snapshot.Name(db, inst, "GX", clock)
		nextID++
		idOf[name] = nextID
		instMutSeq[inst]++
		if isCorrupt {
			corrupt[name] = true
			blob := corruptBlob(inst, nextID, kind)
			if refDecodes(blob) {
				panic("harness: corrupt blob decodes with the reference codec")
			}
			b.Put(name, blob)
			o.Class(fmt.Sprintf("corrupt-kind-%d", kind%4))
		} else {
			b.Put(name, validBlob(inst, nextID))
		}
		snapshotState()
		return name
	}
	snapshotState()
	for i := 0; i < c.OwnAtStart; i++ {
		publish("own", c.OwnCorrupt && i == c.OwnAtStart-1, i)
	}
	ownStartupCandidates := map[string]bool{}
	for _, n := range b.Names() {
		ownStartupCandidates[n] = true
	}
	for _, op := range c.Pre {
		if op.Kind == "publish" && op.Inst%len(insts) != 0 {
			publish(insts[op.Inst%len(insts)], op.Corrupt, op.CorruptKind)
		}
		if op.Kind == "foreign" {
			publishForeign(insts[op.Inst%len(insts)], op.Idx)
		}
	}

	ctx, cancel := context.WithCancel(context.Background())
	defer cancel()
	var lg logrus.FieldLogger = logrus.StandardLogger()
	ph := &pauseHook{pauses: c.Pauses, seen: make([]int, len(c.Pauses))}
	if len(c.Pauses) > 0 {
		l := logrus.New()
		l.SetOutput(io.Discard)
		l.SetLevel(logrus.TraceLevel)
		l.AddHook(ph)
		lg = l
	}
	r := receiver.New(h, conf, db, lg, "own", events.New(), hooks.New())
	if err := r.RunOnce(ctx, true); err != nil {
		return fmt.Errorf("initial RunOnce: %v", err)
	}
	go func() { _ = r.Run(ctx) }()

	type held struct {
		u    snapshot.Update
		name string
	}
	var holding []held
	lastDeliveredState := map[string]int{} // instance -> index into states at the time of its last delivery
	lastDelivered := map[string]string{}
	deliveredCount := map[string]int{}
	mutSeqAtDelivery := map[string]int{}
	deliveriesOf := map[string]int{}
	nDeliveries := 0

	// The gauge is decremented a few instructions after the token went back to the pool, so another
	// goroutine can be counted before the releaser is discounted: an overshoot only counts when it
	// persists over several samples.
	checkGauges := func(where string) error {
		for _, lim := range []struct {
			name string
			max  int
		}{{"download", c.LimitDown}, {"decompress", c.LimitDecom}} {
			over := 0
			var v float64
			for try := 0; try < 4; try++ {
				v = gaugeValue("lightningstream_climit_active", db, lim.name) - base[lim.name]
				if v <= float64(lim.max) {
					break
				}
				over++
				time.Sleep(300 * time.Microsecond)
			}
			if over == 4 {
				return fmt.Errorf("%s: %v %sed snapshots held in memory, limit %d", where, v, lim.name, lim.max)
			}
		}
		return nil
	}
	// The same bound at the storage interface, independent of the gauges: a blob handed out by Load is in
	// memory (compressed, then decoded) until its update is delivered and closed, or until a later download
	// of the same instance replaces it - which is then itself in memory. Hence every instance with a
	// successful download of a decodable blob AFTER the download behind its last delivery holds at least
	// one blob or snapshot, and so does every delivered update the consumer has not closed yet.
	loadBehindDelivery := map[string]int{} // instance -> log sequence of the download behind its last delivery
	maxHeld := 0
	checkHeld := func(where string) error {
		holders := map[string]bool{}
		for _, op := range b.Log() {
			if op.Kind != "load" || !op.Applied || corrupt[op.Name] {
				continue
			}
			ni, err := snapshot.ParseName(op.Name)
			if err != nil || ni.SyncerName != db {
				continue
			}
			if op.Seq > loadBehindDelivery[ni.InstanceID] {
				holders[ni.InstanceID] = true
			}
		}
		held := len(holders) + len(holding)
		if held > maxHeld {
			maxHeld = held
		}
		if held > c.LimitDown+c.LimitDecom {
			return fmt.Errorf("%s: %d snapshots are held in memory (downloaded and not yet delivered for %d instances + %d delivered and not yet closed), the limits allow %d downloaded + %d decompressed", where, held, len(holders), len(holding), c.LimitDown, c.LimitDecom)
		}
		return nil
	}
	consume := func(where string) (bool, error) {
		// (Next never blocks for long by contract: a watchdog turns a wedged receiver into a verdict)
		type nextRes struct {
			inst string
			u    snapshot.Update
		}
		nch := make(chan nextRes, 1)
		go func() {
			i, u := r.Next()
			nch <- nextRes{i, u}
		}()
		var inst string
		var u snapshot.Update
		select {
		case res := <-nch:
			inst, u = res.inst, res.u
		case <-time.After(15 * time.Second):
			return false, fmt.Errorf("%s: Receiver.Next() has not returned within 15 s: the receiver is wedged\nreceiver goroutines:\n%s", where, receiverGoroutines())
		}
		if inst == "" {
			return false, nil
		}
		nDeliveries++
		name := u.NameInfo.FullName
		if !strings.HasPrefix(name, db+"__") || u.NameInfo.SyncerName != db {
			return true, fmt.Errorf("%s: file %q, which is not a snapshot of database %q, was delivered as a snapshot of instance %q", where, name, db, inst)
		}
		if u.Snapshot == nil {
			return true, fmt.Errorf("%s: delivered update %s has no snapshot", where, name)
		}
		if corrupt[name] {
			return true, fmt.Errorf("%s: undecodable blob %s was delivered", where, name)
		}
		if u.NameInfo.InstanceID != inst || u.Snapshot.Meta.InstanceID != inst || u.Snapshot.Meta.TimestampNano != idOf[name] {
			return true, fmt.Errorf("%s: delivered update for %q does not carry the content of %s", where, inst, name)
		}
		if inst == "own" {
			if !ownStartupCandidates[name] {
				return true, fmt.Errorf("%s: own snapshot %s delivered although it was not present at start-up", where, name)
			}
			if deliveredCount["own"] > 0 {
				return true, fmt.Errorf("%s: own snapshot delivered a second time", where)
			}
		}
		// newest decodable of its instance at some point since the previous delivery of that instance
		// (the receiver's listings lag behind the bucket, but they are ordered in time: the listing behind
		// this delivery is not earlier than the one behind the previous delivery of the same instance,
		// which in turn is not earlier than the first state in which that previous name was the newest)
		ok := false
		matchIdx := 0
		for i := lastDeliveredState[inst]; i < len(states); i++ {
			if states[i].newestValid[inst] == name {
				ok = true
				matchIdx = i
				break
			}
		}
		if !ok {
			return true, fmt.Errorf("%s: delivered %s, which was never the newest decodable snapshot of %q since its previous delivery (%q)", where, name, inst, lastDelivered[inst])
		}
		// every hand-out needs its own download (a re-download is legitimate, e.g. when a newer blob
		// turned out to be undecodable and the previous one became the newest again)
		deliveriesOf[name]++
		loadsOf := 0
		for _, op := range b.Log() {
			if op.Kind == "load" && op.Applied && op.Name == name {
				loadsOf++
				loadBehindDelivery[inst] = op.Seq // (the latest one so far: an undercount of what is held at worst)
			}
		}
		if deliveriesOf[name] > loadsOf {
			return true, fmt.Errorf("%s: snapshot %s handed out %d times from %d download(s)", where, name, deliveriesOf[name], loadsOf)
		}
		o.ClassIf(deliveriesOf[name] > 1, "legitimate-redelivery-after-redownload")
		mutSeqAtDelivery[inst] = b.LogLen()
		if lastDelivered[inst] > name && inst != "own" {
			// going backwards is only legitimate when the newer ones have vanished or are corrupt: covered by the state check above
			o.Class("delivery-went-back-to-older")
		}
		lastDelivered[inst] = name
		lastDeliveredState[inst] = matchIdx
		deliveredCount[inst]++
		holding = append(holding, held{u, name})
		return true, nil
	}

	faultsUsed, superseded := false, false
	for oi, op := range c.Ops {
		step := fmt.Sprintf("step %d (%s)", oi, op.Kind)
		switch op.Kind {
		case "publish":
			inst := insts[op.Inst%len(insts)]
			if inst == "own" {
				continue
			}
			prev := states[len(states)-1].newestValid[inst]
			publish(inst, op.Corrupt, op.CorruptKind)
			if prev != "" && lastDelivered[inst] != prev {
				superseded = true
			}
		case "foreign":
			publishForeign(insts[op.Inst%len(insts)], op.Idx)
		case "remove":
			names := b.Names()
			if len(names) > 0 {
				rn := names[op.Idx%len(names)]
				if ni, err := snapshot.ParseName(rn); err == nil {
					instMutSeq[ni.InstanceID]++
				}
				b.Remove(rn)
				snapshotState()
			}
		case "faults":
			var lf, ldf []string
			for i := 0; i < op.List; i++ {
				lf = append(lf, fault.Fail)
			}
			for i := 0; i < op.Load; i++ {
				k := fault.Fail
				if op.LoadKind == "not-exist" {
					k = fault.NotExist
				}
				ldf = append(ldf, k)
			}
			h.SetPlan("list", lf)
			h.SetPlan("load", ldf)
			faultsUsed = faultsUsed || op.List+op.Load > 0
		case "consume":
			if _, err := consume(step); err != nil {
				return err
			}
		case "release":
			if len(holding) > 0 {
				holding[0].u.Close()
				holding = holding[1:]
			}
		case "wait":
			time.Sleep(time.Duration(op.WaitUs) * time.Microsecond)
		}
		if err := checkGauges(step); err != nil {
			return err
		}
		if err := checkHeld(step); err != nil {
			return err
		}
	}

	// ---- end phase: no faults, frozen bucket, consumer draining
	h.ClearPlans()
	final := states[len(states)-1]
	need := map[string]string{}
	for inst, name := range final.newestValid {
		if inst != "own" {
			need[inst] = name
		}
	}
	// the instance's own snapshots are only listed at start-up; if a decodable one is (still) in the bucket,
	// one of them must have been handed over (the restart-with-lost-LMDB case: nothing may be uploaded before)
	ownNeeded := final.newestValid["own"] != ""
	var beats atomic.Int64
	hbStop := make(chan struct{})
	go func() {
		for {
			select {
			case <-hbStop:
				return
			default:
				time.Sleep(time.Millisecond)
				beats.Add(1)
			}
		}
	}()
	defer close(hbStop)
	deadline := time.Now().Add(10 * time.Second)
	t0 := time.Now()
	for {
		for len(holding) > 0 {
			holding[0].u.Close()
			holding = holding[1:]
		}
		got, err := consume("end phase")
		if err != nil {
			return err
		}
		if err := checkGauges("end phase"); err != nil {
			return err
		}
		if err := checkHeld("end phase"); err != nil {
			return err
		}
		done := true
		for inst, name := range need {
			if lastDelivered[inst] != name {
				done = false
			}
		}
		if ownNeeded && deliveredCount["own"] == 0 {
			done = false
		}
		if done {
			break
		}
		if time.Now().After(deadline) {
			elapsed := time.Since(t0)
			if float64(beats.Load()) < 0.2*float64(elapsed/time.Millisecond)/1.2 {
				o.Class("inconclusive-starved")
				return nil // the process itself was starved of CPU: not a verdict
			}
			var missing []string
			for inst, name := range need {
				if lastDelivered[inst] != name {
					missing = append(missing, fmt.Sprintf("%s (last delivered %q)", name, lastDelivered[inst]))
				}
			}
			if ownNeeded && deliveredCount["own"] == 0 {
				missing = append(missing, fmt.Sprintf("%s (no snapshot of the receiver's own instance was delivered at all)", final.newestValid["own"]))
			}
			sort.Strings(missing)
			return fmt.Errorf("newest decodable snapshots not delivered within %v of fault-free polling at 1 ms intervals with a draining consumer: %v\nreceiver goroutines:\n%s", elapsed.Round(time.Millisecond), missing, receiverGoroutines())
		}
		if !got {
			time.Sleep(200 * time.Microsecond)
		}
	}
	for len(holding) > 0 {
		holding[0].u.Close()
		holding = holding[1:]
	}
	// nothing further must arrive for the frozen bucket, and all tokens come back
	settle := time.Now().Add(3 * time.Second)
	for {
		time.Sleep(2 * time.Millisecond)
		if got, err := consume("after drain"); err != nil {
			return err
		} else if got {
			holding[0].u.Close()
			holding = holding[1:]
			continue
		}
		a1 := gaugeValue("lightningstream_climit_active", db, "download") - base["download"]
		a2 := gaugeValue("lightningstream_climit_active", db, "decompress") - base["decompress"]
		if a1 == 0 && a2 == 0 {
			break
		}
		if time.Now().After(settle) {
			return fmt.Errorf("tokens leaked: after everything was delivered and closed, active downloaded=%v decompressed=%v\nreceiver goroutines:\n%s", a1, a2, receiverGoroutines())
		}
	}
	// C08 receiver part: a blob that cannot be decoded is loaded successfully at most once
	loads := map[string]int{}
	for _, op := range b.Log() {
		if op.Kind == "load" && op.Applied && corrupt[op.Name] {
			loads[op.Name]++
		}
	}
	for n, k := range loads {
		if k > 1 {
			return fmt.Errorf("undecodable blob %s was downloaded %d times (must be ignored after the first attempt)", n, k)
		}
	}
	nCorrupt := len(corrupt)
	mixed := false
	perInst := map[string][2]int{}
	for n := range idOf {
		ni, _ := snapshot.ParseName(n)
		v := perInst[ni.InstanceID]
		if corrupt[n] {
			v[0]++
		} else {
			v[1]++
		}
		perInst[ni.InstanceID] = v
	}
	for _, v := range perInst {
		if v[0] > 0 && v[1] > 0 {
			mixed = true
		}
	}
	o.NonTrivial((c.NInst >= 4 && c.LimitDown == 1 && c.LimitDecom == 1) || (faultsUsed && superseded) || mixed)
	ph.mu.Lock()
	o.ClassIf(ph.fired > 0, "goroutine-paused-at-a-log-line")
	ph.mu.Unlock()
	o.ClassIf(maxHeld == c.LimitDown+c.LimitDecom, "memory-limits-reached")
	o.ClassIf(ownNeeded && c.OwnCorrupt && c.OwnAtStart == 2, "own-newest-corrupt-older-decodable")
	o.ClassIf(nCorrupt > 0, "corrupt-blobs-present")
	o.ClassIf(mixed, "instance-with-corrupt-and-valid")
	o.ClassIf(faultsUsed, "list-or-load-faults")
	o.ClassIf(superseded, "superseded-before-consumed")
	o.ClassIf(c.LimitDown == 1 && c.LimitDecom == 1, "limits-1-1")
	o.Class(fmt.Sprintf("deliveries-%d", min(nDeliveries, 10)))
	return nil
}

func genC16(t *rapid.T) C16Case {
	var c C16Case
	c.NInst = rapid.IntRange(2, 6).Draw(t, "ninst")
	c.LimitDown = rapid.IntRange(1, 3).Draw(t, "ldown")
	c.LimitDecom = rapid.IntRange(1, 3).Draw(t, "ldecom")
	c.OwnAtStart = rapid.IntRange(0, 2).Draw(t, "own")
	c.OwnCorrupt = rapid.IntRange(0, 4).Draw(t, "owncorrupt") == 0
	np := rapid.IntRange(0, 6).Draw(t, "npre")
	for i := 0; i < np; i++ {
		c.Pre = append(c.Pre, C16Op{Kind: "publish", Inst: rapid.IntRange(1, c.NInst-1).Draw(t, "pinst"), Corrupt: rapid.IntRange(0, 4).Draw(t, "pcorrupt") == 0, CorruptKind: rapid.IntRange(0, 3).Draw(t, "pckind")})
	}
	for i := rapid.IntRange(0, 2).Draw(t, "nforeign"); i > 0; i-- {
		c.Pre = append(c.Pre, C16Op{Kind: "foreign", Inst: rapid.IntRange(0, c.NInst-1).Draw(t, "finst"), Idx: rapid.IntRange(0, 7).Draw(t, "fidx")})
	}
	for i := rapid.SampledFrom([]int{0, 0, 1, 2, 3}).Draw(t, "npauses"); i > 0; i-- {
		c.Pauses = append(c.Pauses, C16Pause{Match: rapid.SampledFrom(c16LogMessages).Draw(t, "pmatch"),
			Occ: rapid.IntRange(1, 5).Draw(t, "pocc"), Us: rapid.SampledFrom([]int{300, 2000, 6000}).Draw(t, "pus")})
	}
	n := rapid.IntRange(3, 30).Draw(t, "nops")
	for i := 0; i < n; i++ {
		op := C16Op{Kind: rapid.SampledFrom([]string{"publish", "publish", "publish", "foreign", "remove", "faults", "consume", "consume", "release", "wait", "wait"}).Draw(t, "kind")}
		switch op.Kind {
		case "publish":
			op.Inst = rapid.IntRange(1, c.NInst-1).Draw(t, "inst")
			op.Corrupt = rapid.IntRange(0, 4).Draw(t, "corrupt") == 0
			op.CorruptKind = rapid.IntRange(0, 3).Draw(t, "ckind")
		case "foreign":
			op.Inst = rapid.IntRange(0, c.NInst-1).Draw(t, "finst")
			op.Idx = rapid.IntRange(0, 7).Draw(t, "fidx")
		case "remove":
			op.Idx = rapid.IntRange(0, 30).Draw(t, "idx")
		case "faults":
			op.List = rapid.IntRange(0, 3).Draw(t, "lf")
			op.Load = rapid.IntRange(0, 3).Draw(t, "ldf")
			op.LoadKind = rapid.SampledFrom([]string{"fail", "not-exist"}).Draw(t, "lk")
		case "wait":
			op.WaitUs = rapid.SampledFrom([]int{0, 200, 1500, 4000}).Draw(t, "us")
		}
		c.Ops = append(c.Ops, op)
	}
	return c
}

func TestC16Receiver(t *testing.T) {
	vcore.Run(t, vcore.Config{Property: "C16", Inflight: true,
		Rule: "rapid state machine over a bucket and one real receiver.Receiver (Run in the background, 1 ms poll/retry): 2-6 instances incl. the receiver's own, memory limits 1-3, publishes of valid / undecodable blobs (not gzip, gzip around non-protobuf bytes, cut short, gzip around a truncated message), files of other databases whose names share a prefix with this one and unparsable names (never delivered), removals (vanish between listing and download), List/Load fault plans (fail / not-exist, <=3), consume (updates held and released later), waits, and in half of the cases 1-3 pauses (0.3-6 ms) of whichever goroutine writes the k-th log line containing a given fragment (schedule stretching at every log statement of the receiver, downloaders and token pools); at every step the active-token gauges stay within the limits, the number of snapshots held by storage-level accounting (downloads not yet delivered + deliveries not yet closed) stays within downloaded+decompressed limits, and every delivered update is a decodable newest snapshot of its instance at some point since its previous delivery, own snapshots only from the start-up listing; end phase (faults off, bucket frozen, draining consumer): every other instance's newest decodable snapshot arrives within a bounded time, then all tokens return to 0; undecodable blobs are downloaded at most once; " +
			"non-trivial = >=3 other instances with limits 1/1, or faults + a snapshot superseded before being consumed, or an instance with both corrupt and valid blobs"},
		genC16, checkC16)
}

// ---- enumeration: fixed bucket evolutions x every log line as a pause point ----

type enumC16Pause struct {
	Scenario string `json:"scenario"` // vanish-reappear | corrupt-then-valid | supersede | limits
	Match    string `json:"match"`
	Occ      int    `json:"occ"`
	LoadKind string `json:"load_kind"`
	GapUs    int    `json:"gap_us"`
}

func (e enumC16Pause) toCase() C16Case {
	c := C16Case{NInst: 2, LimitDown: 2, LimitDecom: 2, Pauses: []C16Pause{{Match: e.Match, Occ: e.Occ, Us: 6000}}}
	gap := C16Op{Kind: "wait", WaitUs: e.GapUs}
	switch e.Scenario {
	case "vanish-reappear":
		// the only snapshot of an instance cannot be loaded and is then cleaned away; later the instance is back
		c.Ops = []C16Op{{Kind: "faults", Load: 3, LoadKind: e.LoadKind}, {Kind: "publish", Inst: 1}, {Kind: "wait", WaitUs: 1500},
			{Kind: "remove", Idx: 0}, gap, {Kind: "publish", Inst: 1}, {Kind: "wait", WaitUs: 1500}}
	case "corrupt-then-valid":
		c.Ops = []C16Op{{Kind: "publish", Inst: 1}, {Kind: "wait", WaitUs: 1500}, {Kind: "faults", Load: 1, LoadKind: e.LoadKind},
			{Kind: "publish", Inst: 1, Corrupt: true, CorruptKind: 1}, gap, {Kind: "publish", Inst: 1}, {Kind: "consume"}, {Kind: "wait", WaitUs: 1500}}
	case "supersede":
		// a downloaded snapshot is replaced before the consumer looks, while an earlier one is still held
		c.Ops = []C16Op{{Kind: "publish", Inst: 1}, {Kind: "wait", WaitUs: 1500}, {Kind: "consume"}, {Kind: "faults", Load: 1, LoadKind: e.LoadKind},
			{Kind: "publish", Inst: 1}, gap, {Kind: "publish", Inst: 1}, gap, {Kind: "release"}, {Kind: "publish", Inst: 1}, {Kind: "wait", WaitUs: 1500}, {Kind: "consume"}}
	case "limits":
		c.NInst, c.LimitDown, c.LimitDecom = 4, 1, 1
		c.Ops = []C16Op{{Kind: "publish", Inst: 1}, {Kind: "publish", Inst: 2}, {Kind: "publish", Inst: 3}, gap, {Kind: "consume"},
			{Kind: "faults", Load: 2, LoadKind: e.LoadKind}, {Kind: "publish", Inst: 2}, {Kind: "publish", Inst: 1, Corrupt: true, CorruptKind: 2}, gap,
			{Kind: "consume"}, {Kind: "release"}, {Kind: "wait", WaitUs: 1500}, {Kind: "consume"}}
	}
	return c
}

func TestC16Pauses(t *testing.T) {
	vcore.RunEnum(t, vcore.Config{Property: "C16", Inflight: true,
		Rule: "enumeration: four fixed bucket evolutions (an instance's only snapshot fails to load, is cleaned away and the instance re-appears; a corrupt newest blob followed by a valid one; a snapshot superseded twice while an earlier one is still held by the consumer; three peers with limits 1/1, a failing download and a corrupt blob) x EVERY log statement of the receiver, its downloaders and the token pools as the place where the writing goroutine is held up for 6 ms (1st or 2nd occurrence) x Load failing / not-exist x the gap before the next bucket change {0, 0.3, 1, 2.5, 5 ms}; oracles of TestC16Receiver (limits at every step, only newest decodable snapshots delivered, everything needed delivered in the end, tokens back to 0); non-trivial = every case"},
		func(yield func(enumC16Pause) bool) {
			for _, sc := range []string{"vanish-reappear", "corrupt-then-valid", "supersede", "limits"} {
				for _, m := range c16LogMessages[1:] {
					for _, occ := range []int{1, 2} {
						for _, lk := range []string{"fail", "not-exist"} {
							for _, gap := range []int{0, 300, 1000, 2500, 5000} {
								if !yield(enumC16Pause{Scenario: sc, Match: m, Occ: occ, LoadKind: lk, GapUs: gap}) {
									return
								}
							}
						}
					}
				}
			}
		},
		func(e enumC16Pause, o *vcore.Obs) error {
			err := checkC16(e.toCase(), o)
			o.NonTrivial(true)
			o.Class("scenario-" + e.Scenario)
			return err
		})
}

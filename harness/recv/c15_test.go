package recv

import (
	"context"
	"fmt"
	"sort"
	"strings"
	"testing"
	"time"

	"github.com/PowerDNS/lightningstream/config"
	"github.com/PowerDNS/lightningstream/snapshot"
	"github.com/PowerDNS/lightningstream/syncer/cleaner"
	"github.com/PowerDNS/lightningstream/syncer/events"
	"github.com/PowerDNS/lightningstream/syncer/hooks"
	"github.com/PowerDNS/lightningstream/syncer/receiver"
	"github.com/sirupsen/logrus"
	"pgregory.net/rapid"

	"verif/harness/internal/fault"
	"verif/harness/internal/vcore"
)

// ---------------------------------------------------------------------------
// C15 (listing part): in a bucket shared by several databases, the receiver and
// the cleaner of one database take exactly the well-formed snapshot names of
// that database for its snapshots - never the names of a database whose name
// merely starts with (or is a prefix of) this one, never files that are not
// snapshots.
// ---------------------------------------------------------------------------

type C15File struct {
	DB   int `json:"db"`   // 0 = this database, 1.. = other databases (see C15Listing.Others), -1 = junk
	Inst int `json:"inst"` // instance index
	Hour int `json:"hour"` // age rank (larger = newer)
	Junk int `json:"junk,omitempty"`
	// Ns: offset below one second (snapshots of one instance taken within the same second differ only in
	// the nanosecond field of their names)
	Ns int `json:"ns,omitempty"`
}

type C15Listing struct {
	DB     string    `json:"db"`
	Others []string  `json:"others"`
	Files  []C15File `json:"files"`
	// Step2: while the receiver runs, one file that is not the newest of its instance disappears (a cleaner at work) and
	// the instance Step2Inst publishes a newer snapshot - between two polls, so that the listing keeps its length and,
	// where that instance does not sort last, its last name
	Step2     bool `json:"step2,omitempty"`
	Step2Inst int  `json:"step2_inst,omitempty"`
}

// (instance names in a prefix relation included: "host-1" / "host-10", "a" / "a-b")
var c15Insts = []string{"a", "b", "host-1", "host-10", "a-b"}

// A second kind of file, registered the way a product embedding the snapshot package does: names with this
// extension are well-formed, belong to this database - and are NOT snapshots: the receiver must never deliver one,
// the cleaner must neither delete one nor count it as the newest snapshot of its instance.
func init() { snapshot.RegisterExtension("delta.pb.gz", "delta") }

func c15Name(c C15Listing, f C15File, base time.Time) string {
	inst := c15Insts[f.Inst%len(c15Insts)]
	ts := base.Add(time.Duration(f.Hour)*time.Hour + time.Duration(f.Ns))
	if f.DB < 0 {
		switch f.Junk % 9 {
		case 6:
			// a backup copy of a snapshot / a file of another kind / an instance that only has such files
			return c.DB + "__" + inst + "__" + snapshot.NameTimestamp(ts) + "__GX.bak.pb.gz"
		case 7:
			return c.DB + "__" + inst + "__" + snapshot.NameTimestamp(ts) + "__GX.delta.pb.gz"
		case 8:
			return c.DB + "__ghost__" + snapshot.NameTimestamp(ts) + "__GX.old.pb.gz"
		case 0:
			return c.DB + "__" + inst
		case 1:
			return c.DB + "__" + inst + "__" + snapshot.NameTimestamp(ts) + ".pb.gz"
		case 2:
			return c.DB + "__" + inst + "__" + snapshot.NameTimestamp(ts) + "__GX.pb"
		case 3:
			return c.DB + "__" + inst + "__2026-01-01__GX.pb.gz"
		case 4:
			return c.DB + "_" + inst + "__" + snapshot.NameTimestamp(ts) + "__GX.pb.gz"
		}
		return c.DB + "__.tmp"
	}
	db := c.DB
	if f.DB > 0 {
		db = c.Others[(f.DB-1)%len(c.Others)]
	}
	return snapshot.Name(db, inst, "GX", ts)
}

func checkC15Listing(c C15Listing, o *vcore.Obs) error {
	base := time.Date(2026, 1, 1, 0, 0, 0, 0, time.UTC)
	b := fault.NewBucket()
	all := map[string]C15File{}
	newestOwn := map[string]string{} // instance -> newest name of this database
	for _, f := range c.Files {
		n := c15Name(c, f, base)
		if _, dup := all[n]; dup {
			continue
		}
		all[n] = f
		b.Put(n, validBlob(c15Insts[f.Inst%len(c15Insts)], uint64(100+f.Hour)))
		if f.DB == 0 {
			inst := c15Insts[f.Inst%len(c15Insts)]
			if n > newestOwn[inst] {
				newestOwn[inst] = n
			}
		}
	}
	sharesPrefix := false
	for _, od := range c.Others {
		if strings.HasPrefix(od, c.DB) || strings.HasPrefix(c.DB, od) {
			sharesPrefix = true
		}
	}

	// ---- receiver of database c.DB (instance "self" has no snapshots of its own)
	ctx, cancel := context.WithCancel(context.Background())
	defer cancel()
	conf := config.Config{StoragePollInterval: time.Millisecond, StorageRetryInterval: time.Millisecond,
		MemoryDownloadedSnapshots: 3, MemoryDecompressedSnapshots: 3}
	r := receiver.New(b.Handle("self"), conf, c.DB, logrus.StandardLogger(), "self", events.New(), hooks.New())
	if err := r.RunOnce(ctx, true); err != nil {
		return fmt.Errorf("receiver RunOnce: %v", err)
	}
	if has := r.HasSnapshots(); has != (len(newestOwn) > 0) {
		return fmt.Errorf("receiver of database %q says HasSnapshots() = %v after its first listing; the bucket holds snapshots of this database for %d instance(s) (names: %v)", c.DB, has, len(newestOwn), b.Names())
	}
	go func() { _ = r.Run(ctx) }()
	got := map[string]string{}
	deadline := time.Now().Add(10 * time.Second)
	quietSince := time.Now()
	for time.Now().Before(deadline) {
		inst, u := r.Next()
		if inst == "" {
			if len(got) >= len(newestOwn) && time.Since(quietSince) > 20*time.Millisecond {
				break
			}
			time.Sleep(200 * time.Microsecond)
			continue
		}
		quietSince = time.Now()
		name := u.NameInfo.FullName
		f, known := all[name]
		u.Close()
		if !known || f.DB != 0 {
			return fmt.Errorf("receiver of database %q delivered %q as a snapshot of instance %q: it is not a snapshot of this database", c.DB, name, inst)
		}
		got[inst] = name
	}
	if c.Step2 && len(newestOwn) > 0 {
		// the instance that publishes, and a file to remove
		var insts []string
		for inst := range newestOwn {
			insts = append(insts, inst)
		}
		sort.Strings(insts)
		x := insts[c.Step2Inst%len(insts)]
		names := b.Names()
		sort.Strings(names)
		remove := ""
		for _, n := range names {
			isNewest := false
			for _, nn := range newestOwn {
				isNewest = isNewest || nn == n
			}
			if !isNewest && n != names[len(names)-1] {
				remove = n
				break
			}
		}
		ni, _ := snapshot.ParseName(newestOwn[x])
		newName := snapshot.Name(c.DB, x, "GX", ni.Timestamp.Add(90*time.Minute))
		if remove != "" && newName < names[len(names)-1] {
			b.Remove(remove)
			b.Put(newName, validBlob(x, 999))
			delete(all, remove)
			all[newName] = C15File{Inst: 0, DB: 0}
			newestOwn[x] = newName
			o.Class("listing-changed-in-the-middle-with-length-and-last-name-unchanged")
			deadline := time.Now().Add(5 * time.Second)
			for time.Now().Before(deadline) && got[x] != newName {
				inst, u := r.Next()
				if inst == "" {
					time.Sleep(200 * time.Microsecond)
					continue
				}
				name := u.NameInfo.FullName
				f, known := all[name]
				u.Close()
				if !known || f.DB != 0 {
					return fmt.Errorf("receiver of database %q delivered %q as a snapshot of instance %q: it is not a snapshot of this database", c.DB, name, inst)
				}
				got[inst] = name
			}
		}
	}
	cancel()
	for inst, want := range newestOwn {
		if got[inst] != want {
			return fmt.Errorf("receiver of database %q: newest snapshot of instance %q is %q, delivered last: %q (bucket: %v)", c.DB, inst, want, got[inst], b.Names())
		}
	}
	for inst := range got {
		if _, ok := newestOwn[inst]; !ok {
			return fmt.Errorf("receiver of database %q delivered a snapshot of instance %q, which has none in this database", c.DB, inst)
		}
	}

	// ---- cleaner of database c.DB: superseded snapshots of THIS database go, nothing else
	w := cleaner.New(c.DB, b.Handle("self"), config.Cleanup{Enabled: true, Interval: time.Minute, MustKeepInterval: time.Second, RemoveOldInstancesInterval: 100 * 365 * 24 * time.Hour}, logrus.StandardLogger())
	now := base.Add(1000 * time.Hour)
	for i := 0; i < 3; i++ {
		if err := w.RunOnce(context.Background(), now.Add(time.Duration(i)*time.Hour)); err != nil {
			return fmt.Errorf("cleaner RunOnce: %v", err)
		}
	}
	want := map[string]bool{}
	for n, f := range all {
		if f.DB != 0 {
			want[n] = true
		}
	}
	for _, n := range newestOwn {
		want[n] = true
	}
	left := b.Names()
	sort.Strings(left)
	for _, n := range left {
		if !want[n] {
			return fmt.Errorf("cleaner of database %q left superseded snapshot %q in place after three runs an hour apart", c.DB, n)
		}
		delete(want, n)
	}
	for n := range want {
		f := all[n]
		what := "the newest snapshot of its instance in this database"
		if f.DB > 0 {
			what = "a snapshot of another database"
		} else if f.DB < 0 {
			what = "not a snapshot"
		}
		return fmt.Errorf("cleaner of database %q deleted %q, which is %s", c.DB, n, what)
	}
	o.NonTrivial(sharesPrefix && len(newestOwn) > 0)
	sameSec := map[string]int{}
	for n, f := range all {
		if f.DB == 0 {
			sameSec[fmt.Sprintf("%d/%d", f.Inst%len(c15Insts), f.Hour)]++
			_ = n
		}
	}
	for _, k := range sameSec {
		if k > 1 {
			o.Class("snapshots-of-one-instance-within-the-same-second")
			break
		}
	}
	o.ClassIf(sharesPrefix, "other-db-shares-prefix")
	o.ClassIf(len(all) > len(newestOwn), "files-besides-newest")
	return nil
}

func genC15Listing(t *rapid.T) C15Listing {
	var c C15Listing
	// a small pool of names: the metric registries keep every label set for ever
	c.DB = rapid.SampledFrom([]string{"db", "main", "shard1", "a", "x-1"}).Draw(t, "db")
	no := rapid.IntRange(1, 2).Draw(t, "nothers")
	for i := 0; i < no; i++ {
		var od string
		switch rapid.IntRange(0, 4).Draw(t, "okind") {
		case 0:
			od = c.DB + rapid.SampledFrom([]string{"0", "x", "-2", "-", "db"}).Draw(t, "osfx")
		case 1:
			if len(c.DB) > 1 {
				od = c.DB[:len(c.DB)-1]
			} else {
				od = c.DB + "a"
			}
		case 2:
			od = c.DB + "-" + c.DB
		default:
			od = rapid.SampledFrom([]string{"other", "zz", "b"}).Draw(t, "oname")
		}
		c.Others = append(c.Others, od)
	}
	c.Step2 = rapid.Bool().Draw(t, "step2")
	c.Step2Inst = rapid.IntRange(0, 4).Draw(t, "step2_inst")
	n := rapid.IntRange(1, 12).Draw(t, "nfiles")
	for i := 0; i < n; i++ {
		f := C15File{Inst: rapid.IntRange(0, 4).Draw(t, "inst"), Hour: rapid.IntRange(0, 40).Draw(t, "hour")}
		if rapid.IntRange(0, 2).Draw(t, "subsec") == 0 {
			// a few fixed hours and offsets, so that several snapshots of an instance fall into one second
			f.Hour = rapid.SampledFrom([]int{40, 40, 7}).Draw(t, "same_hour")
			f.Ns = rapid.SampledFrom([]int{0, 1, 2, 10, 500_000_000, 999_999_999}).Draw(t, "ns")
		}
		switch rapid.IntRange(0, 5).Draw(t, "fkind") {
		case 0, 1, 2:
			f.DB = 0
		case 3, 4:
			f.DB = rapid.IntRange(1, len(c.Others)).Draw(t, "fdb")
		default:
			f.DB = -1
			f.Junk = rapid.IntRange(0, 8).Draw(t, "junk")
		}
		c.Files = append(c.Files, f)
	}
	return c
}

func TestC15Listing(t *testing.T) {
	vcore.Run(t, vcore.Config{Property: "C15",
		Rule: "rapid: one bucket with snapshots of this database (1-3 instances, several ages, a third of the files within the same second as another one, differing only in the nanosecond field), of 1-2 other databases whose names extend / are a prefix of / are unrelated to this one (same instance names, older and newer timestamps) and junk names starting with this database's name (incl. backups `.bak.pb.gz` and files of another registered kind `.delta.pb.gz`, possibly newer than every snapshot of their instance); the real receiver must deliver exactly the newest snapshot of each instance of THIS database and the real cleaner (three runs) must delete exactly the superseded snapshots of this database; " +
			"non-trivial = another database's name shares a prefix with this one and this database has snapshots"},
		genC15Listing, checkC15Listing)
}

#!/bin/sh
# Offline setup: compile every harness package once so later checks hit the build cache.
set -e
cd "$(dirname "$0")/harness"
export GOFLAGS=-mod=mod GOPROXY=off
unset GOSUMDB || true
GO=go
if ! go version 2>/dev/null | grep -q go1.25; then
  if [ -x /root/go/pkg/mod/golang.org/toolchain@v0.0.1-go1.25.11.linux-amd64/bin/go ]; then
    GO=/root/go/pkg/mod/golang.org/toolchain@v0.0.1-go1.25.11.linux-amd64/bin/go
    export GOTOOLCHAIN=local
  fi
fi
# append any go.sum lines /repo has that we do not
if [ -f /repo/go.sum ]; then cat /repo/go.sum go.sum | sort -u > go.sum.new && mv go.sum.new go.sum; fi
for p in $($GO list ./... 2>/dev/null); do
  $GO test -c -tags verif -vet=off -o /dev/null "$p" || exit 1
done
# the concurrency package is also built with the race detector
$GO test -c -race -tags verif -vet=off -o /dev/null ./conc || exit 1
echo setup ok

#!/usr/bin/env python3
import json, sys, glob, os
sys.path.insert(0, "/opt/veriftools/pyvenv/lib/python3.11/site-packages")
try:
    import jsonschema
except ImportError:
    for p in glob.glob("/opt/veriftools/pyvenv/lib/python*/site-packages"):
        sys.path.insert(0, p)
    import jsonschema
R = os.path.dirname(os.path.dirname(os.path.abspath(__file__)))
jsonschema.validate(json.load(open(R + "/MANIFEST.json")), json.load(open("/root/.vp/MANIFEST.schema.json")))
es = json.load(open("/root/.vp/EVIDENCE.schema.json"))
for f in sorted(glob.glob(R + "/evidence/*.json")):
    jsonschema.validate(json.load(open(f)), es)
    print("ok", f)
print("manifest ok")

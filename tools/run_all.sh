#!/bin/sh
# Runs every claimed check's quick tier on the current tree (sequentially) and validates the evidence.
cd "$(dirname "$0")/.."
rc=0
for p in $(python3 -c "
import sys; sys.path.insert(0,'tools')
from props import PROPS
print(' '.join(sorted(PROPS)))"); do
  ./check $p --tier ${1:-quick} | tail -3 || rc=1
done
python3-vt tools/validate.py | tail -1
exit $rc

"""Per-property configuration of the driver: which test functions decide the
property, in which harness package, with how many generated cases per tier."""


def T(name, pkg, quick, thorough, **kw):
    d = {"name": name, "pkg": pkg, "quick": quick, "thorough": thorough}
    d.update(kw)
    return d


PROPS = {
    "C01": {
        "level": "exploration",
        "tests": [T("TestC01Converge", "fleet", 1200, 128000, shards=16, qshards=4),
                  T("TestC01OrderIndependent", "fleet", 600, 64000, shards=16, qshards=4),
                  T("TestC01Dup", "kv", 400, 48000, shards=16, qshards=4),
                  T("TestC01Contended", "kv", 300, 32000, shards=16, qshards=4)],
        "assumptions": [
            "tomb sweeper disabled (as the property states)",
            "native mode: an application overwrite is stamped strictly later than the version it overwrites (shared monotone clock); equal timestamps arise between instances that have not seen each other's versions",
            "shadow mode: detection stamps come from one shared logical clock through the guarded capture wrapper and are strictly later than every version the capturing instance already stores",
            "live empty values in shadow mode are excluded (known finding shadow-empty-value) and counted",
            "the oracle is the set model: a stored version must be one of the highest-timestamp versions seen; the tie-break itself is only required to be the same everywhere (identical content after quiescence) and, in the metamorphic test, the same under two different exchange orders of the same writes",
        ],
    },
    "C03": {
        "level": "fault_enumeration",
        "tests": [
            T("TestC03Enum", "fleet", 1, 1, enum=True, qshards=4, shards=8, procs=4),
            T("TestC03Loop", "fleet", 600, 64000, shards=16, qshards=4, procs=4),
            T("TestC03Writer", "kv", 400, 32000, shards=16, qshards=4, procs=4),
            # the sweeper's own non-empty write transaction lands between an application commit and the loop's next look
            T("TestC03SweepCommit", "fleet", 1, 1, enum=True, qshards=4, shards=8, procs=4),
        ],
        "known_tests": [T("TestKnownC03", "fleet", 1, 1)],
        "assumptions": [
            "application transactions commit at the yield points of the sync loop (14 points, incl. between the end of each LS transaction and the following env.Info()), while the loop waits for the write lock (held transactions), or right behind an LS transaction for whose lock they queued (started at a log statement of the running loop); windows that contain neither a yield point, a lock acquisition nor a log statement are only hit by chance",
            "native mode: remote timestamps never equal local ones (ties are C01/C02); an application overwrite is stamped later than what it overwrites",
            "shadow mode: the oracle is the reference mirror model (C11) driven by the commits and by the LS transactions that completed; remote stamps lie in the past of the shared clock; live empty values excluded (known finding)",
            "commits matching the listed known finding (transaction-id reuse after an LS write transaction that turned out empty) are deferred to the next yield point and counted",
        ],
    },
    "C09": {
        "level": "fault_enumeration",
        "tests": [
            T("TestC03Enum", "fleet", 1, 1, enum=True, qshards=4, shards=8, procs=4),
            T("TestC03Loop", "fleet", 600, 64000, shards=16, qshards=4, procs=4),
            # crash / restart histories of the C05 fleet (emptied restarts, slow own snapshot, peers merged first) with the
            # clause: a loop that reports the LMDB's last transaction as uploaded has published every key its application put
            T("TestC05Enum", "fleet", 1, 1, enum=True, qshards=8, shards=8, procs=4),
            # a commit made while an older snapshot of a peer is handed over again (its newer blob undecodable / gone)
            T("TestC09Redeliver", "fleet", 1, 1, enum=True, qshards=4, shards=8, procs=4),
            # the sweeper's own non-empty write transaction lands between an application commit and the loop's next look
            T("TestC09SweepCommit", "fleet", 1, 1, enum=True, qshards=4, shards=8, procs=4),
        ],
        "known_tests": [T("TestKnownC03", "fleet", 1, 1)],
        "assumptions": [
            "same scheduler runs as C03 (one run feeds both oracles)",
            "idle = two consecutive loop iterations without application commit, delivery or Store; storage_force_snapshot_interval = 0",
            "Store fault sequences are shorter than the retry budget (storage_retry_count = 4)",
            "a key that currently holds a merged remote winner is not required to be re-published (merged remote data is not a local change, by design)",
        ],
    },
    "C04": {
        "level": "exploration",
        "tests": [
            T("TestC04Deletes", "fleet", 800, 96000, shards=16, qshards=4),
            T("TestC04Config", "fleet", 50000, 8000000, shards=8),
            T("TestC04SweepThenLoad", "fleet", 1500, 160000, shards=16),
            T("TestC04LoopEnum", "fleet", 1, 1, enum=True, qshards=4, shards=8, procs=4),
            T("TestC04ForeignMarker", "fleet", 1500, 160000, shards=16, qshards=2),
            T("TestC04OldDelete", "fleet", 800, 96000, shards=16, qshards=4),
        ],
        "assumptions": [
            "sweeper clause for snapshots in the current format (version-1 snapshots carry no deleted flag)",
            "a marker is only required to be accepted from a peer when it is one second old; markers between the load cutoff and the retention may be refused for absent keys by design",
            "end-to-end cases use the real clock with margins of >= 1 s around the cutoffs",
        ],
    },
    "C10": {
        "level": "exploration",
        "tests": [
            T("TestC10Remerge", "fleet", 800, 96000, shards=16, qshards=4),
            T("TestC10Loop", "fleet", 240, 12000, shards=16, qshards=4, procs=4),
            T("TestC10Swept", "fleet", 3000, 960000, shards=16, qshards=2),
            T("TestC10Burst", "fleet", 240, 24000, shards=16, qshards=4, procs=4),
            T("TestC10LoopEnum", "fleet", 1, 1, enum=True, qshards=4, shards=8, procs=4),
        ],
        "assumptions": [
            "part A (direct driver): re-merging merged content commits nothing; part B (real loops under the scheduler): uploads are counted in a write-free phase of 2N+2 rounds",
            "'bounded number of exchanges' is decided as: at most an in-flight and one pending upload per instance, none from the third round on",
            "storage_force_snapshot_interval is generated: off, 1 h (never elapses: same clauses) or 15-60 ms (an upload is then also justified when, by the snapshots' own timestamps, the interval has passed since the instance's previous snapshot or the start)",
            "every upload of an instance must be preceded, since the LMDB transaction its previous upload was the image of (snapshot meta data), by a commit of its application",
            "DBIs without the dupsort hack",
        ],
    },
    "C02": {
        "level": "exploration",
        "tests": [
            T("TestC02PairGrid", "kv", 1, 1, enum=True),
            T("TestC02Merge", "kv", 20000, 9600000, shards=16),
            T("TestC02Update", "kv", 1500, 800000, shards=16),
        ],
        "assumptions": [
            "a deleted version has an empty value (documented MUST for applications)",
            "with a non-zero stale-marker cutoff the join is not commutative by design; order relations are asserted only over version sets without stale markers",
            "version-1 snapshots have no deleted flag: their empty-value deletions are not subject to the stale-marker clause",
            "the default-timestamp use (shadow capture): the default may be later than, equal to or earlier than the stored timestamp (start-up capture with timestamp 1, peer clocks ahead); only the single-step clauses apply to it, no order relations",
        ],
    },
    "C05": {
        "level": "fault_enumeration",
        "tests": [
            T("TestC05Enum", "fleet", 1, 1, enum=True, qshards=8, shards=8, procs=4),
            T("TestC05CleanerEnum", "fleet", 1, 1, enum=True, qshards=4, shards=8, procs=4),
            T("TestC05StaleEnum", "fleet", 1, 1, enum=True, qshards=4, shards=4, procs=4),
            T("TestC05DeleteFaultEnum", "fleet", 1, 1, enum=True, qshards=4, shards=4, procs=4),
            T("TestC05Bucket", "fleet", 400, 24000, shards=16, qshards=8, procs=4),
        ],
        "assumptions": [
            "a crash is modelled as the loss of all in-memory state at a yield point (between two LMDB transactions); fsync/power-loss durability and real object-store anomalies are out of reach",
            "tomb sweeper off; the bucket is the in-memory backend behind the fault wrapper",
            "downloads run in real background goroutines (1 ms polling): the exact interleaving of a replay may differ, the invariants are evaluated on the operation log after every bucket mutation",
            "native-mode application writes are stamped with the wall clock and later than what they overwrite",
        ],
    },
    "C06": {
        "level": "exploration",
        "tests": [
            T("TestC06Image", "fleet", 400, 48000, shards=16, qshards=4),
            T("TestC06Concurrent", "fleet", 150, 32000, shards=16, qshards=2, procs=4),
            # "exactly the stored application value" for values written by others (extension blocks 1..512)
            T("TestC14Stored", "kv", 3000, 800000, shards=16, qshards=2),
        ],
        "assumptions": [
            "the reference codec decodes the uploaded blob; byte equality with a re-marshal is not demanded (the streaming encoder writes fields in another order)",
            "shadow mode: the snapshot is compared with the shadow DBIs read right after the call; that the shadow DBIs mirror the application DBIs is C11",
            "dupsort contents use a separator-free alphabet so that the hack can map them (refusals are C20)",
            "shadow-mode concurrent writers cannot commit inside the dump transaction (it holds the write lock): they run freely",
        ],
    },
    "C07": {
        "level": "exploration",
        "tests": [
            T("TestC07RoundTrip", "codec", 1500, 160000, shards=16),
            T("TestC07ForwardCompat", "codec", 4000, 480000, shards=16),
            T("TestC07BufferGrowth", "codec", 1, 1, enum=True),
            T("TestC07Interleaved", "codec", 800, 96000, shards=16),
        ],
        "known_tests": [T("TestKnownC07", "codec", 1, 1)],
        "fuzz": [{"pkg": "codec", "name": "FuzzUnmarshal", "time": "120s", "timeout": 600}],
        "assumptions": [
            "the generated gogo codec (snapshot/gogosnapshot) is the reference for the published schema",
            "LMDB content: DBI names and keys are non-empty; transaction ids are non-negative",
            "proto3 writers do not emit group wire types; uint32 fields carry at most 32 bits",
        ],
    },
    "C08": {
        "level": "exploration",
        "tests": [
            T("TestC08Decode", "codec", 12000, 1600000, shards=16, qshards=4),
            T("TestC08Corpus", "codec", 1, 1, enum=True),
            T("TestC08Proportional", "codec", 1, 1, enum=True),
            T("TestC16Receiver", "recv", 120, 8000, shards=16, qshards=4, procs=4),
            # the same buckets with undecodable blobs under the race detector: a data race between the downloaders'
            # corrupt-blob bookkeeping and the listing pass ends the process ("concurrent map read and map write")
            T("TestC16Receiver", "recv", 120, 8000, shards=16, qshards=4, race=True, gomaxprocs=[4, 2, 8, 16]),
            # every blob under the instance's own name is undecodable: the freely running Sync gets past them and publishes
            T("TestC08OwnCorrupt", "fleet", 1, 1, enum=True),
        ],
        "fuzz": [{"pkg": "codec", "name": "FuzzUnmarshal", "time": "120s", "timeout": 600},
                 {"pkg": "codec", "name": "FuzzLoadData", "time": "120s", "timeout": 600}],
        "assumptions": [
            "memory bound is a measured allocation bound with a generous constant (24x compressed + 8x decompressed + 4 MiB), not a complexity result",
            "a hang is reported only when the decode goroutine is seen running inside the snapshot package twice, 1 s apart, after a 20 s limit",
        ],
    },
    "C11": {
        "level": "exploration",
        "tests": [T("TestC11Mirror", "kv", 24000, 1920000, shards=16, qshards=8),
                  T("TestC11Contended", "kv", 160, 16000, shards=16, qshards=8),
                  # one capture pass that meets a changed key and a deleted key of the same DBI (every pair)
                  T("TestC11ChangeAndDelete", "kv", 1, 1, enum=True)],
        "known_tests": [T("TestKnownC11", "kv", 1, 1)],
        "assumptions": [
            "steady state: every step runs with the syncer's own bookkeeping of the last synced transaction id (changes made while the syncer is down are documented to be treated differently)",
            "instances share one monotone clock: remote versions never carry timestamps later than the local detection time",
            "live empty application values are excluded by construction (known finding shadow-empty-value) and counted",
            "remote timestamps never tie with local detection stamps (ties are decided by C01/C02)",
        ],
    },
    "C12": {
        "level": "exploration",
        "tests": [
            T("TestC12Cleaner", "recv", 20000, 16000000, shards=16),
            T("TestC12ReceiveOnly", "fleet", 60, 6000, shards=8, qshards=2, procs=4),
            T("TestC12Wired", "fleet", 1500, 160000, shards=16, qshards=4),
        ],
        "assumptions": [
            "names of one instance appear in timestamp order and never re-appear after deletion (the property's stated domain)",
            "merge-commit notifications are monotone per instance, as the sync loop produces them",
            "'eventually removed' is decided in bounded form: two further fault-free runs more than must_keep_interval apart leave at most one file per instance",
            "the receive-only clause (no Store/Delete at all) needs a Syncer and is checked with the scheduler harness in the fleet package",
        ],
    },
    "C13": {
        "level": "exploration",
        "tests": [T("TestC13Sweeper", "kv", 1500, 768000, shards=16),
                  T("TestC13Aging", "kv", 48, 1600, shards=16, qshards=16),
                  T("TestC13SlowPass", "kv", 1, 1, enum=True, qshards=2, shards=2)],
        "assumptions": [
            "wall-clock cutoffs are bracketed by the times read before and after the pass; generated timestamps keep a 10 s margin from the cutoff (the exact >= vs > at a nanosecond boundary of the real clock is not forceable)",
            "entries the application writes during the pass may or may not be visited afterwards: only their byte integrity is asserted",
        ],
    },
    "C14": {
        "level": "exploration",
        "tests": [
            T("TestC14Build", "codec", 30000, 12000000, shards=8),
            T("TestC14Parse", "codec", 60000, 24000000, shards=8),
            T("TestC14Loop", "fleet", 150, 16000, shards=16, qshards=4, procs=4),
            T("TestC14LoopEnum", "fleet", 1, 1, enum=True, qshards=4, shards=8, procs=4),
            T("TestC14Stored", "kv", 6000, 1600000, shards=16, qshards=2),
            T("TestC14Shadow", "kv", 6000, 1600000, shards=16, qshards=2),
            T("TestC14TwoSyncers", "kv", 1500, 160000, shards=16, qshards=2),
            # invariant part: every value Lightning Stream writes is re-read with the independent reader
            # inside these harnesses (shadow captures/merges/projections, native merges, all format versions)
            T("TestC11Mirror", "kv", 1500, 160000, shards=16),
            T("TestC18Atomic", "kv", 1500, 160000, shards=16),
            T("TestC02Merge", "kv", 10000, 1600000, shards=16),
        ],
        "known_tests": [T("TestKnownC14", "kv", 1, 1)],
        "assumptions": [
            "empty stored values in a native DBI are excluded from TestC14Stored (listed known finding native-empty-stored-value-crash: the dump dies with SIGBUS when such a value is the last thing in the data file; reproduced in a child process on every run)",
            "the header table in docs/schema-native.md is the specification (independent reader in harness/internal/model/header.go)",
            "the invariant part re-reads what LS wrote in the C02/C11/C18 harnesses: version 0, flags within the synced set, reserved bytes zero, extension count matching the bytes present, transaction id of the writing transaction, deleted => empty value",
        ],
    },
    "C16": {
        "level": "exploration",
        "tests": [
            T("TestC16Receiver", "recv", 320, 16000, shards=16, qshards=4, procs=4),
            T("TestC16RunOnce", "fleet", 150, 16000, shards=16, qshards=4, procs=4),
            T("TestC16Pauses", "recv", 1, 1, enum=True, qshards=8, shards=8, procs=4),
            T("TestC16LoopRedeliver", "fleet", 1, 1, enum=True, qshards=4, shards=8, procs=4),
        ],
        "assumptions": [
            "'eventually delivered' is decided in bounded form: with faults off, a frozen bucket and a draining consumer every other instance's newest decodable snapshot must arrive within 10 s of polling at 1 ms intervals; if the process itself was starved of CPU (heartbeat goroutine) the case is inconclusive, not a violation",
            "the memory limits are observed through the lightningstream_climit_active gauges; the gauge is decremented just after the token is returned, so only an overshoot that persists over 4 samples counts",
            "own-instance snapshots exist only before start-up (a running instance publishes its own snapshots itself)",
            "run-once mode (program ends by itself after merging the start-up snapshots) is checked with the scheduler harness in the fleet package",
            "relative speeds: besides the Go scheduler's own interleavings, the goroutine that writes a given log line (receiver, downloaders, token pools) is held up for 0.3-6 ms at generated / enumerated occurrences (a logrus hook on the logger handed to the receiver); places without a log statement or yield point cannot be stretched",
        ],
    },
    "C17": {
        "level": "exploration",
        "tests": [
            T("TestC17Topics", "conc", 400, 48000, shards=16, qshards=4, race=True, gomaxprocs=[4, 2, 1, 16]),
            T("TestC17Climit", "conc", 400, 48000, shards=16, qshards=2, race=True, gomaxprocs=[4, 2, 1, 16]),
            T("TestC17Storage", "conc", 600, 48000, shards=8, qshards=2, race=True, gomaxprocs=[4, 2, 1, 16]),
            T("TestC17Instance", "conc", 240, 24000, shards=16, qshards=4, race=True, gomaxprocs=[4, 2, 8, 16]),
            T("TestC17Cleaner", "conc", 240, 24000, shards=16, qshards=4, race=True, gomaxprocs=[4, 2, 8, 16]),
            # the receiver harness of C16 (several instances, limits 1-3, supersession, log-line pauses) under the race
            # detector: a wedged receiver (Next() not returning, downloaders blocked for good) is this property's business too
            T("TestC16Receiver", "recv", 160, 16000, shards=16, qshards=4, race=True, gomaxprocs=[4, 2, 8, 16]),
        ],
        "assumptions": [
            "a race detector / schedule-fuzzing search: only interleavings that actually ran are covered; the scenario structure (who does what, how often, with which pauses) is generated, the interleaving is the Go scheduler's, GOMAXPROCS varied over shards",
            "subscribers keep receiving until they close (a subscriber that neither receives nor closes blocks the publisher by design)",
            "a wedge is reported only when the same goroutines are seen blocked inside repository code in two dumps 1 s apart after a 5 s bound",
        ],
    },
    "C18": {
        "level": "fault_enumeration",
        "tests": [T("TestC18Atomic", "kv", 3000, 3840000, shards=16)],
        "assumptions": [
            "stored timestamps are even and snapshot timestamps odd, so the reference merge needs no tie-break",
            "cancellation is injected before the merge starts (the merge checks the context after each DBI, so the first DBI is merged and then aborted)",
            "the concurrent reader uses DBI handles opened before the merge (LMDB forbids opening handles concurrently with a writer)",
            "shadow-mode cases run in steady state with the dupsort hack disabled; a peer that declares a different DBI type for an existing DBI name is out of scope",
        ],
    },
    "C19": {
        "level": "exploration",
        "tests": [T("TestC19Strategies", "kv", 12000, 4800000, shards=16)],
        "assumptions": [
            "iterator decisions are pure functions of (key, stored value); iterators return nil, never an empty slice, for 'no value' (documented Iterator contract)",
            "little-endian host (integer keys compared as native unsigned integers)",
        ],
    },
    "C20": {
        "level": "exploration",
        "tests": [
            T("TestC20One", "kv", 30000, 3200000, shards=16),
            T("TestC20DBI", "kv", 10000, 1600000, shards=16),
            T("TestC20Cycle", "kv", 800, 96000, shards=16),
            T("TestC20Hostile", "kv", 3000, 320000, shards=16),
            T("TestC20Disabled", "kv", 600, 32000, shards=8),
        ],
        "assumptions": [
            "default LMDB dupsort order (bytewise keys, bytewise values); integer-dup / reverse-dup DBIs are out of scope",
            "pairs with an empty value are excluded from the mirror cycle (known finding shadow-empty-value) and counted",
            "remote timestamps are far in the past relative to the wall clock",
        ],
    },
    "C15": {
        "level": "exploration",
        "tests": [
            T("TestC15Names", "codec", 60000, 48000000, shards=16),
            T("TestC15Sanitiser", "codec", 3000, 600000, shards=4),
            T("TestC15Listing", "recv", 400, 48000, shards=16, qshards=4, procs=4),
        ],
        "assumptions": [
            "database names, generation ids and extra items are drawn from the documented safe alphabet [A-Za-z0-9-]",
            "timestamps are within 1970..2262 (non-negative int64 nanoseconds)",
            "listing part: database names come from a small pool (the metric registries keep every label set); other databases' names extend, are a prefix of, or are unrelated to this database's name",
        ],
    },
}

"""Per-property configuration of the driver: which test functions decide the
property, in which harness package, with how many generated cases per tier."""


def T(name, pkg, quick, thorough, **kw):
    d = {"name": name, "pkg": pkg, "quick": quick, "thorough": thorough}
    d.update(kw)
    return d


PROPS = {
    "C15": {
        "level": "exploration",
        "tests": [
            T("TestC15Names", "codec", 60000, 4000000, shards=16),
            T("TestC15Sanitiser", "codec", 3000, 60000, shards=4),
        ],
        "assumptions": [
            "database names, generation ids and extra items are drawn from the documented safe alphabet [A-Za-z0-9-]",
            "timestamps are within 1970..2262 (non-negative int64 nanoseconds)",
        ],
    },
}

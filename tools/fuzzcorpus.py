#!/usr/bin/env python3
"""Grows harness/corpus/pb from a native fuzzing campaign: runs FuzzUnmarshal for the given time with a
private fuzz cache, converts every input the fuzzer kept (new coverage) from the 'go test fuzz v1' format
to raw bytes and stores the small ones (<= 2 KiB) under harness/corpus/pb/<sha1>. TestC08Corpus replays
them in the quick tier; FuzzUnmarshal uses them as seeds in the thorough tier.
usage: tools/fuzzcorpus.py [seconds] [max_files]"""
import ast, glob, hashlib, os, re, shutil, subprocess, sys
ROOT = os.path.dirname(os.path.dirname(os.path.abspath(__file__)))
secs = int(sys.argv[1]) if len(sys.argv) > 1 else 300
maxfiles = int(sys.argv[2]) if len(sys.argv) > 2 else 400
cache = "/dev/shm/verif-fuzzcache-%d" % os.getpid()


def go_unquote(lit):
    """Decodes a Go interpreted string literal ("...") to bytes."""
    if len(lit) < 2 or lit[0] != '"' or lit[-1] != '"':
        return None
    body = lit[1:-1]
    out = bytearray()
    i = 0
    simple = {"a": 7, "b": 8, "f": 12, "n": 10, "r": 13, "t": 9, "v": 11, "\\": 92, '"': 34, "'": 39}
    while i < len(body):
        c = body[i]
        if c != "\\":
            out += c.encode("utf8")
            i += 1
            continue
        e = body[i + 1]
        if e in simple:
            out.append(simple[e]); i += 2
        elif e == "x":
            out.append(int(body[i + 2:i + 4], 16)); i += 4
        elif e == "u":
            out += chr(int(body[i + 2:i + 6], 16)).encode("utf8"); i += 6
        elif e == "U":
            out += chr(int(body[i + 2:i + 10], 16)).encode("utf8"); i += 10
        elif e in "01234567":
            out.append(int(body[i + 1:i + 4], 8)); i += 4
        else:
            return None
    return bytes(out)

env = dict(os.environ, GOFLAGS="-mod=mod", GOPROXY="off", VERIF_ROOT=ROOT)
pkg = os.path.join(ROOT, "harness", "codec")
try:
    p = subprocess.run(["go", "test", "-tags", "verif", "-run", "^$", "-fuzz", "^FuzzUnmarshal$", "-fuzztime", "%ds" % secs, "-parallel", "4",
                        "-test.fuzzcachedir", cache, "."], cwd=pkg, env=env, capture_output=True, text=True)
    print(p.stdout[-1500:])
    if p.returncode != 0:
        print("fuzzing ended with exit", p.returncode, "(a crasher would be under harness/codec/testdata/fuzz)")
    out = os.path.join(ROOT, "harness", "corpus", "pb")
    os.makedirs(out, exist_ok=True)
    have = set(os.listdir(out))
    added = 0
    files = sorted(glob.glob(os.path.join(cache, "**", "FuzzUnmarshal", "*"), recursive=True), key=os.path.getsize)
    for f in files:
        txt = open(f, encoding="utf8", errors="replace").read().splitlines()
        if not txt or not txt[0].startswith("go test fuzz v1"):
            continue
        m = re.match(r'^\[\]byte\((.*)\)$', txt[1].strip()) if len(txt) > 1 else None
        if not m:
            continue
        lit = m.group(1)
        try:
            data = go_unquote(lit)
        except Exception:
            continue
        if data is None:
            continue
        if len(data) > 2048:
            continue
        name = hashlib.sha1(data).hexdigest()[:16]
        if name in have:
            continue
        if len(have) >= maxfiles:
            break
        open(os.path.join(out, name), "wb").write(data)
        have.add(name)
        added += 1
    print("kept %d new inputs, corpus now %d files" % (added, len(have)))
finally:
    shutil.rmtree(cache, ignore_errors=True)

#!/usr/bin/env python3
"""Regenerates /verif/MANIFEST.json from tools/props.py (claimed checks) and
tools/not_applicable.json."""
import json, os, subprocess, sys
ROOT = os.path.dirname(os.path.dirname(os.path.abspath(__file__)))
sys.path.insert(0, os.path.join(ROOT, "tools"))
from props import PROPS

all_ids = [json.loads(l)["id"] for l in open(os.path.join(ROOT, "properties.jsonl"))]
try:
    hooks = subprocess.run(["git", "-C", "/repo", "log", "--format=%H %s", "--grep=^verif hooks:"],
                           capture_output=True, text=True).stdout.strip().splitlines()
    hook_commits = [h.split()[0] for h in hooks][::-1]
except Exception:
    hook_commits = []

checks = []
for pid in all_ids:
    if pid not in PROPS:
        continue
    P = PROPS[pid]
    checks.append({
        "property_id": pid,
        "quick_cmd": "./check %s --tier quick" % pid,
        "thorough_cmd": "./check %s --tier thorough" % pid,
        "evidence_file": "/verif/evidence/%s.json" % pid,
        "replay_cmd_template": "./check %s --replay {path}" % pid,
        "engine": "harness",
        "level_claimed": {"category": P.get("level", "exploration"), "text": P.get("level_text", ""), "design_ref": P.get("design_ref", "DESIGN.md §3 " + pid)},
        "level_note": P.get("level_note", ""),
        "technique": P.get("technique", "property-based testing (rapid) against an explicit oracle"),
    })
na_path = os.path.join(ROOT, "tools", "not_applicable.json")
na = json.load(open(na_path)) if os.path.exists(na_path) else {}
not_applicable = []
for pid in all_ids:
    if pid not in PROPS:
        not_applicable.append({"property_id": pid, "reason": na.get(pid, "check not built yet (work in progress); see DESIGN.md §3 " + pid)})

m = {
    "version": 1,
    "setup_cmd": "./setup.sh",
    "hooks": {
        "guard": "verif",
        "enable": "go build tag: the harness builds /repo with `-tags verif` (module replace => /repo); yield points call utils/vhook.At, which is an empty inlined function without the tag",
        "baseline_off_cmd": "cd /repo && GOFLAGS=-mod=mod GOPROXY=off go test -vet=off -count=1 ./...",
        "source_commits": hook_commits,
        "add_only": True,
    },
    "engines": [{
        "name": "harness", "path": "/verif/harness",
        "serves_properties": [c["property_id"] for c in checks],
        "kind_free_text": "one Go module (pgregory.net/rapid v1.3.0 property-based tests + native go fuzz targets) driven by /verif/check (python3, stdlib only); reference models and oracles in harness/internal",
    }],
    "checks": checks,
    "not_applicable": not_applicable,
    "notes": "All checks rebuild the harness against /repo's current working tree (go module replace). Exit 2 = inconclusive (build failure/timeout), never reported as a violation. Known findings: /verif/known_findings.json.",
}
json.dump(m, open(os.path.join(ROOT, "MANIFEST.json"), "w"), indent=1)
print("wrote MANIFEST.json with", len(checks), "checks,", len(not_applicable), "not_applicable")
